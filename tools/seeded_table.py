#!/usr/bin/env python3
"""Write /verif/seeded/README.md from the meta.json files (what each independently produced change is, what it needs to manifest, which check reports it)."""
import glob, json, os, re
HERE = os.path.dirname(os.path.dirname(os.path.abspath(__file__)))
rows, missed, neutral = [], [], []
for d in sorted(glob.glob(os.path.join(HERE, "seeded", "C*_*"))):
    m = json.load(open(os.path.join(d, "meta.json")))
    vr = m.get("verif_ran", {})
    det = vr.get("detection", {})
    hits = []
    for p, r in det.items():
        if r.get("exit") == 1:
            first = (r.get("first") or [""])[0]
            ob = re.search(r"obligation=(\S+)", first)
            hits.append("%s: `%s`" % (p, ob.group(1) if ob else "?"))
    name = os.path.basename(d)
    files = ", ".join(m.get("files_changed", []))
    what = (m.get("what_it_breaks") or "").replace("\n", " ").replace("|", "/")
    needs = (m.get("needs_to_manifest") or "").replace("\n", " ").replace("|", "/")
    if len(what) > 260:
        what = what[:257] + "..."
    if len(needs) > 200:
        needs = needs[:197] + "..."
    conf = vr.get("confirmed_by_verif", {})
    ok = conf.get("all_conditions_hold")
    rows.append("| %s | %s | %s | %s | %s | %s |" % (name, files, what, needs, "yes" if ok else "NO", "; ".join(hits) if hits else "**missed** (exit %s)" % ",".join(str(r.get("exit")) for r in det.values())))
    if m.get("neutralised"):      # a later fix: commit made the change harmless: it must NOT be reported any more
        quiet = all(r.get("exit") == 0 for r in det.values())
        rows[-1] = "| %s | %s | %s | %s | %s | %s |" % (name, files, what, needs, "no longer a violation", ("quiet, as it should be: " if quiet else "**still reported**: ") + m["neutralised"][:160] + "...")
        if not quiet:
            missed.append(name)
        neutral.append(name)
        continue
    if not hits:
        missed.append(name)
out = ["# Independently produced breaking changes", "",
       "Each directory holds `patch.diff` (apply with `patch -p1` in a copy of /repo), `demo.py` (exits 0 on the pinned tree, non-zero with the change;",
       "`python demo.py <root of the copy>`) and `meta.json`. The changes were written by fresh sub-agents that were given only the text of one property and",
       "a scratch git worktree of /repo (nothing from /verif). 'confirmed' = re-checked here by `tools/seedeval.py` on scratch copies: patch applies, the",
       "repository's test suite gives the unchanged result (506 passed and the same 6 pre-existing failures), demo passes on the clean copy and fails on the changed one.",
       "'reported by' = the registered quick check of the property (plus any other property listed) run with `--repo <changed copy>`; the first obligation it names.",
       "None of these changes is ever applied to /repo itself.", "",
       "%d changes, %d reported (exit 1 with a VIOLATION line), %d made harmless by a later fix and rightly not reported (%s), %d missed: %s" % (len(rows), len(rows) - len(missed) - len(neutral), len(neutral), ", ".join(neutral) or "-", len(missed), ", ".join(missed) or "-"), "",
       "| id | files | what it breaks | needs, to manifest | confirmed | reported by |", "|---|---|---|---|---|---|"] + rows
open(os.path.join(HERE, "seeded", "README.md"), "w").write("\n".join(out) + "\n")
print(out[9])
