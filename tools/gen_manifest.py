#!/usr/bin/env python3
"""Regenerate MANIFEST.json from the claim table below (keeps it schema-valid at all times)."""
import json, os, sys
HERE = os.path.dirname(os.path.dirname(os.path.abspath(__file__)))
sys.path.insert(0, HERE)
from tools.claims import CLAIMS, NOT_APPLICABLE, NOTES

BASELINE_CMD = "cd /repo && /venv/bin/python -m pytest -ra -q -p no:cacheprovider --timeout=900 --continue-on-collection-errors"

man = {
    "version": 1,
    "setup_cmd": "./vcheck --setup",
    "hooks": {
        "guard": "CHEMPY_VERIF",
        "enable": "no hooks exist: contracts are sidecar files under /verif/contracts, the verifier re-reads /repo's working tree on every run; CHEMPY_VERIF is reserved and unused",
        "baseline_off_cmd": BASELINE_CMD,
        "source_commits": [],
        "add_only": True,
    },
    "engines": [
        {"name": "pyvc", "path": "pyvc/", "serves_properties": sorted(CLAIMS),
         "kind_free_text": "contract-based deductive verifier built here: interprets the FunctionDef ASTs of the real chempy functions symbolically (z3-backed values, loop invariants, call-site contracts), discharges every obligation with z3 (cvc5 for strings, exact polynomial normaliser for field identities); counter-models are replayed on the real code in CPython"},
    ],
    "checks": [],
    "notes": NOTES,
    "not_applicable": [{"property_id": k, "reason": v} for k, v in sorted(NOT_APPLICABLE.items())],
}
for pid in sorted(CLAIMS):
    c = CLAIMS[pid]
    man["checks"].append({
        "property_id": pid,
        "quick_cmd": "./vcheck %s --tier quick" % pid,
        "thorough_cmd": "./vcheck %s --tier thorough" % pid,
        "evidence_file": "evidence/%s.json" % pid,
        "replay_cmd_template": "./vcheck --replay {path}",
        "engine": "pyvc",
        "level_claimed": {"category": c["category"], "text": c["text"], "design_ref": c.get("design_ref", "DESIGN.md section 7 (%s)" % pid)},
        "level_note": c["note"],
        "technique": c["technique"],
    })
with open(os.path.join(HERE, "MANIFEST.json"), "w") as fh:
    json.dump(man, fh, indent=1)
try:
    import jsonschema
    jsonschema.validate(man, json.load(open("/root/.vp/MANIFEST.schema.json")))
    print("MANIFEST.json valid: %d checks, %d not_applicable" % (len(man["checks"]), len(man["not_applicable"])))
except ImportError:
    print("written (jsonschema not available)")
