"""Claim table from which MANIFEST.json is generated (tools/gen_manifest.py)."""
TECH = "contract-based deductive verification: VCs generated from the real functions' ASTs (pyvc), discharged by z3 / cvc5 / an exact field normaliser (and the Lean 4 kernel for two shape-independent lemmas, C05 and C11)"
COMMON_NOTE = ("Trusted: the pyvc interpreter/VC generator, z3, CPython's ast; Python semantics assumptions A1-A12 (ints exact, floats as reals, dict order as ghost enumeration, modelled exception sources, fold extensionality lemma, materialised iterators); "
               "bounded stand-ins (native runs of the same contracts on seeded inputs) are reported separately and never counted as proved. ")

CLAIMS = {
    "C14": {
        "category": "proof",
        "technique": TECH + "; tables as data obligations; exhaustive name lookup",
        "text": "mass_from_composition proved equal to the spec fold for every composition (loop invariant, unbounded); Substance.mass/charge proved against it modularly; "
                "mass_fractions proved (value, positivity, proportionality, sum=1) for every mass/coefficient at 1-4 species (shape-bounded); "
                "the 118-row table, groups/periods and the electron mass are checked as data obligations against a reference snapshot; atomic_number exhaustively on all case variants.",
        "note": COMMON_NOTE + "Reference table spec/iupac.py is a hand-spot-checked snapshot of the pinned table (detects any later change, not an independent IUPAC derivation). Floats as reals (A2).",
    },
}

def _c(text, note_extra="", category="proof", technique=None):
    return {"category": category, "technique": technique or TECH, "text": text, "note": COMMON_NOTE + note_extra}


CLAIMS.update({
    "C03": _c("Stoichiometry tuples, reaction order and MassAction.active_conc_prod are proved for reactions of ANY size (symbolic maps, quantified postconditions, loop invariant: only active reactants enter the product). "
              "Reaction.rate, ReactionSystem.rates (sum over reactions, every substance has a rate, order independence, stirred-tank feed terms), law_of_mass_action_rates, dCdt_list and the stoichiometry matrices are proved for all coefficients, "
              "concentrations and rate constants at fixed system shapes (catalysts on both sides, inactive parts, sources, spectators). A bounded stand-in runs the same contracts natively on generated systems.",
              "pow(x,n) with symbolic exponent is an uninterpreted function with the laws of 5.3; numpy object arrays are assumed to store/return elements."),
    "C05": _c("composition_keys, composition_violation, check_balance (true iff every key of every reaction balances, ValueError iff not), the constructor's default checks (accepted iff balanced), composition_balance_vectors "
              "(rows = keys incl. charge, columns = substances) and the identity B.(N^T r) = sum_r rate_r * violation_r (ring back end) are proved for all compositions/coefficients at fixed shapes; numerical-integration clauses are bounded (thorough tier).",
              "Shape-bounded: four substances with partly missing keys (charge-only, empty), two reactions with inactive parts."),
    "C11": _c("intdiv proved for all integers; integer scaling / negation / addition / subtraction of equilibria (net stoichiometry, positivity, netted form, side swap, constant = product of powers), cancel and as_reactions proved for all "
              "coefficients and constants at key layouts with species on opposite sides, same side and disjoint; eliminate is covered by an exhaustive bounded grid (sympy.primefactors is external).",
              "pow(K,n) for symbolic integer n is uninterpreted with the laws of 5.3; histories of operations follow by induction from the per-operation contracts (stated, not mechanised in this round)."),
    "C16": _c("Expr.arg/all_args/all_params (unique-key override replaces exactly one argument, fallbacks, defaults, nesting), the operator algebra incl. reflected forms and shortcuts, create_Poly (any number of coefficients, loop invariant; plus explicit degrees 0-3 with shift/reciprocal), "
              "create_Piecewise, MassAction, Arrhenius, Eyring, EyringHS, Radiolytic, RampedTemp, SinTemp, arrhenius_equation, eyring_equation, ArrheniusParam/EyringParam (call, from_rateconst_at_T round trip, as_RateExpr inside a Reaction for orders 1-3), GibbsEqConst and MassActionEq "
              "are proved equal to their defining formulas for all real arguments (ring/z3).",
              "Backends are abstracted to the same real functions (5.3): equality of math/numpy/sympy floating point results and the with-units paths are bounded only. Fits (least_squares, curve_fit) are out of reach."),
    "C17": _c("All seven closed forms are executed symbolically with an abstract backend and differentiated by the verifier: the ODE residual of the documented mechanism and the initial value are discharged by the exact field normaliser (ring) for all parameters; "
              "every denominator/radicand is proved non-zero/non-negative for positive parameters (nlsat on atomised terms); evaluation under the attribute sets of math, numpy and sympy is proved not to raise.",
              "exp/sqrt/tanh are uninterpreted with exp(a+b)=exp(a)exp(b), sqrt(x)^2=x, tanh'=1-tanh^2 (5.3); floating-point agreement of backends is bounded."),
    "C18": _c("ionic_strength proved for sequences of ANY length (two loop invariants over None-initialised accumulators; warning emitted only if not neutral, silence only if nearly neutral within the code's tolerance; length mismatch raises), dict form at 1-3 ions; "
              "A and B proved to have the Debye-Hueckel functional form on both code paths (ring), hard-coded factors tied to CODATA by data obligations; limiting/extended/Davies formulas, their limits (a->0, I->0) and the three activity products (loop invariants, any length) proved.",
              "sqrt/exp per 5.3; with-units paths of A/B are compared with the numeric path on a grid using the real quantities package (data obligation) and in the bounded stand-in."),
    "C19": _c("Under the unit abstraction 5.1 with generic units of symbolic scale ('any compatible unit'): water_density, water_viscosity, water_self_diffusion_coefficient, water_permittivity, Henry (incl. inverse), nernst_potential and electrical_mobility_from_D return the same SI value and the "
              "right dimension whether called with plain numbers in documented units or with quantities; range warnings are proved to be emitted iff outside the documented range (and never when disabled); formulas equal the published ones; coefficients/anchors/shape as data obligations.",
              "The `quantities` package is an ASSUMED contract (pyvc/qmodel.py), sampled against the real package by the bounded stand-ins of C09/C19. Temperatures in kelvin only. sulfuric_acid_density, density_from_concentration and lg_solubility_ratio are bounded only."),
})

CLAIMS.update({
    "C01": _c("The element regex literal (read from the AST) is proved to accept exactly the 118 symbols and to tokenise greedily/deterministically (z3 regex, cvc5); the parse actions multiplyContents/sumByElement, _parse_stoich's atomic-number mapping, _get_leading_integer, _get_charge (values and every rejection class over [0-9+-]*) and _formula_to_parts (prefix/suffix stripping, reassembly, single sign, slash rejection) are proved on symbolic strings/counts; formula_to_composition's hydrate accumulation and charge placement is proved modularly at 1-3 parts. "
              "How pyparsing combines the actions for unbounded nesting is outside the contract: bounded grammar enumeration (depth<=3) + exhaustive 118x118 adjacency.",
              "pyparsing's engine is not under contract (bounded only). A9 string/regex models; int() on non-ASCII digit forms not modelled (inputs restricted to the grammar's alphabet)."),
    "C02": _c("balance_stoichiometry delegates to sympy/CBC. Proved (shape-bounded, all composition values / all solver outputs): head slice up to linsolve = signed composition matrix and the presence pre-check; tail slice after the last assignment to `sol` = every normal return has non-zero, non-negative coefficients, and in the numeric modes numeric ones with A*sol = 0, keyed by exactly the given species. "
              "Positivity/coprimality/minimality/refusal as properties of the solvers' output are decided only inside the bounded exhaustive stand-in (Fraction null-space oracle).",
              "Slices are cut mechanically from the real AST every run. sympy objects are modelled by the attributes the tail reads (is_negative, free_symbols, ==, int).", category="other",
              technique=TECH + " on mechanical head/tail slices; bounded exhaustive stand-in for solver-dependent clauses"),
    "C04": _c("get_odesys is executed symbolically through SymbolicSys.from_callback (assumed contract 5.6 supplied via the function's own SymbolicSys parameter): right-hand side = N^T r per substance in substance order for all coefficients/constants/concentrations, names/param_names, linear invariants, free-parameter neutrality (binding registered unique keys reproduces the inlined rhs), passive substitutions, cstr feed terms, reserved 'time', rate_exprs_cb; _create_odesys by exact sympy comparison on fixed systems. Generated systems: bounded translation validation.",
              "pyodesys beyond the callback contract is external (assumed + bounded)."),
    "C06": _c("The advertised explicit-Euler step (closure max_euler_step_cb) is proved safe for ANY right-hand side and any state in [0, bound]: 0 <= h <= 1 and 0 <= y + h f <= bound component-wise (nlsat, 2-4 components). Agreement of the delegated integrator with exact solutions and non-negativity of trajectories are NOT decidable by contracts: bounded stand-in only (expm / closed forms).",
              "Headline clause (integration accuracy) is bounded only: category other.", category="other",
              technique=TECH + " for the Euler-step clause; bounded comparison against matrix exponential / closed forms for the integrator"),
    "C07": _c("NumSysLin.f, NumSysSquare.f, NumSysLog.f are proved entry by entry (Q_i/K_i - 1; conservation rows B(y-y0); A ln c - ln K; conservation of exp(y); Square = Lin of squares), with equation count nr + #keys and zero-iff-equilibrium in SMT, plus equilibrium_quotient, mat_dot_vec, prodpow, for all states/constants at two homogeneous systems. rref configurations, LinRel/LinTanh: bounded stand-in.",
              "pyneqsys.linear_exprs(rref=False) per its source; rref paths external."),
    "C08": _c("Proved: _result_is_sane is exactly non-negativity and the elemental bound (with warnings); root/_solve plumbing (params, default x0, sanity of the RETURNED x vs the SAME initial state, failure warning); precipitation switches; dissolved(); pre/post processor inverses. "
              "That success-and-sane implies a genuine equilibrium depends on the external least-squares solver: bounded run-time contract, with recorded findings F-C08/F-C08b (solver reports success at non-roots).",
              "pyneqsys solvers external; category other because the headline clause is bounded only.", category="other",
              technique=TECH + " for chempy's own plumbing; bounded run-time contract on EqSystem.root/solve"),
    "C09": _c("Under the unit abstraction 5.1 (generic units of symbolic scale): to_unitless = magnitude * exact unit ratio (reversible, composable, linear, element-wise, raises on dimension mismatch), get_derived_unit for every key against an independent SI exponent table for every registry, delegation shape of linspace/concatenate/tile/polyfit/polyval, Backend wrapper; unit definitions and the abstraction itself validated against the real package (data obligations). Registry helpers that walk quantities internals: bounded stand-in.",
              "`quantities` is an assumed contract (pyvc/qmodel.py)."),
    "C10": _c("Under 5.1: Reaction.check_consistent_units accepts iff dimension = conc^(1-order)/time (orders 0-3, any units, each one-off dimension rejected); Equilibrium never accepts another dimension; args_dimensionality of all rate classes for EVERY order (symbolic); Expr.dedimensionalisation preserves physical values argument-wise (nested), hence registry-independent mass-action rates. get_odesys unit callbacks end-to-end: bounded metamorphic stand-in over three registries.",
              "default_unit_in_registry/unitless_in_registry are assumed at call sites (they walk quantities internals)."),
    "C12": _c("Printing structure proved for symbolic coefficients in all four printers; _parse_multiplicity proved to invert the printed term layouts for every n>=0 incl. repeated species and allowed-key check; to_reaction placement/parameter routes modularly; _is_inactive_group exhaustively (all strings over 4 letters up to length 7); copy/==. Full text round trips: bounded stand-in.",
              "A9 model of re.split on space-free pieces; eval() external."),
    "C13": _c("_formula_to_format proved modularly over the C01 contracts for every charge and hydrate multiplier in all three formats (prefix images, subscripts, infix, multiplier iff != 1, charge token magnitude-then-sign with 1 omitted, suffix verbatim); tables as data obligations against Unicode code points; Species phase index; printers use the format names. Global invertibility over generated formulas: bounded stand-in.",
              "stoichiometry texts concrete per harness."),
    "C15": _c("upper_conc_bounds (totals, least ratio, charge skipped, dominance over every non-negative state with the same totals), identify_equilibria, participation/effect, categorize_substances, subset/+/+=/==, conversions, constructor checks proved for all coefficients/compositions at fixed key layouts; split() and key-structure generality by the EXHAUSTIVE bounded enumeration of all systems of <=4 reactions over <=5 substances in every order.",
              "split() itself is decided only by the exhaustive bounded stand-in."),
    "C20": _c("Power-of-ten renderers proved on symbolic exponent strings and exhaustively for all exponents -330..330; _number_to_X plumbing (split once at 'e', unit after separator, uncertainty routed to _float_str_w_uncert with converted magnitudes); roman() verified on its whole domain 1..3999; reaction parameter rendering. %g and _float_str_w_uncert numerics: assumed (5.7) + bounded stand-in.",
              "'%.Ng' is an assumed contract (C99 grammar, at most one 'e')."),
})

ADDENDA = {
    "C01": "Added after review/seeding: stripping and the three refusal reasons of _formula_to_parts as obligations, argument forwarding of every helper, the middle-dot hydrate branch, hand-written examples through the real grammar, no state between parses, subscripts of any length (F-C01b fixed). Round 4: custom phase suffixes together with an explicit phase index.",
    "C02": "Data obligations on the real solvers: 11- and 12-species reactions in the ILP mode, four/eight-decimal and large-denominator compositions, no state between calls, and positivity-feasibility of default-mode answers (known finding F-C02c: two fixed inputs). Round 4: bystander species in `substances` (F-C02d fixed), minimal coefficient sum with a non-terminating fraction against brute force (F-C02e fixed), seven-decimal compositions.",
    "C03": "Added: permuted substance order, MassAction-wrapped constants with `variables`, a system without reactions (F-C03b fixed), array-valued and unit-carrying concentrations (inputs not modified, no shared result objects). Round 3: fractional coefficients (Fraction/float) through the five stoichiometry matrices and dCdt_list (data). Round 4: a feed map wider than the requested substance keys (complete entries or refusal).",
    "C04": "Added: names are the substance KEYS (F-C04a fixed), _create_odesys interpreted with the caller's symbols (plain-dict order), constants namespace vs substitutions, active (expression) substitutions, unit registry with named + numeric constants and a second-order step, rebuild after re-assigning a constant; invariants re-derived from the property (none with a feed: F-C05a fixed). Round 3: _create_odesys names by key, nested unique keys registered as parameters. Round 4: a constant named like a substance or like the time variable is refused by both builders (F-C04c fixed); unique keys of nested expressions behind plain-number arguments.",
    "C05": "Added: the reported vectors against the REAL right-hand side of get_odesys for formula-defined ions; Lean lemma invariant_of_balanced for any numbers of reactions/substances (checked on every run); vectors follow the current substance order; data obligations pin two known findings (F-C05b circular elimination, F-C05c float-exact refusal of a reaction balanced in the decimals as written). Round 3: keys that differ from Substance.name in composition_violation/check messages; a feed given as a (rate, concentrations) pair reports no invariants. Round 4: exact Fraction/Decimal compositions; the alternative builder reports no invariants with a feed (F-C05e fixed).",
    "C06": "Added: the step is as large as safety allows, bounds/rhs are those of the given state (also on a second call), unit-registry input/output callbacks of get_odesys under generic units (same physical value in the requested units), fixed texts to right-hand side. Round 3: a reversible step with inactive participants split by Equilibrium.as_reactions, from text to right-hand side. Round 4: Euler step with ScaledSys (dep_scaling) on the real pyodesys classes; a network with a missing rate constant is refused.",
    "C07": "Added: all 12 row-reduction configurations through the sympy path at exact equilibrium states (independent system: pass; linearly dependent equilibria with rref_equil=True: known finding F-C07a), square batches, constants of the current call. Round 4: composition_conservation returns B c and B c0 unrounded (trace-level violations stay visible).",
    "C08": "Added: _get_rc_interval / equilibrium_residual of the single-equilibrium solver (bracket contains 0, every coordinate inside keeps concentrations non-negative, ends tight; F-C08c fixed), switch condition follows a changed constant, species without elemental bound, nan (F-C08d fixed). Round 3: the row-reduced equilibrium equations (rref_equil=True) are the same equations as the plain ones for every pattern of absent solids (exact row-space equality with sympy, data). Round 4: the absent-solid equation for a solid on the product side (F-C08e fixed); integer-typed inputs of solve_equilibrium.",
    "C09": "Added: scaled dimensionless targets for plain numbers/lists/arrays (F-C09c fixed), rescale (F-C09d fixed), real-package helpers incl. polyfit keywords (F-C09e fixed), Backend with several arguments, registries edited in place; the assumed contract for `quantities` is now validated differentially (1400 seeded random expressions) after it was found to deviate from the package on comparisons with bare numbers. Round 3: bare unit objects and object arrays of quantities through Backend, registry human-readable round trip exact for 17-digit factors. Round 4: allclose and logspace_from_lin under contract for arbitrary compatible units (unbounded); containers of different length are never close.",
    "C10": "Added: argument dimensions derived from the formulas for every order (F-C10c fixed), end-to-end parameter units and physical rates on the real package in three registries, registry edited in place; known finding F-C10d (wrong-dimension constants wrapped in rate expressions / substitutions are not checked). Round 3: wrongly dimensioned values handed in at run time are refused and compatible ones converted; the default standard concentration of a key-only Eyring expression is expressed in the registry unit (rates by hand, three registries, orders 1-3). Round 4: registries whose base units carry a numerical factor.",
    "C11": "Added: Lean lemmas nu_eq_combination / const_eq_product_of_powers (induction over histories, checked on every run), composed expressions on the real objects incl. a species on both sides of an operand, a non-trivial cancel layout, eliminate for all pairs in [-12,12]^2 in the contract. Round 4: combinations with empty net stoichiometry are refused; inactive parts scale and change sides with the reaction.",
    "C12": "Added: unknown keys refused for every form of the allowed keys (F-C12c fixed); known finding F-C12b (named reactions/systems do not survive print -> parse). Round 3: a system text is written with the species keys and reads back against the key list; coefficients below one are printed. Round 4: keys containing the arrow token and lines with several arrows (F-C12d fixed); keys beginning with `*`; the two switches of ReactionSystem.string.",
    "C13": "Added: nothing remembered between constructions, arguments (phases) not modified. Round 3: coefficient 1 omitted and every other coefficient (2, 12, 0.5, 1.5, 1/3) written, three formats, reactions and equilibria.",
    "C14": "Added: no state between masses (shared data dict, the caller's composition mapping: F-C14a fixed, a caller editing a freshly parsed composition). Round 4: mass_fractions honours the coefficients of every kind of mapping.",
    "C15": "Added: fractional coefficients in categorize_substances (data). Round 4: wrong-sized per-substance containers are refused whatever their type.",
    "C16": "Added: Radiolytic field order as given, values given as arrays/quantities are not modified. Round 4: named overrides through ArrheniusParamWithUnits.as_RateExpr.",
    "C17": "Added: numpy time axes are not modified, same curve on a second evaluation, start value with t0. Round 3: numpy and math backends agree with the 50-digit sympy value from t = 1e-9 to k*t = 1e7 (F-C17d fixed: binary_irrev_cstr overflowed for fv*t > 709).",
    "C20": "Round 3: a reaction parameter that is a real quantity, also in a scaled pure-number unit (percent, mM/M, g/kg), is printed with magnitude and unit in all four formats (data).",
    "C19": "Added: water_density reference temperature T0 (value and warning depend on T - T0); the permittivity silence clause restated from the property. Round 3: nernst_potential with a constants object, alone and together with a units object; HenryWithUnits incl. its inverse helper. Round 4: salting-out sum (Schumpe) for any concentrations/units, density_from_concentration returns a fixed point of ANY forward correlation within atol (loop invariant, uninterpreted callback), Nernst for arrays and sympy symbols.",
}
for _k, _v in ADDENDA.items():
    CLAIMS[_k]["text"] = CLAIMS[_k]["text"] + " " + _v

SECOND_REVIEW = ("Second review (audit/second): expected values re-derived by hand where they had been transcribed, exception types / object identity / literal texts / "
                 "dict order no longer demanded where the property speaks of refusal, values and denotation; further obligations listed in audit/second/cleanup/%s.md.")
for _k in CLAIMS:
    CLAIMS[_k]["text"] = CLAIMS[_k]["text"] + " " + (SECOND_REVIEW % _k)

ROUND5 = "Round 5 of independently produced changes: obligations added per property are listed in audit/round5_strengthening/%s.md."
import os as _os
for _k in CLAIMS:
    if _os.path.exists(_os.path.join(_os.path.dirname(_os.path.dirname(_os.path.abspath(__file__))), "audit", "round5_strengthening", _k + ".md")):
        CLAIMS[_k]["text"] = CLAIMS[_k]["text"] + " " + (ROUND5 % _k)

ROUND6 = ("False-alarm round (audit/benign/%s.md): behaviour-preserving edits of chempy written by an independent tester stay quiet (mutants/benign/%s_*.diff, "
          "tools/selftest_benign_diffs.sh; known exit-2 answers in mutants/benign/EXPECTED.tsv); proof aids (loop invariants, helper contracts, stand-ins) are bound by role / shape, "
          "not by the spelling of the code.")
for _k in CLAIMS:
    CLAIMS[_k]["text"] = CLAIMS[_k]["text"] + " " + (ROUND6 % (_k, _k))

_PENDING = "contracts for this property are not built yet in this round (work in progress; see DESIGN.md section 7 for the plan)"
NOT_APPLICABLE = {p: _PENDING for p in ["C%02d" % i for i in range(1, 21)] if p not in CLAIMS}

NOTES = ("All checks are `./vcheck <ID>`; exit 0 held / 1 VIOLATION (counter-model replayed on the real code, or a baseline-discharged havoc-free obligation now failing whose model cannot be replayed: no-failing-input-found) / "
         "2 UNDECIDED (solver unknown, unsupported construct, stale contract, counter-model that replays fine on the real code) / 3 checker error. Obligations are tagged unbounded / shape-bounded / data in every evidence file.")
