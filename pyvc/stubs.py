"""Models of the builtins / library functions the functions under contract use (A9, 5.2, 5.3)."""
from __future__ import annotations

import builtins
import fractions
import math
import re
import warnings

import z3

from . import sym as S
from .sym import Sym, Unsupported, cur, to_z3, wrap, wrap_num, contains_sym, fresh_name, ufun
from .containers import SymSeq, SymDict, Unknown, wrap_num_or

NOT_HANDLED = object()


def _is_symnum(x):
    return isinstance(x, Sym) and x.kind in ("int", "real")


# ----------------------------------------------------------------------------------
# real functions (assumed contract 5.3): uninterpreted symbols + the facts instantiated on use
# ----------------------------------------------------------------------------------
def real_fun(name, orig=None, numpy_like=False):
    def f(interp, x, *rest, **kw):
        from .qmodel import Quantity
        if isinstance(x, Quantity):
            if numpy_like:
                if x.u:
                    raise ValueError("Unable to convert between units of %r and dimensionless" % (x.u,))
                x = x.mag
            else:
                x = x.raw_float()   # math.f(q) == f(float(q)): the raw magnitude
            if isinstance(x, Sym):
                return f(interp, x, *rest, **kw)
            return (orig or getattr(math, name))(x, *rest, **kw)
        if not isinstance(x, Sym):
            if isinstance(x, Unknown):
                return Unknown(name)
            from .qmodel import NPCall
            if numpy_like and isinstance(x, NPCall):
                return NPCall(name, (x,) + tuple(rest), kw)      # element-wise function of an uninterpreted array: uninterpreted
            if contains_sym(x):
                import numpy as _np
                if isinstance(x, (list, tuple)) or (isinstance(x, _np.ndarray) and x.ndim == 1):
                    return _np.array([f(interp, xi) for xi in x], dtype=object)
                raise Unsupported("%s of container" % name)
            return (orig or getattr(math, name))(x, *rest, **kw)
        if name == "log":
            return sym_log(x)
        if name == "sqrt":
            return sym_sqrt(x)
        ex = to_z3(x, "real")
        r = ufun(name)(ex)
        p = cur()
        if name == "exp":
            p.assume(r > 0)
        elif name == "sqrt":
            p.assume(z3.Implies(ex >= 0, z3.And(r >= 0, r * r == ex)))
        elif name == "log":
            p.assume(ufun("exp")(r) == ex) if False else None
        elif name == "tanh":
            p.assume(z3.And(r > -1, r < 1))
        return Sym(r)
    return f


def sym_exp(x):
    if not isinstance(x, Sym):
        return math.exp(x)
    r = ufun("exp")(to_z3(x, "real"))
    cur().assume(r > 0)
    return Sym(r)


def sym_log(x):
    if not isinstance(x, Sym):
        return math.log(x)
    ex = to_z3(x, "real")
    cur().domain_guard(ex > 0, "logarg")
    return Sym(ufun("log")(ex))


def sym_sqrt(x):
    if not isinstance(x, Sym):
        return math.sqrt(x)
    ex = to_z3(x, "real")
    r = ufun("sqrt")(ex)
    cur().domain_guard(ex >= 0, "radicand")
    cur().assume(z3.And(r >= 0, r * r == ex))
    return Sym(r)


class SymBackend:
    """namespace standing for math / numpy / sympy in the closed-form functions (5.3)"""
    _pyvc_symbolic = False

    def __init__(self, names=("exp", "log", "sqrt", "tanh", "cos", "sin", "log10", "atanh", "arctanh", "log2", "exp2")):
        self._names = set(names)
        self.pi = Sym(z3.Real("pi"))

    def __getattr__(self, name):
        if name.startswith("_"):
            raise AttributeError(name)
        if name not in self._names:
            raise AttributeError("backend has no attribute %r" % name)
        if name == "cos":
            def cos(x):
                if not isinstance(x, Sym) and x == 0:
                    return 1
                return Sym(ufun("cos")(to_z3(x, "real")))
            return cos
        if name == "exp":
            return sym_exp
        if name == "sqrt":
            return sym_sqrt
        if name == "log":
            return sym_log
        canonical = {"arctanh": "atanh"}.get(name, name)

        def f(x, _n=canonical):
            if isinstance(x, Unknown):
                return x
            r = ufun(_n)(to_z3(x, "real"))
            if _n == "tanh":
                cur().assume(z3.And(r > -1, r < 1))
            return Sym(r)
        return f


# ----------------------------------------------------------------------------------
# builtins
# ----------------------------------------------------------------------------------
def b_len(interp, x):
    if isinstance(x, Sym):
        if x.kind == "str":
            return wrap_num(z3.Length(x.e))
        raise TypeError("object of type 'number' has no len()")
    if isinstance(x, (SymSeq, SymDict)):
        return x.sym_len()
    if isinstance(x, Unknown):
        return Unknown("len")
    if hasattr(x, "sym_len") and not isinstance(x, (list, tuple, dict, str)):
        return x.sym_len()
    return len(x)


def _kind_matches(v, t):
    """isinstance for symbolic scalars by declared kind"""
    import numbers
    ts = t if isinstance(t, tuple) else (t,)
    k = v.kind
    for c in ts:
        if c is object:
            return True
        if k == "int" and c in (int, numbers.Integral, numbers.Number, numbers.Real, numbers.Rational, numbers.Complex):
            return True
        if k == "real" and c in (float, numbers.Number, numbers.Real, numbers.Complex):
            return True
        if k == "bool" and c in (bool, int):
            return True
        if k == "str" and c is str:
            return True
    return False


def b_isinstance(interp, v, t):
    import collections.abc as abc
    if isinstance(v, Sym):
        return _kind_matches(v, t)
    if isinstance(v, SymDict):
        ts = t if isinstance(t, tuple) else (t,)
        return any(c in (dict, abc.Mapping, abc.MutableMapping, object, abc.Iterable, abc.Container, abc.Sized, abc.Collection) for c in ts)
    if isinstance(v, SymSeq):
        ts = t if isinstance(t, tuple) else (t,)
        return any(c in (list, tuple, abc.Sequence, object, abc.Iterable, abc.Container, abc.Sized, abc.Collection) for c in ts)
    if isinstance(v, Unknown):
        return bool(Unknown("isinstance"))
    return isinstance(v, t)


def b_float(interp, x=0.0):
    from .qmodel import Quantity
    if isinstance(x, Quantity):
        return b_float(interp, x.raw_float())
    if isinstance(x, Sym):
        if x.kind == "int":
            return Sym(z3.ToReal(x.e))
        if x.kind == "real":
            return x
        if x.kind == "str":
            return Sym(z3.Function("str2real", z3.StringSort(), z3.RealSort())(x.e))
        raise Unsupported("float(%s)" % x.kind)
    if isinstance(x, Unknown):
        return Unknown("float")
    if type(x).__module__ == "numpy" and type(x).__name__ == "ndarray" and x.dtype == object and x.size == 1:
        return b_float(interp, x.ravel()[0])      # float(array(obj)) is float(obj)
    f = getattr(type(x), "__float__", None)
    import types
    if isinstance(f, types.FunctionType) and interp.is_repo_function(f) and contains_sym(x):
        return interp.call_function(f, (x,), {})
    return float(x)


def b_int(interp, x=0, base=10):
    if isinstance(x, Sym):
        if x.kind == "int":
            return x
        if x.kind == "real":
            e = x.e
            return wrap_num(z3.If(e >= 0, z3.ToInt(e), -z3.ToInt(-e)))
        if x.kind == "bool":
            return wrap_num(z3.If(x.e, z3.IntVal(1), z3.IntVal(0)))
        if x.kind == "str":
            # int() of a digit string (optionally signed); anything else raises ValueError
            s = x.e
            neg = z3.PrefixOf(z3.StringVal("-"), s)
            pos = z3.PrefixOf(z3.StringVal("+"), s)
            body = z3.If(z3.Or(neg, pos), z3.SubString(s, 1, z3.Length(s) - 1), s)
            digits = z3.InRe(body, z3.Plus(z3.Range("0", "9")))
            cur().oblige_or_raise(digits, ValueError, "invalid literal for int()")
            v = z3.StrToInt(body)
            return wrap_num(z3.If(neg, -v, v))
    if isinstance(x, Unknown):
        return Unknown("int")
    return int(x) if base == 10 else int(x, base)


def b_str(interp, x=""):
    if isinstance(x, Sym):
        if x.kind == "str":
            return x
        if x.kind == "int":
            e = x.e
            return Sym(z3.If(e >= 0, z3.IntToStr(e), z3.Concat(z3.StringVal("-"), z3.IntToStr(-e))))
        return Sym(z3.Function("real2str", z3.RealSort(), z3.StringSort())(to_z3(x, "real")))
    if contains_sym(x):
        return "<str of symbolic %s>" % type(x).__name__
    return str(x)


def b_abs(interp, x):
    return abs(x)


def _minmax(interp, args, kwargs, is_min):
    if len(args) == 1:
        it = args[0]
        if isinstance(it, SymSeq) and not it.concrete_len():
            raise Unsupported("min/max over sequence of symbolic length")
        vals = list(it)
    else:
        vals = list(args)
    key = kwargs.get("key")
    if not vals:
        if "default" in kwargs:
            return kwargs["default"]
        raise ValueError("min() arg is an empty sequence")
    if key is not None or not any(isinstance(v, Sym) for v in vals):
        if contains_sym(vals) or key is not None and contains_sym([key(v) for v in vals]):
            best = vals[0]
            bk = interp.call(key, (best,)) if key else best
            for v in vals[1:]:
                vk = interp.call(key, (v,)) if key else v
                c = (vk < bk) if is_min else (vk > bk)
                if interp.truth(c):
                    best, bk = v, vk
            return best
        return (min if is_min else max)(vals, **({"key": key} if key else {}))
    best = vals[0]
    for v in vals[1:]:
        if isinstance(best, float) and math.isinf(best) or isinstance(v, float) and math.isinf(v):
            # extended reals: inf never wins a min / always wins a max
            fin, inf = (v, best) if isinstance(best, float) and math.isinf(best) else (best, v)
            if (inf > 0) == is_min:
                best = fin
            else:
                best = inf
            continue
        c = (v < best) if is_min else (v > best)
        best = S.ite(c, v, best)
    return best


def b_min(interp, *args, **kwargs):
    return _minmax(interp, args, kwargs, True)


def b_max(interp, *args, **kwargs):
    return _minmax(interp, args, kwargs, False)


def b_sum(interp, it, start=0):
    if isinstance(it, SymSeq) and not it.concrete_len():
        from .spec import ssum
        r = ssum(it)
        return r if (isinstance(start, int) and start == 0) else start + r
    tot = start
    for v in it:
        tot = tot + v
    return tot


def b_any(interp, it):
    if isinstance(it, SymSeq) and not it.concrete_len():
        j = z3.Int(fresh_name("j"))
        with cur().bound(z3.And(j >= 0, j < to_z3(it.sym_len()))):
            el = it.at(Sym(j))
            b = interp.bool_value(el)
        return wrap(z3.Exists([j], z3.And(j >= 0, j < to_z3(it.sym_len()), to_z3(b))))
    for v in it:
        if interp.truth(v):
            return True
    return False


def b_all(interp, it):
    if isinstance(it, SymSeq) and not it.concrete_len():
        j = z3.Int(fresh_name("j"))
        with cur().bound(z3.And(j >= 0, j < to_z3(it.sym_len()))):
            el = it.at(Sym(j))
            b = interp.bool_value(el)
        return wrap(z3.ForAll([j], z3.Implies(z3.And(j >= 0, j < to_z3(it.sym_len())), to_z3(b))))
    for v in it:
        if not interp.truth(v):
            return False
    return True


def b_range(interp, *args):
    if any(isinstance(a, Sym) for a in args):
        if len(args) == 1:
            n = args[0]
            ln = S.ite(n >= 0, n, 0)
            return SymSeq(ln, lambda i: i, "range")
        if len(args) == 2:
            lo, hi = args
            ln = S.ite(hi - lo >= 0, hi - lo, 0)
            return SymSeq(ln, lambda i: lo + i, "range")
        raise Unsupported("range with symbolic step")
    return range(*args)


class EngineIter(list):
    """what the engine hands out where CPython hands out an iterator (zip, map, enumerate, filter, reversed, generators): a materialised list (the
    engine itself walks through values to look for symbols, so iteration must not consume it) from which next() takes the first element, so that
    `first = next(it)` followed by a loop over the rest behaves as it does on an iterator.  Not modelled: an iterator iterated a second time is
    empty in CPython and is not here."""

    def __next__(self):
        if not len(self):
            raise StopIteration
        return list.pop(self, 0)

    def __reversed__(self):
        raise TypeError("'%s' object is not reversible" % "iterator")


def _bounded(it):
    """iterators without an end (itertools.count / cycle, repeat without times) may be zipped with something finite but must never be materialised"""
    import itertools
    if isinstance(it, (itertools.count, itertools.cycle)):
        return False
    if isinstance(it, itertools.repeat):
        try:
            it.__length_hint__()          # repeat(x, times) knows its length, repeat(x) raises TypeError
            return True
        except TypeError:
            return False
    return True


def b_zip(interp, *its, strict=False):
    if any(isinstance(x, SymSeq) and not x.concrete_len() for x in its):
        seqs = [to_seq(x) for x in its]
        ln = seqs[0].sym_len()
        for s in seqs[1:]:
            l2 = s.sym_len()
            ln = S.ite(l2 < ln, l2, ln)
        return SymSeq(ln, lambda i: tuple(s.at(i) for s in seqs), "zip")
    if not any(_bounded(x) for x in its) and its:
        raise Unsupported("zip of iterators none of which ends")
    return EngineIter(zip(*[x if not _bounded(x) else list(x) for x in its]))      # an endless iterator is consumed lazily, as far as the finite ones reach


def to_seq(x):
    if isinstance(x, SymSeq):
        return x
    if isinstance(x, SymDict):
        return x.keys()
    if isinstance(x, (list, tuple)):
        return SymSeq(len(x), lambda i, _x=x: _x[i] if isinstance(i, int) else _select_concrete(_x, i), "list")
    raise Unsupported("sequence view of %s" % type(x).__name__)


def _select_concrete(x, i):
    r = x[-1]
    for j in range(len(x) - 2, -1, -1):
        r = S.ite(i == j, x[j], r)
    return r


def b_enumerate(interp, it, start=0):
    if isinstance(it, SymDict):
        it = it.keys()
    if isinstance(it, SymSeq) and not it.concrete_len():
        return SymSeq(it.sym_len(), lambda i: (i + start, it.at(i)), "enumerate")
    if not _bounded(it):
        raise Unsupported("enumerate of an iterator that does not end")
    return EngineIter(enumerate(list(it), start))


def b_list(interp, it=()):
    if isinstance(it, SymDict):
        return it.keys()
    if isinstance(it, SymSeq):
        if it.concrete_len():
            return [it.at(i) for i in range(it.sym_len())]
        return SymSeq(it.length, it.at, it.name)
    if isinstance(it, Unknown):
        return Unknown("list")
    return list(it)


def b_tuple(interp, it=()):
    if isinstance(it, SymDict):
        return it.keys()
    if isinstance(it, SymSeq):
        if it.concrete_len():
            return tuple(it.at(i) for i in range(it.sym_len()))
        return SymSeq(it.length, it.at, it.name)
    if isinstance(it, Unknown):
        return Unknown("tuple")
    return tuple(it)


def b_dict(interp, *args, **kwargs):
    if args and isinstance(args[0], SymDict):
        d = args[0].copy()
        for k, v in kwargs.items():
            d[k] = v
        return d
    return dict(*args, **kwargs)


def b_sorted(interp, it, key=None, reverse=False):
    if isinstance(it, (SymSeq, SymDict)) and not (isinstance(it, SymSeq) and it.concrete_len()):
        raise Unsupported("sorted() of a collection of symbolic size")
    vals = list(it)
    if key is None and not contains_sym(vals):
        return sorted(vals, reverse=reverse)
    keys = [interp.call(key, (v,)) if key is not None else v for v in vals]
    if not contains_sym(keys):
        order = sorted(range(len(vals)), key=lambda i: keys[i], reverse=reverse)
        return [vals[i] for i in order]
    # insertion sort with forking comparisons (small concrete lengths only)
    idx = []
    for i in range(len(vals)):
        pos = len(idx)
        for j, jj in enumerate(idx):
            c = keys[i] < keys[jj] if not reverse else keys[i] > keys[jj]
            if interp.truth(c):
                pos = j
                break
        idx.insert(pos, i)
    return [vals[i] for i in idx]


def b_reversed(interp, it):
    if isinstance(it, SymSeq) and not it.concrete_len():
        n = it.sym_len()
        return SymSeq(n, lambda i: it.at(n - 1 - i), "reversed")
    return EngineIter(reversed(list(it)))


def b_map(interp, f, *its):
    if len(its) == 1 and isinstance(its[0], SymSeq) and not its[0].concrete_len():
        return its[0].map(lambda v: interp.call(f, (v,)))
    if not any(_bounded(x) for x in its) and its:
        raise Unsupported("map over iterators none of which ends")
    return EngineIter([interp.call(f, tuple(vs)) for vs in zip(*[x if not _bounded(x) else list(x) for x in its])])


def b_filter(interp, f, it):
    out = []
    for v in it:
        t = interp.call(f, (v,)) if f is not None else v
        if interp.truth(t):
            out.append(v)
    return EngineIter(out)


def b_getattr(interp, obj, name, *default):
    try:
        return interp.getattr_(obj, name)
    except AttributeError:
        if default:
            return default[0]
        raise


def b_hasattr(interp, obj, name):
    if isinstance(obj, Sym):
        return hasattr(0.0 if obj.kind == "real" else 0 if obj.kind == "int" else "" if obj.kind == "str" else True, name)
    if isinstance(obj, Unknown):
        return bool(Unknown("hasattr"))
    if isinstance(obj, (SymSeq,)):
        return hasattr([], name)
    if isinstance(obj, SymDict):
        return hasattr({}, name)
    try:
        interp.getattr_(obj, name)
        return True
    except AttributeError:
        return False


def b_type(interp, x, *rest):
    if rest:
        return type(x, *rest)
    if isinstance(x, Sym):
        return {"int": int, "real": float, "bool": bool, "str": str}[x.kind]
    if isinstance(x, SymDict):
        return dict
    if isinstance(x, SymSeq):
        return list
    return type(x)


def b_bool(interp, x=False):
    t = interp.bool_value(x)
    return t


def b_round(interp, x, nd=None):
    if isinstance(x, Sym):
        raise Unsupported("round() of symbolic value")
    return round(x, nd) if nd is not None else round(x)


def b_warn(interp, message, category=None, stacklevel=1, source=None):
    cur().event("warning", str(message) if not contains_sym(message) else "<symbolic message>")
    return None


def b_repr(interp, x):
    if isinstance(x, Sym):
        if x.kind == "int":
            return b_str(interp, x)          # repr of an int is its str
        raise Unsupported("repr() of a symbolic %s" % x.kind)
    return repr(x)


def b_next(interp, it, *default):
    return next(it, *default)


def b_iter(interp, it, *sentinel):
    if isinstance(it, EngineIter) and not sentinel:
        return it          # iter(iterator) is the iterator
    return iter(it, *sentinel)


def f_reduce(interp, f, it, *init):
    """functools.reduce with + or * over a sequence of symbolic length is the fold sum / product (as for sum()); otherwise the native left fold"""
    import operator
    if isinstance(it, SymDict):
        it = it.keys()
    if isinstance(it, SymSeq) and not it.concrete_len():
        if f not in (operator.mul, operator.add):
            raise Unsupported("functools.reduce with %r over a sequence of symbolic length" % (f,))
        from .spec import ssum, sprod
        if not init and interp.truth(it.sym_len() == 0):
            raise TypeError("reduce() of empty iterable with no initial value")
        r = sprod(it) if f is operator.mul else ssum(it)
        if init and not (isinstance(init[0], int) and init[0] == (1 if f is operator.mul else 0)):
            return f(init[0], r)
        return r
    items = list(it)
    if init:
        acc = init[0]
    elif items:
        acc = items.pop(0)
    else:
        raise TypeError("reduce() of empty iterable with no initial value")
    for x in items:
        acc = interp.call(f, (acc, x), {})
    return acc


def b_callable(interp, x):
    from .interp import Closure
    if isinstance(x, (Sym, SymSeq, SymDict)):
        return False
    return callable(x)


def b_divmod(interp, a, b):
    return (a // b, a % b)


def b_pow(interp, a, b, *m):
    if m:
        return pow(a, b, *m)
    if isinstance(a, Sym) or isinstance(b, Sym):
        return S.sym_pow(a, b)
    return pow(a, b)


def b_id(interp, x):
    return id(x)


def b_isnan(interp, x):
    if isinstance(x, Sym):
        return False
    return math.isnan(x)


def format_percent(interp, fmt, args):
    """`fmt % args` with symbolic arguments: only used for messages; opaque text"""
    if not isinstance(args, tuple):
        args = (args,)
    # %d / %s of symbolic ints and strings keep their meaning
    specs = re.findall(r"%(?:\((\w+)\))?([-+ #0]*\d*(?:\.\d+)?)([sdrfgeE%])", fmt)
    simple = all(flags == "" and conv in "sd%" and name == "" for name, flags, conv in specs)
    if simple and isinstance(args, tuple):
        parts = re.split(r"%[sd%]", fmt)
        convs = re.findall(r"%([sd%])", fmt)
        out = z3.StringVal(parts[0])
        ai = 0
        ok = True
        for c, lit in zip(convs, parts[1:]):
            if c == "%":
                out = z3.Concat(out, z3.StringVal("%" + lit))
                continue
            if ai >= len(args):
                ok = False
                break
            a = args[ai]
            ai += 1
            sa = b_str(interp, a)
            if isinstance(sa, str):
                sa = z3.StringVal(sa)
            else:
                sa = sa.e
            out = z3.Concat(out, sa, z3.StringVal(lit))
        if ok:
            return wrap(z3.simplify(out))
    m = re.fullmatch(r"%\.(\d+)([gf])", fmt)
    if m and len(args) == 1 and isinstance(args[0], Sym) and args[0].kind in ("int", "real"):
        # assumed contract 5.7: C99 formatting is a function of (precision, conversion, value)
        F = z3.Function("fmt_%s" % m.group(2), z3.IntSort(), z3.RealSort(), z3.StringSort())
        r = F(z3.IntVal(int(m.group(1))), to_z3(args[0], "real"))
        dig = z3.Plus(z3.Range("0", "9"))
        lit = lambda t: z3.Re(z3.StringVal(t))
        gram = z3.Concat(z3.Option(lit("-")), dig, z3.Option(z3.Concat(lit("."), dig)))
        if m.group(2) == "g":
            gram = z3.Concat(gram, z3.Option(z3.Concat(lit("e"), z3.Union(lit("+"), lit("-")), z3.Range("0", "9"), dig)))
        cur().assume(z3.InRe(r, gram))   # 5.7: the C99 output grammar of %g / %f for finite values
        ie = z3.IndexOf(r, z3.StringVal("e"), 0)
        cur().assume(z3.Implies(ie >= 0, z3.Not(z3.Contains(z3.SubString(r, ie + 1, z3.Length(r)), z3.StringVal("e")))))  # at most one 'e'
        return Sym(r)
    return OpaqueStr("<formatted %r>" % fmt)


def format_braces(interp, fmt, args, kwargs):
    """str.format with plain '{}' fields (and the escapes '{{', '}}') only"""
    if kwargs:
        return OpaqueStr("<formatted %r>" % fmt)
    lits, cur_lit, i = [], "", 0
    while i < len(fmt):                       # the format mini-language, left to right: '{{' and '}}' are literal braces, '{}' is a field
        c2 = fmt[i:i + 2]
        if c2 == "{{" or c2 == "}}":
            cur_lit += c2[0]
            i += 2
        elif c2 == "{}":
            lits.append(cur_lit)
            cur_lit = ""
            i += 2
        elif fmt[i] in "{}":
            return OpaqueStr("<formatted %r>" % fmt)     # named / numbered / formatted fields: not modelled
        else:
            cur_lit += fmt[i]
            i += 1
    lits.append(cur_lit)
    if len(lits) - 1 != len(args):
        return OpaqueStr("<formatted %r>" % fmt)
    parts = [z3.StringVal(lits[0])]
    for a, lit in zip(args, lits[1:]):
        sa = b_str(interp, a)
        parts.append(z3.StringVal(sa) if isinstance(sa, str) else sa.e)
        parts.append(z3.StringVal(lit))
    return wrap(z3.simplify(z3.Concat(*parts))) if len(parts) > 1 else wrap(parts[0])


class OpaqueStr(str):
    """text whose content is not modelled (messages).  It may be passed around and raised; COMPARING it with another text would be a verdict about
    content the engine does not have: outside the accepted subset."""

    def __eq__(self, other):
        if other is self:
            return True
        raise Unsupported("comparison of a text whose content is not modelled (%s)" % str.__str__(self)[:60])

    def __ne__(self, other):
        return not self.__eq__(other)

    __hash__ = str.__hash__

    def __add__(self, other):
        return OpaqueStr(str.__add__(self, other))

    def __radd__(self, other):
        return OpaqueStr(str.__add__(other, self))


# ----------------------------------------------------------------------------------
# methods of builtin objects called with symbolic arguments
# ----------------------------------------------------------------------------------
def builtin_method(interp, slf, name, args, kwargs):
    if slf is None or isinstance(slf, type(math)):
        return NOT_HANDLED
    import re as _re
    if isinstance(slf, _re.Pattern) and (contains_sym(args) or contains_sym(kwargs)):
        # a compiled pattern's method is the module function with the pattern in front: same model, same limits
        f = getattr(_re, name, None)
        stub = interp.stubs.get(id(f)) if f is not None else None
        if stub is None:
            raise Unsupported("re.Pattern.%s on a symbolic string" % name)
        return stub(interp, slf.pattern, *args, **kwargs)
    if isinstance(slf, dict):
        if name == "get" and args and isinstance(args[0], Sym):
            key = args[0]
            default = args[1] if len(args) > 1 else kwargs.get("default")
            items = list(slf.items())
            scalar = all(isinstance(v, (int, float, fractions.Fraction, Sym)) and not isinstance(v, bool) for _, v in items) and \
                (default is None or isinstance(default, (int, float, fractions.Fraction, Sym)))
            if scalar and default is not None:
                r = default
                for k, v in reversed(items):
                    c = (k == key)
                    if c is False or c is NotImplemented:
                        continue
                    r = S.ite(c, v, r)
                return r
            for k, v in items:
                c = (k == key)
                if c is False or c is NotImplemented:
                    continue
                if interp.truth(c):
                    return v
            return default
        if name in ("__contains__",) and args and isinstance(args[0], Sym):
            return interp.contains(slf, args[0])
        if name == "pop" and args and isinstance(args[0], Sym):
            for k in list(slf):
                if interp.truth(k == args[0]):
                    return slf.pop(k)
            if len(args) > 1:
                return args[1]
            raise KeyError(args[0])
        if name == "setdefault" and args and isinstance(args[0], Sym):
            raise Unsupported("dict.setdefault with symbolic key")
        if name == "update" and args and isinstance(args[0], SymDict):
            raise Unsupported("dict.update with symbolic dict")
        return NOT_HANDLED
    if isinstance(slf, (list, tuple)):
        if name == "index" and args and (isinstance(args[0], Sym) or any(isinstance(v, Sym) for v in slf)):
            for j, v in enumerate(slf):
                if interp.truth(v == args[0]):
                    return j
            raise ValueError("value is not in list")
        if name == "count" and args and (isinstance(args[0], Sym) or any(isinstance(v, Sym) for v in slf)):
            tot = 0
            for v in slf:
                tot = tot + S.ite(v == args[0], 1, 0)
            return tot
        return NOT_HANDLED
    if isinstance(slf, str):
        if name == "join" and args and not isinstance(args[0], (list, tuple, str, SymSeq, SymDict, dict, set, frozenset)):
            args = (list(args[0]),) + tuple(args[1:])      # an iterator (chain, map, generator): its items are looked at below
            if not contains_sym(args[0]):
                return slf.join(args[0])                   # (the iterator is used up: the native call must get the list)
        if any(isinstance(a, Sym) for a in args) or (name == "join" and args and contains_sym(args[0])):
            s = Sym(z3.StringVal(slf))
            if name == "join":
                it = args[0]
                if isinstance(it, SymSeq) and not it.concrete_len():
                    raise Unsupported("str.join over sequence of symbolic length")
                vals = list(it)
                if not vals:
                    return ""
                parts = []
                for i, v in enumerate(vals):
                    if i:
                        parts.append(z3.StringVal(slf))
                    parts.append(to_z3(v))
                parts = [p for p in parts]
                return wrap(z3.simplify(z3.Concat(*parts))) if len(parts) > 1 else wrap(parts[0])
            if name in ("startswith", "endswith", "find"):
                return getattr(s, name)(*args)
            if name == "format":
                return format_braces(interp, slf, args, kwargs)
            if name == "__mod__":
                return format_percent(interp, slf, args[0])
            raise Unsupported("str.%s with symbolic argument" % name)
        if name == "format" and (contains_sym(args) or contains_sym(kwargs)):
            return format_braces(interp, slf, args, kwargs)
        return NOT_HANDLED
    return NOT_HANDLED


def install(interp):
    r = interp.register_stub
    r(len, b_len)
    r(isinstance, b_isinstance)
    r(float, b_float)
    r(int, b_int)
    r(str, b_str)
    r(min, b_min)
    r(max, b_max)
    r(sum, b_sum)
    r(any, b_any)
    r(all, b_all)
    r(range, b_range)
    r(zip, b_zip)
    r(enumerate, b_enumerate)
    r(list, b_list)
    r(tuple, b_tuple)
    r(dict, b_dict)
    r(sorted, b_sorted)
    r(reversed, b_reversed)
    r(map, b_map)
    r(filter, b_filter)
    r(next, b_next)
    r(repr, b_repr)
    r(iter, b_iter)
    import functools
    r(functools.reduce, f_reduce)
    r(getattr, b_getattr)
    r(hasattr, b_hasattr)
    r(type, b_type)
    r(bool, b_bool)
    r(round, b_round)
    r(callable, b_callable)
    r(divmod, b_divmod)
    r(pow, b_pow)
    r(warnings.warn, b_warn)
    r(math.isnan, b_isnan)
    for name in ("exp", "log", "sqrt", "tanh", "log10", "sin", "cos", "atanh", "log2"):
        r(getattr(math, name), real_fun(name, getattr(math, name)))
    try:
        import numpy as np

        def np_any(interp, a, *rest, **kw):
            if isinstance(a, Sym):
                return interp.bool_value(a)
            if contains_sym(a):
                return b_any(interp, (a.ravel().tolist() if isinstance(a, np.ndarray) else list(a)) if not isinstance(a, (SymSeq,)) else a)
            return np.any(a, *rest, **kw)

        def np_all(interp, a, *rest, **kw):
            if isinstance(a, Sym):
                return interp.bool_value(a)
            if contains_sym(a):
                return b_all(interp, (a.ravel().tolist() if isinstance(a, np.ndarray) else list(a)) if not isinstance(a, (SymSeq,)) else a)
            return np.all(a, *rest, **kw)
        r(np.any, np_any)
        r(np.all, np_all)

        def np_array(interp, a, *rest, **kw):
            from .qmodel import Quantity
            if isinstance(a, (Sym, Quantity)):
                return a            # a 0-d array of one scalar behaves like the scalar
            if isinstance(a, (list, tuple)) and not rest and "dtype" not in kw and contains_sym(a) and not any(isinstance(x, Quantity) for x in a):
                return np.array(a, dtype=object, **kw)     # numbers that are symbolic: an object array holds them unchanged
            return np.array(a, *rest, **kw)

        def np_asarray(interp, a, *rest, **kw):
            from .qmodel import Quantity
            if isinstance(a, (Sym, Quantity)):
                return a
            return np.asarray(a, *rest, **kw)
        r(np.array, np_array)
        r(np.asarray, np_asarray)

        def np_abs(interp, a, *rest, **kw):
            from .qmodel import Quantity
            if isinstance(a, (Sym, Quantity)):
                return abs(a)             # np.abs of a scalar / of a quantity is its __abs__
            if contains_sym(a):
                if isinstance(a, (list, tuple, np.ndarray)):
                    return np.array([np_abs(interp, x) for x in a], dtype=object)
                raise Unsupported("np.abs of %s" % type(a).__name__)
            return np.abs(a, *rest, **kw)

        def np_attr(name, native):
            def f(interp, a, *rest, **kw):
                # np.ndim(x) / np.shape(x) / np.size(x) read x.ndim / x.shape / x.size where x has them (the unit abstraction does)
                if contains_sym(a) and not isinstance(a, (list, tuple, np.ndarray)) and not rest and not kw:
                    if isinstance(a, Sym):
                        return {"ndim": 0, "shape": (), "size": 1}[name]
                    try:
                        return interp.getattr_(a, name)
                    except AttributeError:
                        raise Unsupported("np.%s of %s" % (name, type(a).__name__))
                return native(a, *rest, **kw)
            return f
        for _nm in ("ndim", "shape", "size"):
            r(getattr(np, _nm), np_attr(_nm, getattr(np, _nm)))
        r(np.abs, np_abs)
        r(np.absolute, np_abs)

        def np_isnan(interp, a, *rest, **kw):
            # symbolic reals are numbers (assumption A2: floats are treated as mathematical reals), concrete entries are tested natively
            if isinstance(a, Sym):
                return False
            if isinstance(a, np.ndarray) and contains_sym(a):
                flat = [False if isinstance(x, Sym) else bool(np.isnan(x)) for x in a.ravel().tolist()]
                return np.array(flat, dtype=bool).reshape(a.shape)
            return np.isnan(a, *rest, **kw)
        r(np.isnan, np_isnan)

        def np_isfinite(interp, a, *rest, **kw):
            # symbolic reals are finite numbers (A2); concrete entries are tested natively
            if isinstance(a, Sym):
                return True
            if isinstance(a, np.ndarray) and contains_sym(a):
                flat = [True if isinstance(x, Sym) else bool(np.isfinite(x)) for x in a.ravel().tolist()]
                return np.array(flat, dtype=bool).reshape(a.shape)
            return np.isfinite(a, *rest, **kw)
        r(np.isfinite, np_isfinite)

        def np_argwhere(interp, a, *rest, **kw):
            if isinstance(a, np.ndarray) and contains_sym(a):
                # which elements are true is decided per path (one fork per symbolic element)
                flat = [interp.bool_value(x) if isinstance(x, Sym) else bool(x) for x in a.ravel().tolist()]
                return np.argwhere(np.array(flat, dtype=bool).reshape(a.shape))
            return np.argwhere(a, *rest, **kw)
        r(np.argwhere, np_argwhere)

        def np_nonzero(interp, a, *rest, **kw):
            if isinstance(a, np.ndarray) and contains_sym(a):
                flat = [interp.bool_value(x != 0) if isinstance(x, Sym) else bool(x) for x in a.ravel().tolist()]
                return np.nonzero(np.array(flat, dtype=bool).reshape(a.shape))
            return np.nonzero(a, *rest, **kw)
        r(np.nonzero, np_nonzero)

        def np_flatnonzero(interp, a, *rest, **kw):
            if isinstance(a, np.ndarray) and contains_sym(a):
                return np_nonzero(interp, np.ravel(a))[0]
            return np.flatnonzero(a, *rest, **kw)
        r(np.flatnonzero, np_flatnonzero)

        def np_extremum(name, builtin_stub):
            def f(interp, a, *rest, **kw):
                if isinstance(a, np.ndarray) and contains_sym(a) and not rest and not kw:
                    return builtin_stub(interp, a.ravel().tolist())
                return getattr(np, name)(a, *rest, **kw)
            return f
        r(np.max, np_extremum("max", b_max))
        r(np.min, np_extremum("min", b_min))
        r(np.amax, np_extremum("max", b_max))
        r(np.amin, np_extremum("min", b_min))

        def np_opaque(name):
            def f(interp, *args, **kw):
                from .qmodel import NPCall
                if contains_sym(args) or contains_sym(kw):
                    return NPCall(name, args, kw)
                return getattr(np, name)(*args, **kw)
            return f
        for nm in ("linspace", "concatenate", "tile", "polyfit", "polyval", "log2", "exp2"):
            r(getattr(np, nm), np_opaque(nm))
        for name, canon in (("exp", "exp"), ("log", "log"), ("sqrt", "sqrt"), ("tanh", "tanh"), ("log10", "log10"),
                            ("sin", "sin"), ("cos", "cos"), ("arctanh", "atanh"), ("log2", "log2")):
            r(getattr(np, name), real_fun(canon, getattr(np, name), numpy_like=True))
    except ImportError:
        pass
