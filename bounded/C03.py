"""Bounded stand-in for C03: mass-action rate of each substance = net stoichiometry * k * prod(c**nu).

Seeded differential test of the REAL functions
    Reaction.rate / Reaction.order / Reaction.keys
    ReactionSystem.rates (plain, substance_keys=..., cstr_fr_fc=..., permuted reaction list)
    chempy.kinetics.ode.law_of_mass_action_rates + dCdt_list        (array forms)
    ReactionSystem.net_stoichs / active_* / all_* matrices, chempy.util.stoich.get_coeff_mtx
against the oracle of bounded/_rsys.py (computed from the generated dicts only:
net = prod + inact_prod - reac - inact_reac, rate = k * prod over ACTIVE reactants of c**nu).

Comparison rule
  * int / Fraction inputs: exact equality (Fractions).
  * sympy inputs (symbols for concentrations and/or rate constants, numeric parts int/Fraction/dyadic
    float): expand(observed - expected) == 0; fall back: every coefficient of the expanded difference
    is < 1e-9 * (largest coefficient of the expected expression).
  * float inputs: the oracle is evaluated in exact rational arithmetic on the exact binary values of the
    floats; |observed - expected| <= 1e-10 * (sum of |terms| of that substance) + 1e-300.
"""
from __future__ import annotations

import json
import random
from fractions import Fraction

from . import _rsys as G

N_QUICK, N_THOROUGH = 4000, 60000
NAMES = ("reaction_rate", "system_rates", "array_forms", "stoich_matrices")


same, _call, _fmt, _is_sym = G.same, G.call, G.fmt, G.is_sym


# ----------------------------------------------------------------------------- case generation
def gen_case(rng):
    flavour = rng.choice(["Q", "Q", "i", "f", "s", "s", "m"])
    if flavour in ("s", "m"):
        spec = G.gen_spec(rng)
        # no inexact floating point next to symbols: 's' = symbols with int/Fraction, 'm' = symbols with
        # int/dyadic floats (every product and sum of those is exact in binary floating point)
        kalpha, calpha = ("iQs", "s") if flavour == "s" else ("ids", "ids")
        for i, rx in enumerate(spec["rxns"]):
            rx["k"] = G.rand_num(rng, rng.choice(kalpha), name="k%d" % i)
        conc = {s: G.rand_num(rng, rng.choice(calpha), name="c_" + s) for s in spec["subst"]}
        fmode = rng.choice("iQs") if flavour == "s" else rng.choice("ids")
    elif flavour == "f":
        spec = G.gen_spec(rng, kmode=None)
        for i, rx in enumerate(spec["rxns"]):
            rx["k"] = G.rand_num(rng, rng.choice("iQf"))
        conc = G.gen_conc(rng, spec["subst"], "f")
        fmode = "f"
    else:
        spec = G.gen_spec(rng)
        for i, rx in enumerate(spec["rxns"]):
            rx["k"] = G.rand_num(rng, rng.choice("iQ"))
        conc = G.gen_conc(rng, spec["subst"], flavour)
        fmode = flavour
    nr = len(spec["rxns"])
    perm = list(range(nr))
    rng.shuffle(perm)
    fed = [s for s in spec["subst"] if rng.random() < 0.6] or [spec["subst"][0]]
    feed = {"F": G.rand_num(rng, fmode, name="fr"), "fc": {s: G.rand_num(rng, fmode, name="fc_" + s) for s in fed}}
    sub_keys = [s for s in spec["subst"] if rng.random() < 0.7] or [spec["subst"][-1]]
    rng.shuffle(sub_keys)
    arb = [G.rand_num(rng, "Q") if rng.random() < 0.8 else ["i", -rng.randint(0, 5)] for _ in range(nr)]
    return {"spec": spec, "conc": conc, "pmode": rng.choice(["plain"] * 6 + ["named"] * 2 + ["ma", "ma", "uk"]),
            "perm": perm, "feed": feed, "sub_keys": sub_keys, "arb_rates": arb}


def _variables(case, exact):
    """(variables for chempy, exact values for the oracle)"""
    f = G.exact if exact else G.dec
    v = {s: f(n) for s, n in case["conc"].items()}
    return v


# ----------------------------------------------------------------------------- the four checks
def check_reaction_rate(case):
    spec, pmode = case["spec"], case["pmode"]
    c_obs, c_ex = _variables(case, False), _variables(case, True)
    ks = [G.exact(rx["k"]) for rx in spec["rxns"]]
    out = []
    ok, rxns = _call(lambda: G.build_reactions(spec, pmode))
    if not ok:
        return ["Reaction(...) raised " + rxns]
    var = dict(c_obs)
    if pmode == "named":
        var.update({"k%d" % i: G.dec(rx["k"]) for i, rx in enumerate(spec["rxns"])})
    for i, (rx, rxn) in enumerate(zip(spec["rxns"], rxns)):
        keys = sorted(set(rx["reac"]) | set(rx["prod"]) | set(rx["inact_reac"]) | set(rx["inact_prod"]))
        cp = G.conc_prod(rx, c_ex)
        exp = {s: G.net(rx, s) * ks[i] * cp for s in spec["subst"]}
        scale = {s: abs(float(exp[s])) if not _is_sym(exp[s]) else 0.0 for s in exp}
        ok, o = _call(lambda: rxn.order())
        if not ok or o != sum(rx["reac"].values()):
            out.append("reaction %d: order() -> %s, expected %d (sum of active reactant coefficients)" % (i, o, sum(rx["reac"].values())))
        ok, o = _call(lambda: rxn.keys())
        if not ok or set(o) != set(keys):
            out.append("reaction %d: keys() -> %s, expected %s" % (i, o, keys))
        # default substance_keys: exactly the species of the reaction
        ok, obs = _call(lambda: rxn.rate(var))
        if not ok:
            out.append("reaction %d: rate() raised %s" % (i, obs))
        elif set(obs) != set(keys):
            out.append("reaction %d: rate() keys %s, expected %s" % (i, sorted(obs), keys))
        else:
            for s in keys:
                if not same(obs[s], exp[s], scale[s]):
                    out.append("reaction %d: rate()[%s] = %s, expected net*k*prod(c^nu) = %s" % (i, s, _fmt(obs[s]), _fmt(exp[s])))
        # all substances of the system: species on neither side get zero
        ok, obs = _call(lambda: rxn.rate(var, substance_keys=list(spec["subst"])))
        if not ok:
            out.append("reaction %d: rate(substance_keys=all) raised %s" % (i, obs))
        elif list(obs) != list(spec["subst"]):
            out.append("reaction %d: rate(substance_keys=all) keys %s, expected %s" % (i, list(obs), spec["subst"]))
        else:
            for s in spec["subst"]:
                if not same(obs[s], exp[s], scale[s]):
                    out.append("reaction %d: rate(all)[%s] = %s, expected %s" % (i, s, _fmt(obs[s]), _fmt(exp[s])))
    return out


def check_system_rates(case):
    spec, pmode = case["spec"], case["pmode"]
    c_obs, c_ex = _variables(case, False), _variables(case, True)
    ks = [G.exact(rx["k"]) for rx in spec["rxns"]]
    out = []
    var = dict(c_obs)
    if pmode == "named":
        var.update({"k%d" % i: G.dec(rx["k"]) for i, rx in enumerate(spec["rxns"])})
    exp = G.oracle_rates(spec, c_ex, ks)
    scale = G.abs_scale(spec, c_ex, ks) if not any(_is_sym(v) for v in list(c_ex.values()) + ks) else {s: 0.0 for s in spec["subst"]}
    ok, rsys = _call(lambda: G.build_rsys(spec, pmode))
    if not ok:
        return ["ReactionSystem(...) raised " + rsys]

    def cmp(label, obs, exp, scale, keys):
        if set(obs) != set(keys):
            out.append("%s: keys %s, expected one entry per substance %s" % (label, sorted(obs), sorted(keys)))
            return
        for s in keys:
            if not same(obs[s], exp[s], scale[s]):
                out.append("%s[%s] = %s, expected sum_r net*k*prod(c^nu) = %s" % (label, s, _fmt(obs[s]), _fmt(exp[s])))

    ok, obs = _call(lambda: rsys.rates(var))
    if not ok:
        out.append("rates() raised " + obs)
    else:
        cmp("rates()", obs, exp, scale, spec["subst"])
    # restricted / permuted substance_keys
    ok, obs = _call(lambda: rsys.rates(var, substance_keys=list(case["sub_keys"])))
    if not ok:
        out.append("rates(substance_keys=%s) raised %s" % (case["sub_keys"], obs))
    else:
        cmp("rates(substance_keys=%s)" % case["sub_keys"], obs, exp, scale, case["sub_keys"])
    # order independence
    ok, rsys_p = _call(lambda: G.build_rsys(spec, pmode, order=case["perm"]))
    if not ok:
        out.append("ReactionSystem(permuted) raised " + rsys_p)
    else:
        ok, obs = _call(lambda: rsys_p.rates(var))
        if not ok:
            out.append("rates() of permuted system raised " + obs)
        else:
            cmp("rates() with reactions permuted %s" % case["perm"], obs, exp, scale, spec["subst"])
    # CSTR feed terms F*(c_feed - c) for the fed substances
    feed = case["feed"]
    F_ex, fc_ex = G.exact(feed["F"]), {s: G.exact(v) for s, v in feed["fc"].items()}
    var2 = dict(var, fr=G.dec(feed["F"]), **{"fc_" + s: G.dec(v) for s, v in feed["fc"].items()})
    # fed substances in system order
    fc_map = {s: "fc_" + s for s in spec["subst"] if s in feed["fc"]}
    exp2 = G.oracle_rates(spec, c_ex, ks, feed=(F_ex, fc_ex))
    symbolic = any(_is_sym(v) for v in list(c_ex.values()) + ks + [F_ex] + list(fc_ex.values()))
    scale2 = {s: 0.0 for s in spec["subst"]} if symbolic else G.abs_scale(spec, c_ex, ks, feed=(F_ex, fc_ex))
    ok, obs = _call(lambda: rsys.rates(var2, cstr_fr_fc=("fr", fc_map)))
    if not ok:
        out.append("rates(cstr_fr_fc=('fr', %s)) raised %s" % (fc_map, obs))
    else:
        cmp("rates(cstr_fr_fc=('fr', %s))" % fc_map, obs, exp2, scale2, spec["subst"])
    return out


def check_array_forms(case):
    from chempy.kinetics.ode import law_of_mass_action_rates, dCdt_list
    spec = case["spec"]
    pmode = case["pmode"] if case["pmode"] in ("plain", "ma") else "plain"   # the array form takes numbers or MassAction
    c_obs, c_ex = _variables(case, False), _variables(case, True)
    ks = [G.exact(rx["k"]) for rx in spec["rxns"]]
    out = []
    ok, rsys = _call(lambda: G.build_rsys(spec, pmode))
    if not ok:
        return ["ReactionSystem(...) raised " + rsys]
    conc_list = [c_obs[s] for s in spec["subst"]]
    symbolic = any(_is_sym(v) for v in list(c_ex.values()) + ks)
    rr_exp = G.oracle_reaction_rates(spec, c_ex, ks)
    ok, rr = _call(lambda: list(law_of_mass_action_rates(conc_list, rsys, {})))
    if not ok:
        out.append("law_of_mass_action_rates raised " + rr)
        return out
    if len(rr) != len(rr_exp):
        out.append("law_of_mass_action_rates gave %d rates for %d reactions" % (len(rr), len(rr_exp)))
        return out
    for i, (o, e) in enumerate(zip(rr, rr_exp)):
        if not same(o, e, 0.0 if symbolic else abs(float(e))):
            out.append("law_of_mass_action_rates[%d] = %s, expected k*prod(c^nu) = %s" % (i, _fmt(o), _fmt(e)))
    exp = G.oracle_rates(spec, c_ex, ks)
    scale = {s: 0.0 for s in spec["subst"]} if symbolic else G.abs_scale(spec, c_ex, ks)
    ok, f = _call(lambda: dCdt_list(rsys, rr))
    if not ok:
        out.append("dCdt_list raised " + f)
    elif len(f) != len(spec["subst"]):
        out.append("dCdt_list returned %d entries for %d substances" % (len(f), len(spec["subst"])))
    else:
        for s, o in zip(spec["subst"], f):
            if not same(o, exp[s], scale[s]):
                out.append("dCdt_list(law_of_mass_action_rates)[%s] = %s, expected %s" % (s, _fmt(o), _fmt(exp[s])))
    # dCdt_list is N^T r for ANY rate vector (exact, Fractions incl. zero and negative entries)
    arb = [G.exact(a) for a in case["arb_rates"]]
    ok, f = _call(lambda: dCdt_list(rsys, list(arb)))
    if not ok:
        out.append("dCdt_list(arbitrary rates) raised " + f)
    else:
        for j, s in enumerate(spec["subst"]):
            e = sum((G.net(rx, s) * arb[i] for i, rx in enumerate(spec["rxns"])), Fraction(0))
            if len(f) != len(spec["subst"]) or not same(f[j], e):
                out.append("dCdt_list(r=%s)[%s] = %s, expected sum_r net*r = %s" % ([str(a) for a in arb], s, _fmt(f[j]) if j < len(f) else None, e))
    return out


def check_stoich_matrices(case):
    from chempy.util.stoich import get_coeff_mtx
    spec = case["spec"]
    out = []
    ok, rsys = _call(lambda: G.build_rsys(spec, "plain"))
    if not ok:
        return ["ReactionSystem(...) raised " + rsys]
    R = spec["rxns"]
    want = {
        "net_stoichs": lambda rx, s: G.net(rx, s),
        "active_reac_stoichs": lambda rx, s: rx["reac"].get(s, 0),
        "active_prod_stoichs": lambda rx, s: rx["prod"].get(s, 0),
        "all_reac_stoichs": lambda rx, s: rx["reac"].get(s, 0) + rx["inact_reac"].get(s, 0),
        "all_prod_stoichs": lambda rx, s: rx["prod"].get(s, 0) + rx["inact_prod"].get(s, 0),
    }
    for keys_arg, keys in ((None, spec["subst"]), (list(case["sub_keys"]), case["sub_keys"])):
        for name, fn in want.items():
            exp = [[fn(rx, s) for s in keys] for rx in R]
            ok, m = _call(lambda: getattr(rsys, name)(keys_arg) if keys_arg is not None else getattr(rsys, name)())
            if not ok:
                out.append("%s(%s) raised %s" % (name, keys_arg, m))
                continue
            try:
                obs = [[int(x) for x in row] for row in m]
            except Exception:
                obs = None
            if obs != exp:
                out.append("%s(%s) = %s, expected rows=reactions, cols=substances %s" % (name, keys_arg, obs if obs is not None else m, exp))
    pairs = [(dict(rx["reac"]), dict(rx["prod"])) for rx in R]
    exp = [[rx["prod"].get(s, 0) - rx["reac"].get(s, 0) for rx in R] for s in spec["subst"]]
    ok, m = _call(lambda: get_coeff_mtx(list(spec["subst"]), pairs))
    if not ok:
        out.append("get_coeff_mtx raised " + m)
    else:
        obs = [[int(x) for x in row] for row in m]
        if obs != exp:
            out.append("get_coeff_mtx = %s, expected [substance][reaction] prod-reac %s" % (obs, exp))
    return out


CHECKS = {"reaction_rate": check_reaction_rate, "system_rates": check_system_rates,
          "array_forms": check_array_forms, "stoich_matrices": check_stoich_matrices}


def _nontrivial(case):
    """a case is non-trivial if some reaction has an active reactant (order >= 1)"""
    return any(rx["reac"] for rx in case["spec"]["rxns"])


def _work(args):
    seed, lo, hi = args
    res = []
    for i in range(lo, hi):
        rng = random.Random(G.case_seed(seed, "C03", i))
        case = gen_case(rng)
        res.append((i, case, {n: CHECKS[n](case) for n in NAMES}))
    return res


def run(tier, seed):
    n = N_QUICK if tier == "quick" else N_THOROUGH
    import chempy  # noqa: F401  (imported before forking)
    import sympy   # noqa: F401
    chunks = [(seed, lo, min(lo + 100, n)) for lo in range(0, n, 100)]
    if len(chunks) > 1:
        import multiprocessing as mp
        with mp.get_context("fork").Pool(min(16, len(chunks))) as pool:
            parts = pool.map(_work, chunks)
    else:
        parts = [_work(c) for c in chunks]
    results = sorted((r for p in parts for r in p), key=lambda t: t[0])
    feats = {"catalyst": 0, "inactive": 0, "spectator": 0, "order0": 0, "symbolic": 0, "repeated": 0}
    distinct = set()
    viol = {nme: [] for nme in NAMES}
    samples = []
    for i, case, res in results:
        sp = case["spec"]
        used = set()
        for rx in sp["rxns"]:
            used |= set(rx["reac"]) | set(rx["prod"]) | set(rx["inact_reac"]) | set(rx["inact_prod"])
        feats["catalyst"] += any(set(rx["reac"]) & set(rx["prod"]) for rx in sp["rxns"])
        feats["inactive"] += any(rx["inact_reac"] or rx["inact_prod"] for rx in sp["rxns"])
        feats["spectator"] += bool(set(sp["subst"]) - used)
        feats["order0"] += any(not rx["reac"] for rx in sp["rxns"])
        feats["repeated"] += any(v > 1 for rx in sp["rxns"] for v in rx["reac"].values())
        feats["symbolic"] += any(v[0] == "s" for v in case["conc"].values())
        if _nontrivial(case):
            distinct.add(json.dumps(case, sort_keys=True))
        if i < 3:
            samples.append({"system": G.spec_str(sp), "conc": {k: v[1] for k, v in case["conc"].items()}, "pmode": case["pmode"]})
        for nme in NAMES:
            for d in res[nme][:2]:
                viol[nme].append({"inputs": case, "detail": d + "   [system: %s]" % G.spec_str(sp)})
    featstr = ", ".join("%s in %d" % kv for kv in sorted(feats.items()))
    rules = {
        "reaction_rate": "Reaction.rate(variables) (default keys and substance_keys=all substances), order(), keys() for every reaction of a "
                         "seeded random system vs oracle net*k*prod_active(c^nu); exact for int/Fraction, expand()==0 for sympy, rtol 1e-10 of sum|terms| for float",
        "system_rates": "ReactionSystem.rates: plain, substance_keys = shuffled subset, reaction list permuted, cstr_fr_fc with a random subset of fed "
                        "substances, vs oracle sum_r net*k*prod(c^nu) (+F*(c_feed-c)); one entry for EVERY substance incl. spectators; same tolerances",
        "array_forms": "law_of_mass_action_rates(conc_list, rsys) == k*prod(c^nu) per reaction; dCdt_list(rsys, those) == oracle rates in substance order; "
                       "dCdt_list(rsys, arbitrary Fraction vector incl. 0/negative) == N^T r exactly",
        "stoich_matrices": "net_stoichs/active_reac_stoichs/active_prod_stoichs/all_reac_stoichs/all_prod_stoichs (keys=None and a shuffled subset) and "
                           "util.stoich.get_coeff_mtx vs the generated dicts, exact integers",
    }
    bound = ("<=5 substances (shuffled order, spectators), <=6 structurally distinct reactions, active order 0..3, <=3 product units, "
             "catalysts, inactive reactants/products (<=2 units each), k and c from int 1..9 / Fraction p/q (p<=40,q<=12) / float 1e-2..1e2 / "
             "dyadic float / sympy symbols; parameter forms plain, named key, MassAction([k]), MassAction([k], unique_keys); %d seeded cases (%s)" % (n, featstr))
    return {"standins": [
        {"name": nme, "rule": rules[nme], "bound": bound, "evaluations": len(results), "distinct": len(distinct),
         "exhaustive": False, "samples": samples, "violations": viol[nme][:20]} for nme in NAMES]}


def replay(case):
    out = CHECKS[case["name"]](case["inputs"])
    if out:
        return False, "; ".join(out[:3])
    return True, "all comparisons of stand-in %s hold for this system" % case["name"]
