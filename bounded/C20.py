# -*- coding: utf-8 -*-
"""Bounded stand-ins for C20: printed numbers and parameters denote the value they were given.

All oracles are *readers*: the string produced by chempy is parsed back by code in this file (markup stripped,
significand x 10**exponent evaluated with `decimal`) and compared with the exact binary value of the input float
(`Decimal(x)` is exact).  Nothing of chempy.printing is used on the oracle side; unit renderings are compared with a
hard-coded table of strings (they are produced by the `quantities` package, not by the code under check).

  roman            roman(n), n = 1..3999, read back by an additive/subtractive numeral evaluator       (exhaustive)
  sci_format       number_to_scientific_{html,latex,unicode}(x, fmt=p), p = 1..10, x = +-m*10**e, e in -300..300:
                   the denoted value v has at most p significant digits and |v - x| <= half a unit of the p-th digit of x
                   (ties may go either way); a missing significand reads as 1
  sci_unit         the same through quantities in several (compound) units, with and without conversion to a target
                   unit: number part as above (plus 4 ulp for the conversion product), then separator, then the unit string
  uncert_notation  _float_str_w_uncert(x, dx, p) and the three wrappers with an uncertainty: NNN.NN(UU)[e+-XX] denotes
                   value = NNN.NN * 10**XX and uncertainty = UU * 10**(-number of decimals) * 10**XX; with
                   q = 10**(floor(log10 dx) - p + 1): both are integer multiples of q, |unc - dx| <= q/2, |value - x| <= q/2
                   (each + 4e-16 relative for the double arithmetic in the code; 2e-15 when units are converted), and the string is not longer than
                   (1 + the shorter of the canonical plain / exponent layouts)
  uncert_tiny_scale  the same check on the corner of the domain where the last kept digit is below 1e-308
  reaction_param   Reaction/Equilibrium .string/.unicode/.html/.latex(with_param=True): after the separator come the
                   magnitude (3 significant digits for str, 5 for the others) and the unit string
"""
from __future__ import annotations

import decimal
import re
from decimal import Decimal

from . import _par

# ------------------------------------------------------------------------------------------------ readers
_ROM = {"I": 1, "V": 5, "X": 10, "L": 50, "C": 100, "D": 500, "M": 1000}


def read_roman(s):
    """additive/subtractive evaluation; None if not a numeral"""
    if not s or any(c not in _ROM for c in s):
        return None
    tot = 0
    for i, c in enumerate(s):
        v = _ROM[c]
        if i + 1 < len(s) and _ROM[s[i + 1]] > v:
            tot -= v
        else:
            tot += v
    return tot


_SUP = {u"⁰": "0", u"¹": "1", u"²": "2", u"³": "3", u"⁴": "4", u"⁵": "5", u"⁶": "6", u"⁷": "7", u"⁸": "8", u"⁹": "9",
        u"⁻": "-", u"⁺": "+"}
_RE = {
    "html": re.compile(r"^(?:(?P<sig>[^&<]+)&sdot;)?10<sup>(?P<e>[-+]?[0-9]+)</sup>$"),
    "latex": re.compile(r"^(?:(?P<sig>[^\\]+)\\cdot )?10\^\{(?P<e>[-+]?[0-9]+)\}$"),
    "unicode": re.compile(u"^(?:(?P<sig>[^·]+)·)?10(?P<e>[⁻⁺]?[⁰¹²³⁴⁵⁶⁷⁸⁹]+)$"),
}
_SEP = {"html": " ", "latex": "\\,", "unicode": " "}
_PLAIN = re.compile(r"^-?[0-9]+(?:\.[0-9]+)?$")
_UNC = re.compile(r"^(?P<sign>-?)(?P<int>[0-9]+)(?:\.(?P<frac>[0-9]+))?\((?P<unc>[0-9]+)\)$")


def split_sci(s, form):
    """-> (significand string or None, exponent int) ; raises ValueError if the string has neither layout"""
    m = _RE[form].match(s)
    if m:
        e = m.group("e")
        if form == "unicode":
            e = "".join(_SUP[c] for c in e)
        return m.group("sig"), int(e)
    return s, 0


def read_sci(s, form):
    sig, e = split_sci(s, form)
    if sig is None:
        return Decimal(1).scaleb(e)
    if not _PLAIN.match(sig):
        raise ValueError("cannot read significand %r" % sig)
    return Decimal(sig).scaleb(e)


def read_unc(sig, e):
    """'NNN.NN(UU)' and exponent -> (value, uncertainty, number of decimals)"""
    m = _UNC.match(sig)
    if not m:
        raise ValueError("cannot read %r as value(uncertainty)" % sig)
    frac = m.group("frac") or ""
    val = Decimal(m.group("sign") + m.group("int") + ("." + frac if frac else "")).scaleb(e)
    unc = Decimal(m.group("unc")).scaleb(-len(frac)).scaleb(e)
    return val, unc, len(frac)


def _ndigits(v):
    return len(v.normalize().as_tuple().digits) if v != 0 else 1


def check_rounded(v, x, p, extra_rel=0.0):
    """v denotes float x to p significant digits?  -> (ok, message)"""
    with decimal.localcontext() as ctx:
        ctx.prec = 1500
        D = Decimal(x)
        half = Decimal(5).scaleb(D.adjusted() - p)
        err = abs(v - D)
        lim = half + abs(D) * Decimal(repr(extra_rel)) if extra_rel else half
        if err > lim:
            return False, "denotes %s which is off by %.3g > half a unit of digit %d (%.3g) of %r" % (v, err, p, half, x)
        if _ndigits(v) > p:
            return False, "denotes %s with %d significant digits, %d requested" % (v, _ndigits(v), p)
    return True, ""


# ------------------------------------------------------------------------------------------------ float generators
def _mk(sign, digits, e):
    """float sign * d.ddd * 10**e from a digit string"""
    return float("%s%s.%se%d" % ("-" if sign < 0 else "", digits[0], digits[1:] or "0", e))


def gen_floats(rng, n):
    """floats over +-300 decades with emphasis on rounding boundaries; returns list of (tag, x)"""
    out = []
    for i in range(n):
        kind = rng.choice(["rand", "rand", "rand", "carry", "carry", "one", "smallint", "tie", "switch", "below1"])
        sign = rng.choice([1, 1, -1])
        e = rng.randint(-300, 300)
        if kind == "rand":
            k = rng.randint(1, 17)
            d = str(rng.randint(1, 9)) + "".join(rng.choice("0123456789") for _ in range(k - 1))
        elif kind == "carry":         # 9.99..96 : rounds into the next decade at precision = number of nines
            nn = rng.randint(1, 10)
            d = "9" * nn + rng.choice("56789") + "".join(rng.choice("0123456789") for _ in range(rng.randint(0, 4)))
        elif kind == "one":
            d = "1"
        elif kind == "smallint":
            d = str(rng.randint(1, 9)) + rng.choice(["", "0", "5", "00", "25"])
        elif kind == "tie":
            k = rng.randint(1, 6)
            d = str(rng.randint(1, 9)) + "".join(rng.choice("0123456789") for _ in range(k - 1)) + "5"
            e = rng.randint(k, 15)    # exactly representable integers ending in 5: genuine ties
        elif kind == "switch":        # around the %g switch between plain and exponent layout
            d = rng.choice(["1", "9" * rng.randint(1, 11), str(rng.randint(10, 99999))])
            e = rng.choice([-6, -5, -4, -3, -1, 0, 1, 2, 3, 4, 5, 6, 7, 8, 9, 10, 11])
        else:
            d = "9" * rng.randint(1, 12) + rng.choice("123456789")
            e = rng.choice([-1, -1, e])
        out.append((kind, _mk(sign, d, e)))
    return out


# ------------------------------------------------------------------------------------------------ stand-in bodies
FORMS = ["html", "latex", "unicode"]


def _fn(form):
    from chempy.printing import numbers
    return getattr(numbers, "number_to_scientific_" + form)


def check_sci(case):
    x, p, form = case["x"], case["p"], case["form"]
    try:
        s = _fn(form)(x, fmt=p)
    except Exception as e:
        return False, "number_to_scientific_%s(%r, fmt=%d) raised %s: %s" % (form, x, p, type(e).__name__, e)
    try:
        v = read_sci(s, form)
    except Exception as e:
        return False, "output %r is not readable as [significand x] 10^exponent: %s" % (s, e)
    ok, msg = check_rounded(v, x, p)
    return ok, ("output %r %s" % (s, msg)) if not ok else s


# name, constructor, html, latex, unicode renderings (as produced by `quantities` / chempy.units for these units)
def _units():
    from chempy.units import default_units as u
    return {
        "m": (u.m, "m", "\\mathrm{m}", "m"),
        "s": (u.s, "s", "\\mathrm{s}", "s"),
        "M": (u.molar, "M", "\\mathrm{M}", "M"),
        "K": (u.K, "K", "\\mathrm{K}", "K"),
        "m/s": (u.m / u.s, "m/s", "\\mathrm{\\frac{m}{s}}", "m/s"),
        "1/s": (1 / u.s, "1/s", "\\mathrm{\\frac{1}{s}}", "1/s"),
        "1/(s*M)": (1 / u.molar / u.s, "1/(s&sdot;M)", "\\mathrm{\\frac{1}{(s{\\cdot}M)}}", u"1/(s·M)"),
        "kg*m2/s2": (u.kg * u.m ** 2 / u.s ** 2, "kg&sdot;m<sup>2</sup>/s<sup>2</sup>", "\\mathrm{\\frac{kg{\\cdot}m^{2}}{s^{2}}}", u"kg·m²/s²"),
        "J/(mol*K)": (u.joule / u.mol / u.K, "J/(mol&sdot;K)", "\\mathrm{\\frac{J}{(mol{\\cdot}K)}}", u"J/(mol·K)"),
        "km": (u.km, "km", "\\mathrm{km}", "km"),
        "h": (u.hour, "h", "\\mathrm{h}", "h"),
        "mol/m3": (u.mol / u.m ** 3, "mol/m<sup>3</sup>", "\\mathrm{\\frac{mol}{m^{3}}}", u"mol/m³"),
    }


# (unit of the number, target unit, exact factor number -> target)
_CONV = [("km", "m", 1000), ("h", "s", 3600), ("M", "mol/m3", 1000), ("m", "m", 1), ("m/s", "m/s", 1)]


def check_sci_unit(case):
    x, p, form, un, target = case["x"], case["p"], case["form"], case["unit"], case.get("target")
    U = _units()
    q = x * U[un][0]
    factor = 1
    shown = un
    try:
        if target:
            factor = [f for a, b, f in _CONV if a == un and b == target][0]
            shown = target
            s = _fn(form)(q, unit=U[target][0], fmt=p)
        else:
            s = _fn(form)(q, fmt=p)
    except Exception as e:
        return False, "number_to_scientific_%s(%r %s, unit=%s, fmt=%d) raised %s: %s" % (form, x, un, target, p, type(e).__name__, e)
    sep = _SEP[form]
    ustr = U[shown][1 + FORMS.index(form)]
    if not s.endswith(sep + ustr):
        return False, "output %r does not end with the separator and unit %r" % (s, sep + ustr)
    num = s[: len(s) - len(sep + ustr)]
    try:
        v = read_sci(num, form)
    except Exception as e:
        return False, "number part %r of %r not readable: %s" % (num, s, e)
    ok, msg = check_rounded(v, x * factor, p, extra_rel=0 if factor == 1 else 9e-16)
    return ok, ("output %r %s" % (s, msg)) if not ok else s


def _canon_lengths(val, unc, un_exp):
    """lengths of the canonical plain and exponent layouts of value(uncertainty) with last kept digit 10**un_exp"""
    q = Decimal(1).scaleb(un_exp)
    dec = max(0, -un_exp)
    plain = "%s(%d)" % (format(val, "f") if dec == 0 else format(val.quantize(q), "f"), int(unc.scaleb(dec)) if dec else int(unc))
    E = val.adjusted()
    nd = max(0, E - un_exp)
    mant = val.scaleb(-E).quantize(Decimal(1).scaleb(-nd))
    expo = "%s(%d)e%d" % (format(mant, "f"), int(unc / q), E)
    return len(plain), len(expo)


# uncertainty cases through quantities: (unit of x, unit of dx, dx-unit expressed in x-units, target unit, x-unit in target units)
_UCONV = [("km", "km", 1.0, None, 1.0), ("km", "m", 1e-3, None, 1.0), ("km", "m", 1e-3, "m", 1000.0),
          ("h", "s", 1 / 3600.0, "s", 3600.0), ("M", "M", 1.0, "mol/m3", 1000.0), ("s", "h", 3600.0, None, 1.0)]


def check_unc(case):
    x, dx, p, form = case["x"], case["dx"], case["p"], case["form"]
    from chempy.printing import numbers
    uc = case.get("uconv")
    tail = ""
    try:
        if form == "raw":
            s = numbers._float_str_w_uncert(x, dx, p)
        elif uc is None:
            s = _fn(form)(x, dx, fmt=p)
        else:
            xu, du, rel, target, F = _UCONV[uc]
            U = _units()
            s = _fn(form)(x * U[xu][0], (dx / rel) * U[du][0], None if target is None else U[target][0], fmt=p)
            tail = _SEP[form] + U[target or xu][1 + FORMS.index(form)]
            x, dx = x * F, dx * F          # what has to be denoted, in the unit that is shown
    except Exception as e:
        return False, "%s(%r, %r, %d%s) raised %s: %s" % ("_float_str_w_uncert" if form == "raw" else "number_to_scientific_" + form,
                                                           x, dx, p, "" if uc is None else ", units %s" % (_UCONV[uc],), type(e).__name__, e)
    try:
        if not s.endswith(tail):
            raise ValueError("does not end with separator and unit %r" % tail)
        num = s[: len(s) - len(tail)] if tail else s
        if form == "raw":
            sig, _, e = num.partition("e")
            e = int(e) if e else 0
        else:
            sig, e = split_sci(num, form)
            if sig is None:
                raise ValueError("significand with uncertainty missing")
        val, unc, _ = read_unc(sig, e)
    except Exception as e:
        return False, "output %r is not readable as value(uncertainty)[exponent][unit]: %s" % (s, e)
    with decimal.localcontext() as ctx:
        ctx.prec = 1500
        Dx, Dd = Decimal(x), Decimal(dx)
        # decimal exponent of the uncertainty; floats within an ulp of a power of ten (1e298 is stored as 9.99..e297)
        # count as that power of ten, as log10 does
        un_exp = decimal.Context(prec=15).plus(Dd).adjusted() - p + 1
        q = Decimal(1).scaleb(un_exp)
        fuzz = Decimal("4e-16") if uc is None else Decimal("2e-15")
        if (unc / q) % 1 != 0 or unc <= 0:
            return False, "output %r: uncertainty %s is not a positive multiple of the last kept digit 1e%d" % (s, unc, un_exp)
        if abs(unc - Dd) > q / 2 + fuzz * Dd:
            return False, "output %r: uncertainty reads %s, given %r, more than half of 1e%d apart" % (s, unc, dx, un_exp)
        off = (val / q) % 1
        if min(off, 1 - off) * q > fuzz * abs(Dx):      # integers beyond 2**53 are printed through a double by the code
            return False, "output %r: value %s is not rounded at the uncertainty's last kept digit 1e%d" % (s, val, un_exp)
        if abs(val - Dx) > q / 2 + fuzz * abs(Dx):
            return False, "output %r: value reads %s, given %r, more than half of 1e%d apart" % (s, val, x, un_exp)
        if form == "raw":
            lp, le = _canon_lengths(val, unc, un_exp)
            if len(s) > min(lp, le) + 1:
                return False, "output %r (length %d) is longer than the shorter layout (plain %d, exponent %d characters)" % (s, len(s), lp, le)
    return True, s


# reactions with parameters: (reactants, kind, unit key) -> expected unit strings for str, unicode, html, latex
def _param_table():
    from chempy.units import default_units as u
    return {
        "1/s": ({"A": 1}, 1 / u.s, ("1/s", "1/s", "1/s", "$\\mathrm{\\frac{1}{s}}$")),
        "1/(s*M)": ({"A": 1, "B": 1}, 1 / u.molar / u.s, ("1/(s*M)", u"1/(s·M)", "1/(s*M)", "$\\mathrm{\\frac{1}{(s{\\cdot}M)}}$")),
        "m3/(mol*s)": ({"A": 2}, u.m ** 3 / u.mol / u.s, ("m**3/(s*mol)", u"m³/(s·mol)", "m**3/(s*mol)", "$\\mathrm{\\frac{m^{3}}{(s{\\cdot}mol)}}$")),
        "dm6/(mol2*h)": ({"A": 1, "B": 2}, u.decimetre ** 6 / u.mol ** 2 / u.hour,
                         ("decimetre**6/(h*mol**2)", u"decimetre⁶/(h·mol²)", "decimetre**6/(h*mol**2)", "$\\mathrm{\\frac{decimetre^{6}}{(h{\\cdot}mol^{2})}}$")),
        "M/s": ({}, u.molar / u.s, ("M/s", "M/s", "M/s", "$\\mathrm{\\frac{M}{s}}$")),
        "none": ({"A": 1}, None, None),
        "eq:M": ({"A": 1}, u.molar, ("M", "M", "M", "$\\mathrm{M}$")),
    }


_PRINTERS = ["string", "unicode", "html", "latex"]
_PSEP = {"string": "; ", "unicode": "; ", "html": "&#59; ", "latex": "; "}


def check_param(case):
    from chempy import Reaction, Equilibrium
    x, key, printer = case["x"], case["unit"], case["printer"]
    reac, unit, ustrs = _param_table()[key]
    try:
        if key.startswith("eq:"):
            rxn = Equilibrium(reac, {"C": 1, "D": 1}, x * unit)
        else:
            rxn = Reaction(reac, {"C": 1}, x if unit is None else x * unit)
        if printer == "string":
            s = rxn.string(with_param=True)
            bare = rxn.string(with_param=False)
        else:
            s = getattr(rxn, printer)({}, with_param=True)
            bare = getattr(rxn, printer)({}, with_param=False)
    except Exception as e:
        return False, "printing raised %s: %s" % (type(e).__name__, e)
    if not s.startswith(bare + _PSEP[printer]):
        return False, "%r does not consist of the reaction %r, the separator and a parameter" % (s, bare)
    tail = s[len(bare + _PSEP[printer]):]
    if ustrs is None:
        mag, ustr, want = tail, None, None
    else:
        want = ustrs[_PRINTERS.index(printer)]
        if not tail.endswith(" " + want):
            return False, "%r: parameter text %r does not end with the unit %r" % (s, tail, want)
        mag = tail[: len(tail) - len(want) - 1]
    try:
        if printer == "string":
            if not re.match(r"^-?[0-9.]+(e[-+][0-9]+)?$", mag):
                raise ValueError("not a number")
            v = Decimal(mag)
        else:
            v = read_sci(mag, "latex" if printer == "latex" else printer)
    except Exception as e:
        return False, "%r: magnitude %r not readable: %s" % (s, mag, e)
    ok, msg = check_rounded(v, x, 3 if printer == "string" else 5)
    return ok, ("%r: magnitude %s" % (s, msg)) if not ok else s


_CHECK = {"sci_format": check_sci, "sci_unit": check_sci_unit, "uncert_notation": check_unc, "uncert_tiny_scale": check_unc,
          "reaction_param": check_param}


def _unc_standin(case):
    """the same check is reported under two names: 'uncert_tiny_scale' collects the corner of the domain where the
    uncertainty's last kept digit lies below 1e-308 (dx < 10**(p-309)), so that 10**(number of decimals) exceeds the
    double range; everything else is 'uncert_notation'"""
    un_exp = decimal.Context(prec=15).plus(Decimal(case["dx"])).adjusted() - case["p"] + 1
    return "uncert_tiny_scale" if un_exp < -308 else "uncert_notation"


def _work(item):
    name, case = item
    ok, det = _CHECK[name](case)
    return name, case, ok, det


# ------------------------------------------------------------------------------------------------ case lists
def _gen_unc(rng, n):
    import math
    out = []
    for i in range(n):
        kind, x = gen_floats(rng, 1)[0]
        p = rng.randint(1, 10)
        mode = rng.choice(["rand", "rand", "carry_unc", "round_digit", "coarse"])
        if rng.random() < 0.03:           # the corner where the last kept digit lies below 1e-308 (see _unc_standin)
            x = _mk(rng.choice([1, -1]), str(rng.randint(1, 9)) + "".join(rng.choice("0123456789") for _ in range(rng.randint(0, 12))),
                    rng.randint(-300, -290))
            p = rng.randint(4, 10)
        if mode == "coarse":
            rel = 10 ** rng.uniform(-2, math.log10(0.5))
        else:
            rel = 10 ** rng.uniform(-8, math.log10(0.5))
        dx = abs(x) * rel
        if mode == "carry_unc":       # uncertainty 9.96.. rounds up into a new decade
            e = int(math.floor(math.log10(dx)))
            dx = float("9.%s%se%d" % ("9" * (p - 1), rng.choice(["5", "6", "96", "7"]) + str(rng.randint(1, 9)), e))
        elif mode == "round_digit":   # uncertainty with exactly p digits
            e = int(math.floor(math.log10(dx)))
            dx = float("%de%d" % (rng.randint(10 ** (p - 1), 10 ** p - 1), e - p + 1))
        else:
            dx = float("%.12g" % dx)  # keep the uncertainty's mantissa clear of 9.999999999999x (log10 noise)
        if not (0 < dx <= 0.5 * abs(x)):
            dx = float("%.6g" % (0.3 * abs(x)))
        form = rng.choice(["raw", "raw", "raw", "html", "latex", "unicode"])
        case = {"x": x, "dx": dx, "p": p, "form": form}
        if form != "raw" and rng.random() < 0.5 and 1e-280 < abs(x) < 1e280:
            case["uconv"] = rng.randrange(len(_UCONV))      # number and uncertainty as quantities (possibly in different units)
            case["p"] = min(p, 8)
            if (dx / _UCONV[case["uconv"]][2]) * _UCONV[case["uconv"]][2] != dx:
                case["dx"] = dx = float("%.11g" % dx)
        out.append(case)
    return out


def run(tier, seed):
    quick = tier == "quick"
    cols = {}
    # ---- roman (exhaustive)
    from chempy.printing.numbers import roman
    c = cols["roman"] = _par.Collector("roman", "roman(n) for every n in 1..3999 read back by an independent additive/subtractive numeral evaluator; "
                                       "also at most 3 equal symbols in a row and only the symbols IVXLCDM", "n = 1..3999", exhaustive=True)
    for n in range(1, 4000):
        try:
            s = roman(n)
            back = read_roman(s)
            ok = back == n and not re.search(r"(.)\1\1\1", s)
            det = "roman(%d) = %r reads back as %r" % (n, s, back)
        except Exception as e:
            ok, det = False, "roman(%d) raised %s: %s" % (n, type(e).__name__, e)
        c.add({"n": n}, ok, det)
    # ---- the seeded ones
    rng = _par.sub_rng(seed, "C20", "floats")
    items = []
    nf = 12000 if quick else 400000
    for kind, x in gen_floats(rng, nf):
        ps = list(range(1, 11)) if rng.random() < 0.3 else rng.sample(range(1, 11), 3)
        for p in ps:
            for form in FORMS:
                items.append(("sci_format", {"x": x, "p": p, "form": form}))
    rng = _par.sub_rng(seed, "C20", "units")
    unames = sorted(_units())
    for kind, x in gen_floats(rng, 2000 if quick else 40000):
        p = rng.randint(1, 10)
        form = rng.choice(FORMS)
        if rng.random() < 0.4:
            a, b, f = rng.choice(_CONV)
            items.append(("sci_unit", {"x": x, "p": min(p, 9), "form": form, "unit": a, "target": b}))
        else:
            items.append(("sci_unit", {"x": x, "p": p, "form": form, "unit": rng.choice(unames)}))
    rng = _par.sub_rng(seed, "C20", "unc")
    for case in _gen_unc(rng, 40000 if quick else 1500000):
        items.append((_unc_standin(case), case))
    rng = _par.sub_rng(seed, "C20", "param")
    keys = sorted(_param_table())
    for kind, x in gen_floats(rng, 1000 if quick else 20000):
        x = abs(x)
        if not (1e-250 < x < 1e250):
            x = float("%.6ge%d" % (rng.uniform(1, 10), rng.randint(-30, 30)))
        items.append(("reaction_param", {"x": x, "unit": rng.choice(keys), "printer": rng.choice(_PRINTERS)}))
    rules = {
        "sci_format": ("number_to_scientific_{html,latex,unicode}(x, fmt=p): x = +-d.ddd*10**e with e in -300..300 (random 1..17-digit "
                       "mantissas, 9.99..96 carry mantissas, exact 1 and small integers, exact ties, values around the plain/exponent "
                       "switch, 0.99..9x), 3 or all 10 precisions per float, three markups; output read back by an independent parser "
                       "(missing significand = 1) and compared with Decimal(x): at most p significant digits and within half a unit of "
                       "the p-th digit", "+-300 decades, precision 1..10"),
        "sci_unit": ("same floats as quantities in 12 units (simple and compound) without target unit, and km->m, h->s, M->mol/m3 with "
                     "a target unit (exact factors 1000, 3600; tolerance + 9e-16 relative for the conversion product); output must end "
                     "with separator + the expected unit string (hard-coded table), number part read back as in sci_format",
                     "+-300 decades, precision 1..10, 12 units"),
        "uncert_notation": ("_float_str_w_uncert(x, dx, p) (60 %) and the three wrappers with an uncertainty (40 %; half of them as quantities with "
                            "the uncertainty in the same or another unit, with or without a target unit): x over +-300 decades, "
                            "dx/x log-uniform in 1e-8..0.5 (plus uncertainties 9.9..96 that carry, uncertainties with exactly p digits, "
                            "coarse 1e-2..0.5), p = 1..10; independent reader of NNN.NN(UU)[eXX]; value and uncertainty multiples of "
                            "q = 10**(floor(log10 dx)-p+1), within q/2 (+4e-16 relative) of x and dx; raw string at most one character "
                            "longer than the shorter of the canonical plain/exponent layouts", "+-300 decades, relative uncertainty 1e-8..0.5, precision 1..10"),
        "reaction_param": ("Reaction (orders 0..3) / Equilibrium with float or quantity parameter in 6 compound units, printed with "
                           ".string/.unicode/.html/.latex(with_param=True): text = reaction + separator + magnitude [+ ' ' + unit]; "
                           "magnitude read back (3 significant digits for str, 5 for the others), unit compared with a hard-coded table",
                           "magnitudes over +-250 decades, 7 parameter kinds, 4 printers"),
    }
    rules["uncert_tiny_scale"] = ("the cases of the uncert_notation generator whose last kept digit lies below 1e-308 "
                                  "(dx < 10**(p-309), i.e. |x| below about 1e-291 with many digits requested); same reader and same "
                                  "requirements as uncert_notation", "x in 1e-300..1e-291, relative uncertainty 1e-8..0.5, precision 1..10")
    for k in ("sci_format", "sci_unit", "uncert_notation", "uncert_tiny_scale", "reaction_param"):
        cols[k] = _par.Collector(k, rules[k][0], rules[k][1])
    for name, case, ok, det in _par.pmap(_work, items):
        cols[name].add(case, ok, det)
    return {"standins": [cols[k].result() for k in ("roman", "sci_format", "sci_unit", "uncert_notation", "uncert_tiny_scale", "reaction_param")]}


def replay(case):
    name, inp = case["name"], case["inputs"]
    if name == "roman":
        from chempy.printing.numbers import roman
        s = roman(inp["n"])
        return read_roman(s) == inp["n"], "roman(%d) = %r reads back as %r" % (inp["n"], s, read_roman(s))
    return _CHECK[name](inp)
