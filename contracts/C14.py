"""C14  Molar mass is the composition-weighted sum of standard atomic weights."""
from pyvc.api import harness
from pyvc import spec as SP
from pyvc.objs import make_obj
from spec import iupac

META = {
    "explanation": "mass fold, Substance.mass/charge and mass_fractions proved against spec; tables are data obligations against a reference snapshot; name lookup exhaustive",
    "trusted_base": ["spec/iupac.py reference table (snapshot of the pinned tree, spot-checked by hand)"],
    "not_decided": ["truth of the IUPAC values beyond the reference snapshot"],
    "assumptions": ["the electron mass is taken as the code's 5.489e-4 u (CODATA: 5.4858e-4 u, relative difference 6e-4; the repository's own test pins the code's value): the contracts decide that the SAME constant is used everywhere, not its accuracy",
                    "spec/iupac.py is a snapshot of the pinned tree's table (detects drift, not disagreement with IUPAC)",
                    "a substance whose data carries an explicit 'mass' reports that mass (precondition of the composition-sum clause: 'mass' not in data)",
                    "a 'mixture' has positive coefficients and positive masses (mass_fractions.*: v > 0, m > 0): zero, negative or mixed-sign coefficients (a net reaction "
                    "stoichiometry, whose total mass is zero) are outside the clause 'positive ... sum to one' and nothing is decided about them"],
}

ELECTRON = 5.489e-4


def mass_term(ram):
    def term(kv):
        k, val = kv
        return SP.ite(k == 0, -val * ELECTRON, val * SP.select(ram, k - 1))
    return term


def spec_mass(ram, comp):
    return SP.ssum(comp, mass_term(ram))


def _loop_over_the_items_of(comp):
    """where= predicate of v.invariant: the for-loop iterates the items view of the symbolic mapping `comp` itself - recognised by WHAT is iterated
    (the sequence the engine hands over is comp's items: same ghost order, same length), not by the function the loop lives in nor by the
    spelling of the iterable (`composition.items()` in place, or a parameter the items were passed in as); the loop target must take the
    (key, value) pair apart or name it, and the loop has no else-branch"""
    import ast
    from pyvc.sym import to_z3

    def pred(for_node, frame, seq):
        name = getattr(comp, "name", None)          # (a python dict in the sampled mode: loops over it run natively and need no invariant)
        if name is None or getattr(seq, "name", None) != name + ".items" or for_node.orelse:
            return False
        it = for_node.iter
        spelled = (isinstance(it, ast.Call) and isinstance(it.func, ast.Attribute) and it.func.attr == "items" and not it.args and not it.keywords) or isinstance(it, ast.Name)
        if not spelled or not isinstance(for_node.target, (ast.Tuple, ast.List, ast.Name)):
            return False
        try:
            return bool(to_z3(seq.sym_len()).eq(to_z3(comp.sym_len())))
        except Exception:
            return False
    return pred


@harness("C14", "mass_from_composition", functions=["chempy.util.periodic:mass_from_composition"])
def _(v):
    from chempy.util import periodic
    comp = v.dict("composition", K="int", V="real", key_lo=0, key_hi=118, val_lo=-50, val_hi=50, maxlen=5)
    ram = periodic.relative_atomic_masses
    term = mass_term(ram)
    # the property is about the value returned, not about which function holds the accumulation loop: the invariant (a proof aid, stated about
    # '@acc' = the single loop-carried variable, whatever it is called) is offered to loop #0 of mass_from_composition and, failing that, to the
    # for-loop that runs over the items of THE composition under test wherever it is reached from the call (moved into a private helper, handed
    # over as an argument, ...).  A loop over anything else - the keys, another mapping, a re-ordered copy - is not caught by it.
    v.invariant(periodic.mass_from_composition, 0, lambda env, i, seq: env["@acc"] == SP.ssum_prefix(seq, i, term), where=_loop_over_the_items_of(comp))
    r = v.call(periodic.mass_from_composition, comp)
    v.prove("post", v.eq(r, SP.ssum(comp, term)))
    v.prove("canary", SP.neg(v.eq(r, SP.ssum(comp, term) + 1)))


def _contract_mfc(v, periodic):
    v.contract(periodic.mass_from_composition, "mass_from_composition",
               lambda v, comp: SP.forall(comp, lambda k, val: SP.conj([k >= 0, k <= 118])),
               lambda v, comp: spec_mass(periodic.relative_atomic_masses, comp))


@harness("C14", "Substance.mass.from_composition", functions=["chempy.chemistry:Substance.mass"])
def _(v):
    from chempy.chemistry import Substance
    from chempy.util import periodic
    comp = v.dict("composition", K="int", V="real", key_lo=0, key_hi=118, val_lo=-50, val_hi=50, maxlen=5)
    s = make_obj(Substance, name="X", data={}, composition=comp)
    _contract_mfc(v, periodic)
    r = v.getattr(s, "mass")
    v.prove("post", v.eq(r, spec_mass(periodic.relative_atomic_masses, comp)))
    c = v.getattr(s, "charge")
    v.prove("charge", v.eq(c, SP.dget(comp, 0, 0)))


@harness("C14", "Substance.mass.from_data", functions=["chempy.chemistry:Substance.mass"])
def _(v):
    from chempy.chemistry import Substance
    from chempy.util import periodic
    comp = v.dict("composition", K="int", V="real", key_lo=0, key_hi=118, maxlen=3)
    m = v.real("m")
    s = make_obj(Substance, name="X", data={"mass": m}, composition=comp)
    _contract_mfc(v, periodic)
    v.prove("post", v.eq(v.getattr(s, "mass"), m))
    s2 = make_obj(Substance, name="X", data={}, composition=None)
    # neither an explicit mass nor a composition: there is no mass to report - None or a refusal, never a number
    try:
        none = v.getattr(s2, "mass") is None
    except Exception:
        none = True
    v.prove("none", none)


@harness("C14", "Substance.molar_mass", functions=["chempy.chemistry:Substance.molar_mass", "chempy.chemistry:Substance.mass"])
def _(v):
    """'molar mass': the mass (composition sum, electron term included) times the gram per mole OF THE UNITS GIVEN - for any unit namespace, so an
    implementation that ignores its argument in favour of the default units does not pass (default units: masses_of_written_formulas)"""
    from types import SimpleNamespace
    from chempy.chemistry import Substance
    from chempy.util import periodic
    comp = v.dict("composition", K="int", V="real", key_lo=0, key_hi=118, val_lo=-50, val_hi=50, maxlen=5)
    g, mol = v.real("g", lo=0.1, hi=10), v.real("mol", lo=0.1, hi=10)
    s = make_obj(Substance, name="X", data={}, composition=comp)
    _contract_mfc(v, periodic)
    r = v.call(s.molar_mass, SimpleNamespace(g=g, mol=mol))
    v.prove("mass_times_g_per_mol_of_the_given_units", v.eq(r * mol, spec_mass(periodic.relative_atomic_masses, comp) * g))
    m = v.real("m", lo=0.001, hi=500)
    s2 = make_obj(Substance, name="X", data={"mass": m}, composition=None)
    v.prove("explicit_mass", v.eq(v.call(s2.molar_mass, SimpleNamespace(g=g, mol=mol)) * mol, m * g))


def _is_callers_plus_charge(v, got, comp, q):
    """got == comp with the single further entry {0: q} (as a whole view: same keys, same values), for symbolic and python mappings"""
    if v.symbolic:
        return SP.forall_keys("int", lambda k: SP.conj([SP.iff(SP.dhas(got, k), SP.disj([SP.dhas(comp, k), k == 0])),
                                                        SP.dget(got, k, 0) == SP.ite(k == 0, q, SP.dget(comp, k, 0))]))
    want = dict(comp)
    want[0] = q
    return dict(got) == want


@harness("C14", "Substance.charge_keyword", functions=["chempy.chemistry:Substance.__init__", "chempy.chemistry:Substance.charge"])
def _(v):
    """'an ion differs from its neutral parent by exactly the electron masses' when the charge is given by the keyword (EITHER sign, any
    composition without a charge entry): the substance carries that charge, its composition is the caller's plus the entry {0: charge} (the mass
    of which is the parent's minus charge electron masses by Substance.mass.from_composition; per shape in Substance.charge_keyword.mass), the
    caller's mapping is not given a charge entry, so a parent built from it stays neutral; a charge keyword that contradicts a charge entry of
    the composition is refused (or, were both accepted, they agree) - never silently resolved in favour of one"""
    from chempy.chemistry import Substance
    q = v.int("charge", lo=-6, hi=6)
    comp = v.dict("composition", K="int", V="real", key_lo=1, key_hi=118, val_lo=0, val_hi=50, maxlen=4)
    s = v.call(Substance, "X", charge=q, composition=comp)
    v.prove("charge", v.getattr(s, "charge") == q)
    v.prove("composition_is_the_callers_plus_the_charge", _is_callers_plus_charge(v, v.getattr(s, "composition"), comp, q))
    v.prove("callers_composition_has_no_charge_entry", SP.neg(SP.dhas(comp, 0)))
    parent = v.call(Substance, "X", composition=comp)
    v.prove("parent_from_the_same_mapping_is_neutral", v.getattr(parent, "charge") == 0)
    both = v.dict("composition_with_charge", K="int", V="real", key_lo=0, key_hi=118, val_lo=-6, val_hi=50, maxlen=4)
    if not v.symbolic:
        both.setdefault(0, 2)
    v.assume(SP.dhas(both, 0))
    out = v.run(Substance, "X", charge=q, composition=both)
    v.prove("charge_given_twice_is_refused_or_consistent", True if out.raised() else SP.conj([v.getattr(out.value, "charge") == q, SP.dget(both, 0, 0) == q]))


@harness("C14", "Substance.charge_keyword.mass", functions=["chempy.chemistry:Substance.__init__", "chempy.chemistry:Substance.mass"], kind="shape-bounded", samples=30)
def _(v):
    """the same clause as a mass, per shape (Fe_a C_b N_c with the charge -6..6 given by keyword): mass = composition sum - charge * electron mass,
    i.e. an anion is HEAVIER than its parent; the parent built from the same mapping afterwards weighs the composition sum"""
    from chempy.chemistry import Substance
    from chempy.util import periodic
    q, nfe, nc, nn = v.int("charge", lo=-6, hi=6), v.int("n_Fe", lo=1, hi=4), v.int("n_C", lo=0, hi=9), v.int("n_N", lo=0, hi=9)
    comp = {26: nfe, 6: nc, 7: nn}
    ram = periodic.relative_atomic_masses
    neutral = nfe * ram[25] + nc * ram[5] + nn * ram[6]
    ion = v.call(Substance, "X", charge=q, composition=comp)
    v.prove("ion", v.eq(v.getattr(ion, "mass"), neutral - q * ELECTRON))
    parent = v.call(Substance, "X", composition=comp)
    v.prove("parent", SP.conj([v.eq(v.getattr(parent, "mass"), neutral), v.getattr(parent, "charge") == 0]))
    v.prove("difference", v.eq(v.getattr(parent, "mass") - v.getattr(ion, "mass"), q * ELECTRON))


def _mf_harness(n):
    @harness("C14", "mass_fractions.n%d" % n, functions=["chempy.chemistry:mass_fractions"], kind="shape-bounded", div_mode="fork")
    def _(v):
        from chempy.chemistry import Substance, mass_fractions
        keys = ["S%d" % i for i in range(n)]
        ms = [v.real("m%d" % i, lo=0.001, hi=500) for i in range(n)]
        vs = [v.real("v%d" % i, lo=0.001, hi=100) for i in range(n)]
        subst = {k: make_obj(Substance, name=k, data={"mass": m}, composition=None) for k, m in zip(keys, ms)}
        stoich = dict(zip(keys, vs))
        r = v.call(mass_fractions, stoich, subst)
        tot = sum(m * c for m, c in zip(ms, vs))
        v.prove("keys", set(r.keys()) == set(keys))
        v.prove("value", SP.conj([v.eq(r[k], m * c / tot) for k, m, c in zip(keys, ms, vs)]))
        v.prove("positive", SP.conj([r[k] > 0 for k in keys]))
        v.prove("sum_to_one", v.eq(sum(r[k] for k in keys), 1))
        v.prove("proportional", SP.conj([v.eq(r[keys[0]] * (ms[i] * vs[i]), r[keys[i]] * (ms[0] * vs[0])) for i in range(1, n)]))
    return _


for _n in (1, 2, 3, 4):
    _mf_harness(_n)


def _each_on_its_own(v):
    """-> ob(name, cond, detail=None) for data harnesses: ONE obligation decided on its own.  `cond` (and `detail`, where it is computed from the code's
    answers) are thunks; an exception of the code under test in there (a table that is not there or of another shape, a call that is refused) fails THIS
    obligation with the exception as detail and leaves the remaining obligations of the harness to be decided"""
    def ob(name, cond, detail=None):
        try:
            ok = bool(cond())
            text = (detail() if callable(detail) else detail) or ""
        except Exception as ex:
            ok, text = False, repr(ex)[:200]
        v.prove(name, ok, text)
    return ob


def _weights_helper(p):
    """the private helper the weights are parsed with, found by its ROLE (a private function of chempy.util.periodic that takes no argument and
    produces the 118 weights), under its present name first; None when there is no such helper (inlined, made a comprehension, ...)"""
    import inspect
    named = getattr(p, "_get_relative_atomic_masses", None)
    if callable(named):
        return named
    for name, f in sorted(vars(p).items()):
        if not (name.startswith("_") and inspect.isfunction(f) and f.__module__ == p.__name__):
            continue
        try:
            if inspect.signature(f).parameters:
                continue
            out = tuple(f())
        except Exception:
            continue
        if len(out) == 118 and all(isinstance(x, (int, float)) and not isinstance(x, bool) for x in out):
            return f
    return None


@harness("C14", "tables", functions=["chempy.util.periodic:_get_relative_atomic_masses", "chempy.util.periodic:<module tables>", "chempy.util.periodic:mass_from_composition"], kind="data")
def _(v):
    from chempy.util import periodic as p
    T = iupac.TABLE
    ob = _each_on_its_own(v)
    # the tables the library EXPOSES (the private list they are made from is no part of the property)
    ob("n_elements", lambda: len(p.symbols) == 118 and len(p.names) == 118 and len(p.lower_names) == 118 and len(p.relative_atomic_masses) == 118)
    ob("symbols", lambda: all(p.symbols[z - 1] == s for z, s, n, m in T), "symbol table differs from reference")
    ob("names", lambda: all(p.names[z - 1] == n and p.lower_names[z - 1] == n.lower() for z, s, n, m in T), "names differ")
    ob("masses", lambda: all(p.relative_atomic_masses[z - 1] == m for z, s, n, m in T),
       lambda: "atomic weights differ: %s" % [(z, s, p.relative_atomic_masses[z - 1], m) for z, s, n, m in T if p.relative_atomic_masses[z - 1] != m][:3])
    # the weights as parsed: by the private helper where there is one (whatever it is called, whatever iterable it gives), otherwise - no helper
    # to ask - the exposed table as a whole (all 118 and no more, each a float: the parsed form of the tabulated value)
    helper = _weights_helper(p)
    if helper is not None:
        ob("generator", lambda: tuple(helper()) == tuple(m for z, s, n, m in T), "the weights given by %s differ from the reference" % getattr(helper, "__name__", helper))
    else:
        ob("generator", lambda: tuple(p.relative_atomic_masses) == tuple(m for z, s, n, m in T) and all(type(x) is float for x in p.relative_atomic_masses),
           "no private parsing helper: the exposed weights as a whole differ from the reference")
    # membership of the groups (any container, any order: the property has no clause about the container type)
    ref_groups = {18: iupac.NOBLE_GASES, 1: iupac.ALKALI, 2: iupac.ALKALINE_EARTH, 17: iupac.HALOGENS, 16: iupac.CHALCOGENS, 15: iupac.PNICTOGENS, 14: iupac.CRYSTALLOGENS, 13: iupac.ICOSAGENS}
    ob("groups", lambda: sorted(p.groups) == sorted(ref_groups) and all(sorted(p.groups[g]) == sorted(ref) and len(p.groups[g]) == len(ref) for g, ref in ref_groups.items()))
    ob("periods", lambda: tuple(p.period_lengths) == (2, 8, 8, 18, 18, 32, 32) and tuple(p.accum_period_lengths) == (2, 10, 18, 36, 54, 86, 118))
    # the electron mass THE CODE uses (measured: the mass of one electron, composition {0: -1}) is the constant of this contract (to rounding of
    # 0.0 + x) and within 1e-3 relative of CODATA (META: its accuracy beyond that is assumed, not decided)
    used = []

    def electron_ok():
        used.append(p.mass_from_composition({0: -1}))
        return abs(used[0] - ELECTRON) <= 1e-18 and abs(used[0] / iupac.ELECTRON_MASS_U - 1) < 1e-3 and abs(ELECTRON / iupac.ELECTRON_MASS_U - 1) < 1e-3
    ob("electron_mass", electron_ok, lambda: "electron mass used by mass_from_composition: %r" % (used[0],))


def _case_variants(s):
    out = {s, s.lower(), s.upper(), s.capitalize(), s.swapcase()}
    return out


@harness("C14", "atomic_number.exhaustive", functions=["chempy.util.periodic:atomic_number"], kind="data")
def _(v):
    from chempy.util.periodic import atomic_number
    bad = []
    n = 0
    for z, s, name, m in iupac.TABLE:
        for variant in sorted(_case_variants(s) | _case_variants(name)):
            n += 1
            # a case variant of a symbol may coincide with another symbol's capitalisation only if equal ignoring case
            try:
                got = atomic_number(variant)
            except Exception as ex:
                got = repr(ex)
            exp = z
            # symbols take precedence over names; a lower-cased symbol that capitalises to another symbol cannot occur (symbols are case-insensitively unique)
            if got != exp:
                bad.append((variant, got, exp))
    v.prove("inverse_of_tables", not bad, "mismatch %s" % bad[:3])
    syms_ci = [s.lower() for z, s, nm, m in iupac.TABLE]
    v.prove("symbols_case_insensitively_unique", len(set(syms_ci)) == 118)
    v.prove("count", n >= 118 * 4)
    for junk in ("Xx", "", "Hydrogenium", "J"):
        # no element has that symbol or name: refused (the kind of exception is not part of the property), never an atomic number
        try:
            got = atomic_number(junk)
            ok = False
        except Exception as ex:
            got, ok = repr(ex)[:80], True
        v.prove("rejects_%s" % (junk or "empty"), ok, detail="atomic_number(%r) -> %s" % (junk, got))


@harness("C14", "reading_the_mass_changes_nothing", functions=["chempy.util.periodic:mass_from_composition", "chempy.chemistry:Substance.mass", "chempy.chemistry:Substance.charge"], kind="shape-bounded", samples=30)
def _(v):
    """frame condition: mass/charge are pure reads - the composition (incl. the charge entry) is untouched and a second read agrees"""
    from chempy.chemistry import Substance
    from chempy.util import periodic
    q, nfe, nc, nn = v.int("charge", lo=-6, hi=6), v.int("n_Fe", lo=1, hi=4), v.int("n_C", lo=0, hi=9), v.int("n_N", lo=0, hi=9)
    comp = {26: nfe, 6: nc, 7: nn, 0: q}
    s = Substance("X", composition=comp)
    ram = periodic.relative_atomic_masses
    want = nfe * ram[25] + nc * ram[5] + nn * ram[6] - q * ELECTRON
    m1 = v.getattr(s, "mass")
    v.prove("composition_untouched", set(s.composition.keys()) == {26, 6, 7, 0} and SP.conj([s.composition[26] == nfe, s.composition[6] == nc, s.composition[7] == nn, s.composition[0] == q]))
    m2 = v.getattr(s, "mass")
    v.prove("first_read", v.eq(m1, want))
    v.prove("second_read_agrees", v.eq(m2, want))
    v.prove("charge_still_there", v.getattr(s, "charge") == q)
    direct = v.call(periodic.mass_from_composition, comp)
    v.prove("caller_dict_untouched", set(comp.keys()) == {26, 6, 7, 0} and SP.conj([comp[0] == q]))
    v.prove("direct_call", v.eq(direct, want))


@harness("C14", "mass_fractions.lookup_by_key", functions=["chempy.chemistry:mass_fractions"], kind="shape-bounded", div_mode="fork", samples=30)
def _(v):
    """a caller-supplied substances mapping may hold more entries and another order than the stoichiometry"""
    from chempy.chemistry import Substance, mass_fractions
    from collections import OrderedDict
    names = ["H2", "O2", "N2", "Ar"]
    ms = {n: v.real("m_" + n, lo=0.5, hi=100) for n in names}
    subst = OrderedDict((n, make_obj(Substance, name=n, data={"mass": ms[n]}, composition=None)) for n in ["Ar", "O2", "N2", "H2"])
    c1, c2 = v.real("v_H2", lo=0.1, hi=9), v.real("v_O2", lo=0.1, hi=9)
    r = v.call(mass_fractions, OrderedDict([("H2", c1), ("O2", c2)]), subst)
    tot = ms["H2"] * c1 + ms["O2"] * c2
    v.prove("keys", set(r.keys()) == {"H2", "O2"})
    v.prove("each_species_uses_its_own_mass", SP.conj([v.eq(r["H2"], ms["H2"] * c1 / tot), v.eq(r["O2"], ms["O2"] * c2 / tot)]))
    r2 = v.call(mass_fractions, {"O2", "H2"}, subst) if not v.symbolic else None
    if r2 is not None:
        v.prove("set_means_unit_coefficients", v.eq(r2["H2"], float(ms["H2"]) / (float(ms["H2"]) + float(ms["O2"]))))


@harness("C14", "no_state_between_masses", functions=["chempy.chemistry:Substance.mass", "chempy.chemistry:Substance.from_formula", "chempy.util.periodic:mass_from_composition"], kind="data")
def _(v):
    """the mass of a substance is a function of ITS composition as it is now: no value left behind by another substance, by an earlier
    construction from the same formula, or by an earlier reading; a mass assigned to one substance is that substance's only"""
    from chempy.chemistry import Substance
    from chempy.util.periodic import relative_atomic_masses as ram
    me = ELECTRON
    close = lambda a, b: abs(a - b) < 1e-9
    ob = _each_on_its_own(v)       # (a construction or a reading that is refused fails the obligation it belongs to, not the harness)

    def ion_and_parent(first):
        ion, neutral = [Substance.from_formula("Ce", charge=4), Substance.from_formula("Ce")] if first == "ion" else [Substance.from_formula("Ce"), Substance.from_formula("Ce", charge=4)][::-1]
        return close(neutral.mass, ram[57]) and close(neutral.mass - ion.mass, 4 * me) and neutral.charge == 0 and ion.charge == 4
    for first in ("ion", "neutral"):
        ob("ion_and_parent_differ_by_the_electron_masses.%s_first" % first, lambda first=first: ion_and_parent(first))
    shared = {"tag": 1}            # non-empty: an empty dict is replaced by the constructor (`data or {}`) and would not be shared at all

    def sharing():
        a = Substance.from_formula("NaCl", data=shared)
        b = Substance.from_formula("H2O", data=shared)
        ma, mb = a.mass, b.mass
        return close(ma, ram[10] + ram[16]) and close(mb, 2 * ram[0] + ram[7]) and close(a.mass, ma) and close(b.mass, mb)
    # (whether the substances keep the caller's dict itself or a copy of it is not part of the property: with a copy there is simply nothing shared)
    ob("substances_sharing_a_data_dict_keep_their_own_masses", sharing)
    ob("reading_the_mass_does_not_write_into_data", lambda: shared == {"tag": 1})

    # constructing an ion from a composition mapping the caller keeps using: the caller's mapping (and a parent built from it) is not given the charge
    def callers_composition():
        comp = {1: 1}
        ion = Substance("H+", charge=1, composition=comp)
        parent = Substance("H", composition=comp)
        return comp == {1: 1} and ion.composition == {1: 1, 0: 1} and parent.charge == 0 and close(parent.mass - ion.mass, me)
    ob("charge_keyword_does_not_write_into_the_callers_composition", callers_composition)

    def editing():
        w1 = Substance.from_formula("Kr2O5Xe")       # a formula nothing else in this process has parsed before (first parse, not a cache hit)
        w1.composition[8] = 3             # the caller edits ITS substance
        w2 = Substance.from_formula("Kr2O5Xe")
        return close(w2.mass, 2 * ram[35] + 5 * ram[7] + ram[53]) and close(w1.mass, 2 * ram[35] + 3 * ram[7] + ram[53])
    ob("editing_one_substance_does_not_change_the_next", editing)

    def follows():
        c = Substance("X", composition={1: 2, 8: 1})
        m1 = c.mass
        c.composition[8] = 2
        return close(m1, 2 * ram[0] + ram[7]) and close(c.mass, 2 * ram[0] + 2 * ram[7])
    ob("mass_follows_the_composition", follows)
    ob("explicit_mass_wins", lambda: Substance("Y", composition={1: 1}, data={"mass": 42.0}).mass == 42.0)
    # a NEGATIVE charge by keyword: the anion carries two electrons more than its parent and is heavier by their mass (hand: S 32.06 -> 32.0610978)
    try:
        sulfide, sulfur = Substance("S-2", charge=-2, composition={16: 1}), Substance("S", composition={16: 1})
        anion_ok = sulfide.charge == -2 and sulfur.charge == 0 and close(sulfide.mass - sulfur.mass, 2 * me) and sulfide.mass > sulfur.mass and close(sulfur.mass, ram[15])
        detail = "S-2: %r, S: %r" % (sulfide.mass, sulfur.mass)
    except Exception as ex:
        anion_ok, detail = False, repr(ex)[:200]
    v.prove("anion_by_keyword_is_heavier_by_the_electron_masses", anion_ok, detail)
    # assigning the mass: that substance reports the assigned mass from then on (also as molar mass), its composition is untouched, and neither a
    # substance built before nor one built afterwards from the same formula is given that mass
    try:
        from types import SimpleNamespace
        before = Substance.from_formula("H2O")
        w = Substance.from_formula("H2O")
        comp0 = dict(w.composition)
        hand = 2 * ram[0] + ram[7]
        m0 = w.mass
        w.mass = 20.5
        after = Substance.from_formula("H2O")
        setter_ok = (close(m0, hand) and w.mass == 20.5 and w.composition == comp0 == {1: 2, 8: 1} and close(w.molar_mass(SimpleNamespace(g=4.0, mol=2.0)), 41.0)
                     and close(before.mass, hand) and close(after.mass, hand))
        w.mass = 18.25
        setter_ok = setter_ok and w.mass == 18.25 and close(before.mass, hand)
        detail = "assigned 20.5 then 18.25, reads %r; substances built before/after weigh %r/%r" % (w.mass, before.mass, after.mass)
    except Exception as ex:
        setter_ok, detail = False, repr(ex)[:200]
    v.prove("assigned_mass_is_reported_by_that_substance_only", setter_ok, detail)


@harness("C14", "masses_of_written_formulas", functions=["chempy.chemistry:Substance.from_formula", "chempy.chemistry:Substance.mass", "chempy.chemistry:Substance.molar_mass",
                                                        "chempy.chemistry:mass_fractions", "chempy.util.periodic:mass_from_composition"], kind="data")
def _(v):
    """'additive over hydrate parts and groups, scales with multipliers, an ion differs from its neutral parent by exactly the electron masses' on
    formulas (through the parser: every bracket kind, both hydrate separators, decimal subscripts, all 118 symbols), the default path of
    mass_fractions (substances made from the keys by the factory given) and the molar mass in given and default units; expectations are sums
    written by hand over the table of atomic weights"""
    from chempy.chemistry import Substance, Species, mass_fractions
    from chempy.util.periodic import relative_atomic_masses as ram, mass_from_composition
    M = lambda f: Substance.from_formula(f).mass
    w = lambda sym: ram[{"H": 1, "C": 6, "N": 7, "O": 8, "Na": 11, "Mg": 12, "Al": 13, "S": 16, "Cl": 17, "Ca": 20, "Fe": 26, "Cu": 29}[sym] - 1]
    me = ELECTRON
    close = lambda a, b: abs(a - b) <= 1e-9 * max(1.0, abs(b))
    ob = _each_on_its_own(v)       # (a formula that is refused fails the obligation it belongs to, not the harness)
    ob("sum_over_the_composition", lambda: close(M("H2O"), 2 * w("H") + w("O")) and close(M("CuSO4"), w("Cu") + w("S") + 4 * w("O")) and close(M("Fe(CN)6"), w("Fe") + 6 * w("C") + 6 * w("N")))
    ob("hydrate_parts_add", lambda: close(M("CuSO4..5H2O"), M("CuSO4") + 5 * M("H2O")) and close(M("Na2CO3..7H2O(s)"), M("Na2CO3") + 7 * M("H2O")) and close(M("CuSO4..5H2O..2NH3"), M("CuSO4") + 5 * M("H2O") + 2 * M("NH3")))
    ob("groups_scale_with_their_multiplier", lambda: all(close(M("(H2O)%d" % k), k * M("H2O")) and close(M("Fe((CN)2)%d" % k), M("Fe") + 2 * k * (w("C") + w("N"))) for k in (1, 2, 3, 7, 12, 250)))
    # the rest of the C01 grammar, end to end (C01 proves the compositions; here the masses, as sums written by hand): square and curly groups, nested;
    # the middle dot as hydrate separator; a two-digit hydrate count; a group inside a hydrate part; decimal subscripts
    try:
        water = 2 * w("H") + w("O")
        grammar_ok = (close(M("{[Fe(CN)6]2}3"), 6 * (w("Fe") + 6 * w("C") + 6 * w("N"))) and close(M("[Fe(CN)6]-4"), w("Fe") + 6 * w("C") + 6 * w("N") + 4 * me)
                      and close(M("CuSO4\u00b75H2O"), w("Cu") + w("S") + 4 * w("O") + 5 * water)
                      and close(M("Na2CO3..10H2O"), 2 * w("Na") + w("C") + 3 * w("O") + 10 * water)
                      and close(M("Al2(SO4)3..18H2O"), 2 * w("Al") + 3 * w("S") + 12 * w("O") + 18 * water)
                      and close(M("Ca2.832Fe0.6285Mg5.395(CO3)6"), 2.832 * w("Ca") + 0.6285 * w("Fe") + 5.395 * w("Mg") + 6 * w("C") + 18 * w("O")))
        detail = ""
    except Exception as ex:
        grammar_ok, detail = False, repr(ex)[:200]
    v.prove("brackets_dot_decimals_and_nested_hydrates", grammar_ok, detail)
    ob("charge_written_in_the_formula", lambda: all(close(M(par) - M(ion), q * me) for par, ion, q in (("Fe", "Fe+3", 3), ("Fe(CN)6", "Fe(CN)6-4", -4), ("SO4", "SO4-2", -2), ("Na", "Na+", 1), ("O2", "O2-", -1))) and close(M("e-"), me))
    ob("phase_suffix_and_prefix_do_not_weigh", lambda: close(M("NaCl(s)"), M("NaCl")) and close(M("alpha-FeOOH(s)"), M("FeOOH")) and close(Species.from_formula("Na+(aq)").mass, M("Na+")))
    ob("every_element_alone", lambda: all(close(mass_from_composition({z: 1}), ram[z - 1]) and close(mass_from_composition({z: 3, 0: 2}), 3 * ram[z - 1] - 2 * me) for z in range(1, 119)))
    # 'for all 118 elements': symbol -> parser -> mass and name -> atomic number -> mass against the REFERENCE rows (no index shared with the code's tables)
    try:
        from chempy.util.periodic import atomic_number
        bad = [(z, sym) for z, sym, name, m in iupac.TABLE if not (abs(M(sym) - m) <= 1e-12 and Substance.from_formula(sym).composition == {z: 1}
                                                                   and abs(mass_from_composition({atomic_number(name): 1}) - m) <= 1e-12 and abs(M(sym + "2") - 2 * m) <= 1e-9)]
        detail = "elements whose mass through the parser / name lookup is not the reference weight: %s" % bad[:5]
    except Exception as ex:
        bad, detail = [ex], repr(ex)[:200]
    v.prove("every_symbol_through_the_parser", len(iupac.TABLE) == 118 and not bad, detail)
    def from_formula_keys():
        fr = mass_fractions({"H2": 2, "O2": 1})
        tot = 2 * M("H2") + M("O2")
        return set(fr) == {"H2", "O2"} and close(fr["H2"], 2 * M("H2") / tot) and close(fr["O2"], M("O2") / tot) and close(sum(fr.values()), 1.0) and all(x > 0 for x in fr.values())
    ob("mass_fractions_from_formula_keys", from_formula_keys)
    # the factory given by the caller makes the substances: called with the keys (and nothing else), and ITS masses are the ones used (keys that are no
    # formulas, masses that no formula has: 3*2 : 1*10 = 0.375 : 0.625); with Species.from_formula the phases do not weigh (hand sums)
    try:
        calls = []

        def factory(key):
            calls.append(key)
            return Substance(key, data={"mass": {"A": 2.0, "B": 10.0}[key]})
        fa = mass_fractions({"A": 3, "B": 1}, substance_factory=factory)
        nacl, water = w("Na") + w("Cl"), 2 * w("H") + w("O")
        fs = mass_fractions({"NaCl(s)": 1, "H2O(l)": 10}, substance_factory=Species.from_formula)
        factory_ok = (set(calls) == {"A", "B"} and set(fa) == {"A", "B"} and close(fa["A"], 0.375) and close(fa["B"], 0.625)
                      and set(fs) == {"NaCl(s)", "H2O(l)"} and close(fs["NaCl(s)"], nacl / (nacl + 10 * water)) and close(fs["H2O(l)"], 10 * water / (nacl + 10 * water)))
        detail = "factory calls %r, fractions %r, %r" % (calls, fa, fs)
    except Exception as ex:
        factory_ok, detail = False, repr(ex)[:200]
    v.prove("mass_fractions_uses_the_given_factory", factory_ok, detail)
    # molar mass = mass * (gram per mole of the units given): for a unit namespace of plain numbers (no units package involved; g/mol = 3.5), for
    # an ion (the electron term belongs to the molar mass), and - where the units package is there - in the default units, given or not
    try:
        from types import SimpleNamespace
        ns = SimpleNamespace(g=7.0, mol=2.0)
        given_ok = close(Substance.from_formula("H2O").molar_mass(ns), 3.5 * (2 * w("H") + w("O"))) and close(Substance.from_formula("Fe+3").molar_mass(ns), 3.5 * (w("Fe") - 3 * me))
        detail = ""
    except Exception as ex:
        given_ok, detail = False, repr(ex)[:200]
    v.prove("molar_mass_in_the_units_given", given_ok, detail)
    try:
        from chempy.units import default_units as u, to_unitless
        if u is None:
            raise ImportError("chempy.units has no default_units (the units package is not installed)")
        in_g_per_mol = lambda q: float(to_unitless(q, u.gram / u.mol))
        default_ok = (close(in_g_per_mol(Substance.from_formula("H2O").molar_mass()), 2 * w("H") + w("O")) and close(in_g_per_mol(Substance.from_formula("Fe+3").molar_mass()), w("Fe") - 3 * me)
                      and close(float(to_unitless(Substance.from_formula("H2O").molar_mass(u), u.kg / u.mol)), (2 * w("H") + w("O")) / 1000))
        detail = ""
    except Exception as ex:     # (also a missing units package: the default-units half would otherwise be silently without obligation)
        default_ok, detail = False, repr(ex)[:200]
    v.prove("molar_mass_in_grams_per_mole", default_ok, detail)


@harness("C14", "mass_fractions.any_mapping", functions=["chempy.chemistry:mass_fractions"], kind="data")
def _(v):
    """'mass fractions of any mixture are … proportional to coefficient times mass': the coefficients are honoured for every kind of mapping
    (dict, OrderedDict, defaultdict, read-only proxy, UserDict), only a set of keys means unit coefficients"""
    from collections import OrderedDict, defaultdict, UserDict
    from types import MappingProxyType
    from chempy.chemistry import mass_fractions, Substance
    d = {"H2O": 3, "NaCl": 1, "C2H5OH": 0.5}
    try:
        m = {k: Substance.from_formula(k).mass for k in d}
        tot = sum(d[k] * m[k] for k in d)
        want = {k: d[k] * m[k] / tot for k in d}
    except Exception as ex:         # (the masses themselves: masses_of_written_formulas) nothing to compare with - both obligations fail, the harness goes on
        v.prove("coefficients_honoured_for_every_mapping", False, detail=repr(ex)[:200])
        v.prove("set_of_keys_means_unit_coefficients", False, detail=repr(ex)[:200])
        return
    dd = defaultdict(int)
    dd.update(d)
    bad = []
    for label, arg in (("dict", dict(d)), ("OrderedDict", OrderedDict(d)), ("defaultdict", dd), ("MappingProxyType", MappingProxyType(dict(d))), ("UserDict", UserDict(d))):
        try:
            got = mass_fractions(arg)
            if set(got) != set(want) or any(abs(got[k] - want[k]) > 1e-14 for k in want):
                bad.append((label, dict(got)))
        except Exception as ex:
            bad.append((label, repr(ex)[:80]))
    v.prove("coefficients_honoured_for_every_mapping", not bad, detail=repr(bad[:2]))
    tot1 = sum(m.values())

    def unit_coefficients():
        got = mass_fractions(set(d))
        return all(abs(got[k] - m[k] / tot1) < 1e-14 for k in d)
    _each_on_its_own(v)("set_of_keys_means_unit_coefficients", unit_coefficients)


_STATES = ("(s)", "(l)", "(g)", "(aq)")


@harness("C14", "state_and_prefix_do_not_weigh", functions=["chempy.chemistry:Substance.from_formula", "chempy.chemistry:Species.from_formula", "chempy.chemistry:Substance.mass",
                                                           "chempy.chemistry:mass_fractions", "chempy.util.parsing:formula_to_composition"], kind="data")
def _(v):
    """'the mass of a substance created from a formula equals the sum over its composition ... for all 118 elements and for every formula of the C01
    grammar': a state suffix ((s), (l), (g), (aq)) or a crystal-form/radical prefix is no part of the composition, whatever letters the formula
    next to it ends or starts with - every element symbol alone, as the LAST symbol of a compound, as an ion and behind every prefix, in every
    state, weighs its reference atomic weight(s) (minus charge electron masses), through Substance and Species, and mixtures of such keys have
    the fractions of the bare formulas (expectations: the reference rows, sums written by hand)"""
    from chempy.chemistry import Substance, Species, mass_fractions
    T = iupac.TABLE
    mH = T[0][3]
    me = ELECTRON
    close = lambda a, b: abs(a - b) <= 1e-9 * max(1.0, abs(b))

    def sweep(make, cases):
        """cases: (formula, expected mass, expected composition or None); -> the ones refused or off"""
        bad = []
        for f, want, comp in cases:
            try:
                s = make(f)
                if not close(s.mass, want) or (comp is not None and dict(s.composition) != comp):
                    bad.append((f, s.mass, want))
            except Exception as ex:
                bad.append((f, repr(ex)[:60], want))
        return bad

    def report(name, bad, n):
        v.prove(name, n > 0 and not bad, detail="%d of %d formulas refused or with a mass other than the composition sum, e.g. %s" % (len(bad), n, bad[:3]))

    alone = [(sym + st, m, {z: 1}) for z, sym, nm, m in T for st in _STATES]
    report("every_element_in_every_state", sweep(Substance.from_formula, alone), len(alone))
    report("every_element_in_every_state.Species", sweep(Species.from_formula, alone), len(alone))
    # the element as the last symbol of a compound (a dihydride, written H2X), and with a subscript / a closing bracket before the suffix
    last = [("H2" + sym + st, 2 * mH + m, None) for z, sym, nm, m in T for st in _STATES]
    report("compound_ending_in_every_element_in_every_state", sweep(Substance.from_formula, last), len(last))
    closed = [(f + st, m, None) for z, sym, nm, m0 in T for st in _STATES for f, m in ((sym + "3", 3 * m0), ("(" + sym + ")2", 2 * m0), ("H2..2" + sym, 2 * mH + 2 * m0))]
    report("subscript_bracket_or_hydrate_part_before_the_state", sweep(Substance.from_formula, closed), len(closed))
    ions = [(sym + chg + st, m - q * me, {z: 1, 0: q}) for z, sym, nm, m in T for st in _STATES for chg, q in (("+", 1), ("-2", -2))]
    report("ion_of_every_element_in_every_state", sweep(Substance.from_formula, ions), len(ions))
    report("ion_of_every_element_in_every_state.Species", sweep(Species.from_formula, ions), len(ions))
    # prefixes: the crystal form (a Greek letter name and a dash) and the radical dot, before every element; with and without a state behind
    pre = [(p + sym + st, m, {z: 1}) for z, sym, nm, m in T for p, st in (("alpha-", ""), ("gamma-", "(s)"), ("epsilon-", "(s)"), ("omicron-", "(aq)"), ("omega-", "(l)"), (".", ""), (".", "(g)"))]
    report("prefix_before_every_element", sweep(Substance.from_formula, pre), len(pre))
    # mixtures whose keys carry a state: the fractions are those of the bare formulas (all 118 elements, one mole each, per state; then 2:1 pairs
    # of neighbours in the table, the heavier-numbered one doubled)
    bad = []
    tot = sum(m for z, sym, nm, m in T)
    for st in _STATES:
        try:
            fr = mass_fractions({sym + st: 1 for z, sym, nm, m in T})
            bad += [(sym + st, fr.get(sym + st)) for z, sym, nm, m in T if sym + st not in fr or not close(fr[sym + st] * tot, m)]
            for (z1, s1, n1, m1), (z2, s2, n2, m2) in zip(T, T[1:]):
                fr = mass_fractions({s1 + st: 1, s2 + st: 2}, substance_factory=Species.from_formula)
                if set(fr) != {s1 + st, s2 + st} or not close(fr[s1 + st] * (m1 + 2 * m2), m1) or not close(fr[s2 + st] * (m1 + 2 * m2), 2 * m2):
                    bad.append((s1 + st, s2 + st, dict(fr)))
        except Exception as ex:
            bad.append((st, repr(ex)[:80]))
    v.prove("mass_fractions_of_keys_with_a_state", not bad, detail="%d off, e.g. %s" % (len(bad), bad[:3]))


@harness("C14", "mass_fractions.trace_components", functions=["chempy.chemistry:mass_fractions"], kind="data")
def _(v):
    """'mass fractions of any mixture are positive, proportional to coefficient times mass and sum to one' in floating point, for mixtures whose
    amounts span many orders of magnitude: EVERY fraction - the trace component's too, wherever it stands in the mapping - is positive and equals
    coefficient * mass / total to a relative 1e-12 (the exact quotient is computed in rational arithmetic from the given masses), so no fraction
    is obtained as a remainder of the others; ratios of fractions are ratios of coefficient times mass; the sum is one to 1e-12"""
    from collections import OrderedDict
    from fractions import Fraction
    from itertools import permutations
    from chempy.chemistry import Substance, mass_fractions
    ref = {sym: m for z, sym, nm, m in iupac.TABLE}

    def check(items, substances=None, masses=None):
        """items: [(key, coefficient)] in the order of the mapping; -> description of the first deviation or None"""
        exact = {k: Fraction(c) * Fraction(masses[k]) for k, c in items}
        tot = sum(exact.values())
        try:
            got = mass_fractions(OrderedDict(items), substances) if substances is not None else mass_fractions(OrderedDict(items))
            if set(got) != set(exact):
                return "keys %r" % (sorted(got),)
            for k, c in items:
                want = exact[k] / tot
                if not got[k] > 0:
                    return "%r: fraction of %s is %r, not positive (coefficient*mass/total = %.6e)" % (items, k, got[k], float(want))
                if abs(Fraction(got[k]) - want) > want * Fraction(1, 10 ** 12):
                    return "%r: fraction of %s is %r, coefficient*mass/total = %.15e" % (items, k, got[k], float(want))
            k0 = items[0][0]
            for k, c in items[1:]:
                if abs(Fraction(got[k]) * exact[k0] - Fraction(got[k0]) * exact[k]) > Fraction(1, 10 ** 12) * Fraction(got[k]) * exact[k0]:
                    return "%r: %s and %s are not in the ratio of coefficient times mass" % (items, k0, k)
            if abs(sum(Fraction(x) for x in got.values()) - 1) > Fraction(1, 10 ** 12):
                return "%r: sum %r" % (items, sum(got.values()))
        except Exception as ex:
            return "%r: %s" % (items, repr(ex)[:100])
        return None

    # explicit masses (so nothing but mass_fractions is involved): a solvent, a solute and a trace, the trace from 1e-3 down to 1e-24 of an amount,
    # in every order of the mapping; then two components; then two traces of different size
    masses = {"solvent": 18.0, "solute": 60.0, "trace": 200.0, "trace2": 5.0}
    subst = {k: Substance(k, data={"mass": m}) for k, m in masses.items()}
    n, bad = 0, []
    for e in (3, 6, 9, 12, 15, 16, 17, 18, 21, 24):
        tr = 10.0 ** -e
        mixes = [list(p) for p in permutations([("solvent", 55.5), ("solute", 0.5), ("trace", tr)])]
        mixes += [[("solvent", 55.5), ("trace", tr)], [("trace", tr), ("solvent", 55.5)]]
        mixes += [list(p) for p in permutations([("solvent", 1.0), ("trace", tr), ("trace2", 3 * tr * tr)])]
        for items in mixes:
            n += 1
            r = check(items, subst, masses)
            if r:
                bad.append(r)
    v.prove("every_fraction_is_coefficient_times_mass_over_total", n >= 100 and not bad, detail="%d of %d mixtures off, e.g. %s" % (len(bad), n, bad[:2]))
    # the default path (substances made from the formula keys; masses: reference rows, by hand): air with its rare gases, every rotation of the mapping
    air = [("N2", 0.78084), ("O2", 0.20946), ("Ar", 0.00934), ("Xe", 8.7e-8), ("Rn", 6e-20)]
    m_air = {"N2": 2 * ref["N"], "O2": 2 * ref["O"], "Ar": ref["Ar"], "Xe": ref["Xe"], "Rn": ref["Rn"]}
    bad = [r for r in (check(air[i:] + air[:i], None, m_air) for i in range(len(air))) if r]
    v.prove("formula_keys_with_trace_gases", not bad, detail="; ".join(bad[:2]))
    # a single component is the whole: exactly one
    try:
        one = mass_fractions({"solvent": 1e-20}, subst)
        one_ok, detail = set(one) == {"solvent"} and abs(one["solvent"] - 1) <= 1e-12, repr(one)
    except Exception as ex:
        one_ok, detail = False, repr(ex)[:200]
    v.prove("single_trace_component_is_the_whole", one_ok, detail)
