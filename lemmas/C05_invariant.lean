/-
C05, general shape: if every reaction r leaves a composition key unchanged (w · ν_r = 0, where w holds the
atoms of that key per molecule of each substance and ν_r is the net stoichiometry of r), then w is a linear
invariant of the kinetic right-hand side  dc_s/dt = Σ_r rate_r · ν_{r,s}  for ANY rate vector; in general
w · (dc/dt) = Σ_r rate_r · (w · ν_r), the rate-weighted sum of the reactions' violations of that key.
The contracts prove, on the real code, that composition_balance_vectors returns these w and that
ReactionSystem.rates returns this right-hand side (fixed shapes); this lemma is the shape-independent step.
-/
import Mathlib

open Finset

theorem weighted_rhs_is_weighted_violation {R S K : Type*} [Fintype R] [Fintype S] [CommRing K]
    (w : S → K) (nu : R → S → K) (rate : R → K) :
    ∑ s, w s * (∑ r, rate r * nu r s) = ∑ r, rate r * (∑ s, w s * nu r s) := by
  simp_rw [Finset.mul_sum]
  rw [Finset.sum_comm]
  refine Finset.sum_congr rfl (fun r _ => Finset.sum_congr rfl (fun s _ => ?_))
  ring

theorem invariant_of_balanced {R S K : Type*} [Fintype R] [Fintype S] [CommRing K]
    (w : S → K) (nu : R → S → K) (rate : R → K)
    (balanced : ∀ r, ∑ s, w s * nu r s = 0) :
    ∑ s, w s * (∑ r, rate r * nu r s) = 0 := by
  rw [weighted_rhs_is_weighted_violation]
  simp [balanced]
