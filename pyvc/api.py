"""Harness API: contracts are written as dual-mode harnesses.

A harness `h(v)` declares its inputs through `v` (these are the universally quantified
variables of the contract, constrained by `v.assume` = requires), calls the *real*
function through `v.call` / `v.run`, and states the postconditions with `v.prove`.

 * symbolic mode  : inputs are z3-backed, the call interprets the real AST, every
                    `prove` is an obligation discharged by the solver on every path.
 * concrete mode  : inputs are python values (from a counter-model or a seeded sampler),
                    the call runs the real function in CPython, `prove` evaluates the same
                    condition natively (replay of counterexamples, bounded stand-ins and the
                    engine-vs-CPython differential).
"""
from __future__ import annotations

import fractions
import math
import random
import time
import traceback
import warnings

import z3

from . import sym as S
from .sym import Sym, Unsupported, Infeasible, PathAbort, cur, set_cur, to_z3, wrap, wrap_num, fresh_name
from .containers import SymSeq, SymDict, Unknown, sort_of
from .path import Session, SymbolicPath, explore
from . import spec as SP

HARNESSES = {}   # property -> list of Harness


class Harness:
    def __init__(self, prop, name, fn, functions=(), div_mode="fork", kind="unbounded", samples=40,
                 max_paths=3000, assumptions=(), allow_havoc=False, rlimit=None, expect=None, tier="quick"):
        self.prop = prop
        self.name = name
        self.fn = fn
        self.functions = list(functions)   # dotted names "chempy.x.y:Qual.name" under contract here
        self.div_mode = div_mode
        self.kind = kind                   # 'unbounded' | 'shape-bounded' | 'data'
        self.samples = samples
        self.max_paths = max_paths
        self.assumptions = list(assumptions)
        self.allow_havoc = allow_havoc
        self.rlimit = rlimit
        self.expect = expect               # obligation names that must be generated (vacuity)
        self.tier = tier

    @property
    def ident(self):
        return "%s.%s" % (self.prop, self.name)


def harness(prop, name, **kw):
    def deco(fn):
        h = Harness(prop, name, fn, **kw)
        HARNESSES.setdefault(prop, []).append(h)
        return fn
    return deco


class LoopSpec:
    def __init__(self, inv, shapes=None, variant=None, label=None):
        self.inv = inv              # inv(env, i, seq) -> condition
        self.shapes = shapes or {}
        self.variant = variant
        self.label = label
        self.used = False


class CallContract:
    """contract used at call sites instead of the callee's body"""

    def __init__(self, name, requires, result, active=True):
        self.name = name
        self.requires = requires    # (v, *args, **kw) -> condition (or None)
        self.result = result        # (v, *args, **kw) -> value (may v.assume facts about it)
        self.active = active
        self.uses = 0

    def apply(self, interp, args, kwargs):
        self.uses += 1
        p = cur()
        v = interp.session.view
        if self.requires is not None:
            p.prove("%s.callsite.%s.pre" % (interp.session.name, self.name), self.requires(v, *args, **kwargs))
        return self.result(v, *args, **kwargs)


class Outcome:
    def __init__(self, value=None, exc=None):
        self.value = value
        self.exc = exc

    @property
    def returned(self):
        return self.exc is None

    def raised(self, *types):
        return self.exc is not None and (not types or isinstance(self.exc, types))


# =====================================================================================
# symbolic view
# =====================================================================================
class SymV:
    mode = "symbolic"

    def __init__(self, harness, session, interp):
        self.h = harness
        self.session = session
        self.interp = interp
        self.path = None

    # ---- inputs
    def _bounds(self, e, lo, hi):
        if lo is not None:
            self.path.assume(e >= to_z3(lo))
        if hi is not None:
            self.path.assume(e <= to_z3(hi))

    def int(self, name, lo=None, hi=None, **kw):
        e = z3.Int(name)
        self._bounds(e, lo, hi)
        s = Sym(e)
        self.path.declare(name, s, lambda m, v: m.eval(v.e, model_completion=True).as_long())
        return s

    def real(self, name, lo=None, hi=None, pos=False, **kw):
        e = z3.Real(name)
        if not kw.get("box"):
            # proofs quantify a real variable over [lo, +inf): the upper end given in a contract is only where the native samples are drawn
            # (box=True keeps it as an assumption where a clause really is about a bounded range)
            hi = None
        self._bounds(e, lo, hi)
        if pos:
            self.path.assume(e > 0)
        s = Sym(e)
        self.path.declare(name, s, _dec_real)
        return s

    def bool(self, name):
        s = Sym(z3.Bool(name))
        self.path.declare(name, s, lambda m, v: z3.is_true(m.eval(v.e, model_completion=True)))
        return s

    def str(self, name, maxlen=None, **kw):
        e = z3.String(name)
        if maxlen is not None:
            self.path.assume(z3.Length(e) <= maxlen)
        s = Sym(e)
        self.path.declare(name, s, lambda m, v: m.eval(v.e, model_completion=True).as_string())
        return s

    def choice(self, name, options):
        """one of finitely many python values: forks (each option is its own path)"""
        for o in options[:-1]:
            if self.path.branch(z3.Bool(fresh_name(name + "=" + repr(o)[:20]))):
                self.path.declare(name, o, lambda m, v: v)
                return o
        self.path.declare(name, options[-1], lambda m, v: v)
        return options[-1]

    def dict(self, name, K="int", V="real", key_lo=None, key_hi=None, val_lo=None, val_hi=None, **kw):
        d = SymDict.fresh(name, K, V)
        k = z3.Const(fresh_name("k"), sort_of(K))
        conds = []
        if key_lo is not None:
            conds.append(k >= key_lo)
        if key_hi is not None:
            conds.append(k <= key_hi)
        if val_lo is not None:
            conds.append(z3.Select(d.val, k) >= to_z3(val_lo))
        if val_hi is not None:
            conds.append(z3.Select(d.val, k) <= to_z3(val_hi))
        if conds:
            self.path.assume(z3.ForAll([k], z3.Implies(z3.Select(d.dom, k), z3.And(*conds))))
        d.order()
        self.path.declare(name, d, _dec_dict)
        return d

    def seq(self, name, elem="real", lo=None, hi=None, maxlen=None, minlen=0, **kw):
        n = z3.Int(fresh_name(name + ".len"))
        self.path.assume(n >= minlen)
        if maxlen is not None:
            pass  # the length bound only limits sampling in concrete mode; proofs are for all lengths
        arr = z3.Const(fresh_name(name + ".at"), z3.ArraySort(z3.IntSort(), sort_of(elem)))
        j = z3.Int(fresh_name("j"))
        conds = []
        if lo is not None:
            conds.append(z3.Select(arr, j) >= to_z3(lo))
        if hi is not None:
            conds.append(z3.Select(arr, j) <= to_z3(hi))
        if conds:
            self.path.assume(z3.ForAll([j], z3.Implies(z3.And(j >= 0, j < n), z3.And(*conds))))
        from .containers import wrap_num_or
        s = SymSeq(Sym(n), lambda i: wrap_num_or(z3.Select(arr, to_z3(i))), name)
        s._arr = arr
        self.path.declare(name, s, _dec_seq)
        return s

    def fresh(self, name, kind="real"):
        """existential-free fresh value (results of contracts); not an input"""
        return Sym(z3.Const(fresh_name(name), sort_of(kind)))

    # ---- requires / ensures
    def assume(self, cond):
        self.path.assume(to_z3(cond))
        self.path.require_feasible()

    def prove(self, name, cond, detail=""):
        return self.path.prove("%s.%s" % (self.h.ident, name), cond, detail=detail)

    def cover(self, name):
        self.path.cover("%s.%s" % (self.h.ident, name))

    def eq(self, a, b, **tol):
        return a == b

    def prove_identity(self, name, a, b, **tol):
        return self.path.prove_identity("%s.%s" % (self.h.ident, name), a, b)

    def prove_nl(self, name, cond):
        return self.path.prove_nl("%s.%s" % (self.h.ident, name), cond)

    def backend(self, names=None):
        from .stubs import SymBackend
        return SymBackend(names) if names is not None else SymBackend()

    def deriv(self, f, t):
        from .realalg import derivative
        x = f(t)
        if isinstance(x, tuple):
            return tuple(Sym(z3.simplify(derivative(to_z3(c, "real"), t.e))) if isinstance(c, Sym) else 0 for c in x), x
        return (Sym(derivative(to_z3(x, "real"), t.e)) if isinstance(x, Sym) else 0), x

    def fail(self, name, detail=""):
        """reached a point that the contract forbids"""
        return self.path.prove("%s.%s" % (self.h.ident, name), False, detail=detail)

    # ---- running the real code
    def call(self, fn, *args, **kwargs):
        self._note_fn(fn)
        return self.interp.call(fn, args, kwargs)

    def run(self, fn, *args, **kwargs):
        self._note_fn(fn)
        try:
            return Outcome(value=self.interp.call(fn, args, kwargs))
        except Exception as ex:   # exceptions of the program under verification
            return Outcome(exc=ex)

    def _note_fn(self, fn):
        pass

    def getattr(self, obj, name):
        return self.interp.getattr_(obj, name)

    def invariant(self, fn, ordinal, inv, shapes=None, variant=None, label=None, where=None):
        """loop invariant for loop number `ordinal` of `fn`; with where=pred(for_node, frame, seq) the invariant is ALSO offered to any for-loop over a
        symbolic sequence that has no invariant of its own and satisfies pred (the loop may have been moved into a helper)"""
        qn = fn if isinstance(fn, str) else self.interp.qualname_of(fn)
        spec = LoopSpec(inv, shapes, variant, label or qn.split(":")[-1])
        self.interp.invariants[(qn, ordinal)] = spec
        if where is not None:
            self.interp.invariants.setdefault("@where", []).append((where, spec))

    def contract(self, fn, name, requires, result):
        key = getattr(fn, "__func__", fn)
        self.interp.call_contracts[id(key)] = CallContract(name, requires, result)
        self.interp.stub_objs[("con", id(key))] = key

    def stub(self, obj, fn):
        """model an external callable (identified by object identity) for this harness: fn(interp, *args, **kw)"""
        self.interp.register_stub(obj, fn)

    def call_tail(self, fn, after_last_assignment_to, env, returns=True):
        """run the statements of the real function `fn` that follow the last top-level assignment to the given
        variable, in the environment `env` (a mechanical slice of the real AST; what is dropped: everything before)"""
        import ast as _ast
        from .interp import func_node, Frame, source_segment
        node, filename, sha = func_node(fn)
        idx = None
        for i, st in enumerate(node.body):
            targets = []
            if isinstance(st, _ast.Assign):
                targets = st.targets
            elif isinstance(st, _ast.AugAssign):
                targets = [st.target]
            for t in targets:
                if callable(after_last_assignment_to):
                    # structural anchor: anchor(statement) -> the name the environment binds the value to (None: not the anchor)
                    nm = after_last_assignment_to(st) if isinstance(t, _ast.Name) else None
                    if nm is not None:
                        idx = i
                        if nm != t.id:
                            env = dict(env)
                            env[t.id] = env.pop(nm)
                elif isinstance(t, _ast.Name) and t.id == after_last_assignment_to:
                    idx = i
        if idx is None:
            raise Unsupported("no top-level assignment to %r in %s" % (after_last_assignment_to, fn.__qualname__))
        if callable(after_last_assignment_to):
            after_last_assignment_to = "<anchor>"
        tail = _ast.FunctionDef(name=node.name, args=_ast.arguments(posonlyargs=[], args=[], kwonlyargs=[], kw_defaults=[], defaults=[]),
                                body=node.body[idx + 1:], decorator_list=[], lineno=node.body[idx + 1].lineno, col_offset=0)
        qn = self.interp.qualname_of(fn)
        self.interp.interpreted.setdefault(qn + "[tail after last assignment to %s, line %d]" % (after_last_assignment_to, node.body[idx].lineno), source_segment(fn))
        frame = Frame(fn.__globals__, None, {}, qn, tail, filename)
        frame.locals.update(env)
        return self.interp.run_body(tail, frame)

    def override_global(self, module_name, name, value):
        """interpreted code of `module_name` sees `value` for its global `name` (e.g. default_units -> unit abstraction)"""
        from .interp import Frame
        Frame.overrides[(module_name, name)] = value

    def events(self, kind=None):
        return [e for e in self.path.events if kind is None or e[0] == kind]

    def note(self, text):
        self.path.note(text)

    def loop_index(self, fn, ordinal):
        qn = fn if isinstance(fn, str) else self.interp.qualname_of(fn)
        return self.path.ghost.get((qn, ordinal))

    def div_mode(self, mode):
        self.path.div_mode = mode

    @property
    def symbolic(self):
        return True


def _dec_real(m, v):
    r = m.eval(v.e, model_completion=True)
    if z3.is_rational_value(r):
        return fractions.Fraction(r.numerator_as_long(), r.denominator_as_long())
    if z3.is_algebraic_value(r):
        a = r.approx(20)
        return fractions.Fraction(a.numerator_as_long(), a.denominator_as_long())
    raise ValueError("non-numeric model value %s" % r)


def _dec_scalar(m, e):
    r = m.eval(e, model_completion=True)
    if z3.is_int_value(r):
        return r.as_long()
    if z3.is_rational_value(r):
        return fractions.Fraction(r.numerator_as_long(), r.denominator_as_long())
    if z3.is_algebraic_value(r):
        a = r.approx(20)
        return fractions.Fraction(a.numerator_as_long(), a.denominator_as_long())
    if z3.is_string_value(r):
        return r.as_string()
    if z3.is_true(r):
        return True
    if z3.is_false(r):
        return False
    raise ValueError("cannot decode %s" % r)


def _dec_dict(m, d):
    n, ordr, _ = d._order
    nn = m.eval(to_z3(n), model_completion=True).as_long()
    if nn > 64:
        raise ValueError("model dict too large")
    out = {}
    for i in range(nn):
        k = _dec_scalar(m, z3.Select(ordr, i))
        out[k] = _dec_scalar(m, z3.Select(d.val, z3.Select(ordr, i)))
    return out


def _dec_seq(m, s):
    nn = m.eval(to_z3(s.length), model_completion=True).as_long()
    if nn > 64:
        raise ValueError("model sequence too large")
    return [_dec_scalar(m, z3.Select(s._arr, i)) for i in range(nn)]


# =====================================================================================
# concrete view
# =====================================================================================
class ConcV:
    mode = "concrete"
    symbolic = False

    def __init__(self, harness, inputs=None, rng=None, exact=False, use_interp=None):
        self.h = harness
        self.given = inputs or {}
        self.rng = rng or random.Random(0)
        self.used = {}
        self.failed = []
        self.checked = []
        self.rejected = False
        self.exact = exact
        self._events = []
        self.use_interp = use_interp   # Interp for the engine-vs-CPython differential

    def _take(self, name, gen):
        if name in self.used:
            return self.used[name]
        if name in self.given:
            v = self.given[name]
        else:
            v = gen()
        self.used[name] = v
        return v

    def _num(self, x):
        if isinstance(x, fractions.Fraction) and not self.exact:
            return float(x) if x.denominator != 1 else int(x)
        return x

    def int(self, name, lo=None, hi=None, **kw):
        lo_ = -6 if lo is None else lo
        hi_ = (lo_ + 12) if hi is None else hi
        return int(self._take(name, lambda: self.rng.randint(lo_, hi_)))

    def real(self, name, lo=None, hi=None, pos=False, **kw):
        def gen():
            lo_ = (1e-3 if pos else -10.0) if lo is None else float(lo)
            hi_ = (lo_ + 20.0) if hi is None else float(hi)
            if self.rng.random() < 0.3:
                return fractions.Fraction(self.rng.randint(int(math.ceil(lo_ * 8)), int(math.floor(hi_ * 8))), 8) if hi_ * 8 - lo_ * 8 >= 1 else self.rng.uniform(lo_, hi_)
            return self.rng.uniform(lo_, hi_)
        v = self._take(name, gen)
        if pos and v <= 0:
            self.rejected = True
        v = self._num(v)
        if isinstance(v, int) and not isinstance(v, bool) and not self.exact:
            v = float(v)
        return v

    def bool(self, name):
        return bool(self._take(name, lambda: self.rng.random() < 0.5))

    def str(self, name, maxlen=None, alphabet="ab(1 +-", **kw):
        return self._take(name, lambda: "".join(self.rng.choice(alphabet) for _ in range(self.rng.randint(0, maxlen or 6))))

    def choice(self, name, options):
        return self._take(name, lambda: self.rng.choice(options))

    def dict(self, name, K="int", V="real", key_lo=None, key_hi=None, val_lo=None, val_hi=None, maxlen=4, keys=None, **kw):
        def gen():
            n = self.rng.randint(0, maxlen)
            out = {}
            for _ in range(n):
                if keys is not None:
                    k = self.rng.choice(keys)
                elif K == "int":
                    k = self.rng.randint(key_lo if key_lo is not None else -3, key_hi if key_hi is not None else 8)
                else:
                    k = self.rng.choice(["A", "B", "C", "D", "E", "H2O", "Na+"])
                lo_ = val_lo if val_lo is not None else -4
                hi_ = val_hi if val_hi is not None else lo_ + 8
                out[k] = self.rng.randint(int(lo_), int(hi_)) if V == "int" else self.rng.uniform(float(lo_), float(hi_))
            return out
        d = self._take(name, gen)
        return {k: self._num(v) for k, v in d.items()}

    def seq(self, name, elem="real", lo=None, hi=None, maxlen=4, minlen=0, **kw):
        def gen():
            n = self.rng.randint(minlen, max(minlen, maxlen))
            lo_ = lo if lo is not None else -4
            hi_ = hi if hi is not None else lo_ + 8
            if elem == "str":
                pool = kw.get("pool") or ["A", "B", "C", "D", "E", "H2O", "Na+"]
                return [self.rng.choice(pool) for _ in range(n)] if not kw.get("distinct") else self.rng.sample(pool, min(n, len(pool)))
            return [self.rng.randint(int(lo_), int(hi_)) if elem == "int" else self.rng.uniform(float(lo_), float(hi_)) for _ in range(n)]
        return [self._num(x) for x in self._take(name, gen)]

    def fresh(self, name, kind="real"):
        raise RuntimeError("fresh() only in contracts used at call sites")

    def assume(self, cond):
        if not cond:
            self.rejected = True
            raise _Rejected()

    def prove(self, name, cond, detail=""):
        ok = bool(cond)
        self.checked.append(name)
        if not ok:
            self.failed.append((name, detail))
        return ok

    def cover(self, name):
        pass

    def prove_lean(self, name, lean_file, theorems=()):
        """obligation discharged by the Lean 4 kernel: `lean <file>` must accept the file, the named theorems must be stated in it, and the file
        must not contain sorry / admit / axiom / native_decide / unsafe (mechanical scan)"""
        import os, re, subprocess, time as _t
        here = os.path.dirname(os.path.dirname(os.path.abspath(__file__)))
        path = os.path.join(here, lean_file)
        t0 = _t.time()
        src = open(path).read()
        body = re.sub(r"/-.*?-/", "", src, flags=re.S)
        body = re.sub(r"--.*", "", body)
        banned = [w for w in ("sorry", "admit", "axiom", "native_decide", "unsafe", "implemented_by", "extern") if re.search(r"\b%s\b" % w, body)]
        missing = [t for t in theorems if not re.search(r"\b(theorem|lemma)\s+%s\b" % re.escape(t), body)]
        detail = ""
        ok = not banned and not missing
        if banned or missing:
            detail = "banned words %s, missing theorems %s" % (banned, missing)
        else:
            try:
                r = subprocess.run(["lean", path], capture_output=True, text=True, timeout=1500, cwd=os.path.dirname(path))
                out = (r.stdout + r.stderr).strip()
                ok = r.returncode == 0 and "error" not in out and "sorry" not in out
                detail = out[-800:]
            except (OSError, subprocess.TimeoutExpired) as ex:
                ok, detail = False, "lean could not be run: %r" % (ex,)
        if not hasattr(self, "backends"):
            self.backends, self.seconds = {}, {}
        self.backends[name] = "lean"
        self.seconds[name] = _t.time() - t0
        return self.prove(name, ok, detail=detail)

    def fail(self, name, detail=""):
        self.checked.append(name)
        self.failed.append((name, detail))
        return False

    def eq(self, a, b, rel=1e-9, abs_=1e-12):
        return SP.approx_eq(a, b, rel, abs_)

    def prove_identity(self, name, a, b, rel=1e-9, abs_=1e-12):
        return self.prove(name, SP.approx_eq(float(a), float(b), rel, abs_), detail="lhs=%r rhs=%r" % (a, b))

    def prove_nl(self, name, cond):
        return self.prove(name, cond)

    def backend(self, names=None):
        import mpmath
        mpmath.mp.dps = 40
        return _MpBackend(names)

    def deriv(self, f, t):
        import mpmath
        mpmath.mp.dps = 40
        x = f(mpmath.mpf(t))
        if isinstance(x, tuple):
            return tuple(mpmath.diff(lambda tt, _i=i: f(tt)[_i], mpmath.mpf(t)) for i in range(len(x))), x
        return mpmath.diff(f, mpmath.mpf(t)), x

    def call(self, fn, *args, **kwargs):
        with warnings.catch_warnings(record=True) as w:
            warnings.simplefilter("always")
            try:
                if self.use_interp is not None:
                    return self._interp_call(fn, args, kwargs)
                return fn(*args, **kwargs)
            finally:
                self._events.extend(("warning", str(x.message)) for x in w)

    def _interp_call(self, fn, args, kwargs):
        it = self.use_interp
        qn = it.qualname_of(getattr(fn, "__func__", fn))
        it.force_interp.add(qn)
        try:
            return it.call(fn, args, kwargs)
        finally:
            it.force_interp.discard(qn)

    def run(self, fn, *args, **kwargs):
        try:
            return Outcome(value=self.call(fn, *args, **kwargs))
        except Exception as ex:
            return Outcome(exc=ex)

    def getattr(self, obj, name):
        return getattr(obj, name)

    def invariant(self, *a, **k):
        pass

    def contract(self, *a, **k):
        pass

    def events(self, kind=None):
        if self.use_interp is not None:
            ev = cur().events
            return [e for e in ev if kind is None or e[0] == kind]
        return [e for e in self._events if kind is None or e[0] == kind]

    def note(self, text):
        pass

    def loop_index(self, fn, ordinal):
        return None

    def div_mode(self, mode):
        pass


class _Rejected(BaseException):
    pass


class _MpBackend:
    """mpmath namespace restricted to the attribute set of the backend it stands for"""

    def __init__(self, names=None):
        self._names = set(names) if names is not None else None

    def __getattr__(self, name):
        import mpmath
        if name.startswith("_"):
            raise AttributeError(name)
        if self._names is not None and name not in self._names:
            raise AttributeError("backend has no attribute %r" % name)
        return getattr(mpmath, {"arctanh": "atanh"}.get(name, name))


def run_concrete(h, inputs=None, rng=None, exact=False, use_interp=None):
    """one concrete execution of a harness; returns (status, view)"""
    v = ConcV(h, inputs, rng, exact, use_interp)
    try:
        h.fn(v)
    except _Rejected:
        return "rejected", v
    except (Unsupported, Infeasible, PathAbort) as ex:
        v.error = "engine: %r" % (ex,)
        return "unsupported", v
    except Exception as ex:
        v.error = "".join(traceback.format_exception_only(type(ex), ex)).strip()
        v.tb = traceback.format_exc()
        return "error", v
    if v.rejected:
        return "rejected", v
    return ("failed" if v.failed else "ok"), v
