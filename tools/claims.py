"""Claim table from which MANIFEST.json is generated (tools/gen_manifest.py)."""
TECH = "contract-based deductive verification: VCs generated from the real functions' ASTs (pyvc), discharged by z3"
COMMON_NOTE = ("Trusted: the pyvc interpreter/VC generator, z3, CPython's ast; Python semantics assumptions A1-A9 (ints exact, floats as reals, dict order as ghost enumeration, modelled exception sources); "
               "bounded stand-ins (native runs of the same contracts on seeded inputs) are reported separately and never counted as proved. ")

CLAIMS = {
    "C14": {
        "category": "proof",
        "technique": TECH + "; tables as data obligations; exhaustive name lookup",
        "text": "mass_from_composition proved equal to the spec fold for every composition (loop invariant, unbounded); Substance.mass/charge proved against it modularly; "
                "mass_fractions proved (value, positivity, proportionality, sum=1) for every mass/coefficient at 1-4 species (shape-bounded); "
                "the 118-row table, groups/periods and the electron mass are checked as data obligations against a reference snapshot; atomic_number exhaustively on all case variants.",
        "note": COMMON_NOTE + "Reference table spec/iupac.py is a hand-spot-checked snapshot of the pinned table (detects any later change, not an independent IUPAC derivation). Floats as reals (A2).",
    },
}

_PENDING = "contracts for this property are not built yet in this round (work in progress; see DESIGN.md section 7 for the plan)"
NOT_APPLICABLE = {p: _PENDING for p in ["C%02d" % i for i in range(1, 21)] if p not in CLAIMS}

NOTES = ("All checks are `./vcheck <ID>`; exit 0 held / 1 VIOLATION (counter-model replayed on the real code, or a baseline-discharged havoc-free obligation now failing: no-failing-input-found) / "
         "2 UNDECIDED (solver unknown, unsupported construct, stale contract) / 3 checker error. Obligations are tagged unbounded / shape-bounded / data in every evidence file.")
