"""Bounded stand-in for C05: only balanced reactions are admitted; composition vectors are exact invariants.

Generator (seeded): systems of 3..6 substances that are formula-defined (Substance.from_formula over seven small
chemical families: water/radicals, iron, carbonate, ammonia, chlorine, uranium, sulfate) and/or explicitly composed
(Substance(name, composition={...}): adducts of two other substances, or random vectors over rarely used
elements 3, 26, 92, 118 and charge -2..2).  Balanced reactions are integer vectors of the null space of the
composition matrix (own exact Fraction elimination), decorated with catalysts and inactive parts (which do not
change the net stoichiometry), 1..4 structurally distinct reactions per system.

ORACLE (from the statement): a reaction is balanced iff for EVERY composition key k occurring in any substance
(elements and charge key 0)  sum_s comp_s.get(k, 0) * net(r, s) == 0,  net = prod + inact_prod - reac - inact_reac.
The compositions are the data carried by the substances (for formula-defined ones the attribute is read, the
balance arithmetic is the stand-in's own).

Stand-ins
  admission     ReactionSystem(...) with default checks is accepted iff every reaction is balanced.  Unbalanced
                variants: one coefficient of one reaction +-1 (any of reac/prod/inact_reac/inact_prod; the first,
                a middle or the last reaction), or ONE composition key of one participating substance changed by
                +-1 (exactly one violated key; key 0 = charge only in about a third of them; positive and negative
                net).  Expected: ValueError whose message contains one of the violated keys as a token; the
                non-throwing rsys.check_balance() of the same system built with checks=() returns balanced?.
  balance_vectors  composition_balance_vectors() == ([[comp_s.get(k,0) for s in substances] for k in sorted keys],
                sorted keys);  A @ rsys.rates(c) == 0 exactly for random Fraction concentrations/rate constants;
                get_odesys(...).linear_invariants and _create_odesys(...).linear_invariants equal A, names str(k).
  linear_dependencies  extra['linear_dependencies'](preferred)(x0, y0, p0, sympy) for preferred = None and random
                subsets: every offered expression y_k = e_k(other y, y0) holds exactly on the invariant manifold
                y = y0 + N^T xi (random Fractions y0, xi); for preferred=None the number of eliminated variables is
                rank(A) and substituting them makes A y - A y0 vanish identically.  A ValueError ("Failed to obtain
                analytic expression") is a refusal, not an offer, and is not counted.
  integration   (a few in quick, more in thorough) odesys.integrate (scipy backend of pyodesys, atol=rtol=1e-9) from a
                random positive state: |A y(t) - A y0| <= 1e-6 * (1 + sum_j |A_ij| y0_j) at every output time.
"""
from __future__ import annotations

import json
import random
import re
from collections import OrderedDict
from fractions import Fraction
from math import gcd

from . import _rsys as G

N_QUICK, N_THOROUGH = 320, 8000
NAMES = ("admission", "balance_vectors", "linear_dependencies", "integration")

FAMILIES = [
    ["H2O", "H+", "OH-", "H2", "O2", "H2O2", "HO2", "O2-", "HO2-", "e-", "H3O+", "O3", "OH", "H", "O"],
    ["Fe+2", "Fe+3", "FeOH+2", "H2O", "H+", "OH-", "e-", "O2", "H2O2", "OH"],
    ["CO2", "HCO3-", "CO3-2", "H2CO3", "H2O", "H+", "OH-", "H3O+"],
    ["NH3", "NH4+", "H+", "H2O", "OH-", "H3O+"],
    ["Cl-", "HCl", "Na+", "NaCl", "NaOH", "Cl2", "HOCl", "OCl-", "H+", "OH-", "H2O", "e-"],
    ["UO2+2", "U+4", "H2O", "H+", "e-", "O2", "H3O+", "Og"],
    ["SO4-2", "HSO4-", "H2SO4", "H+", "OH-", "H2O", "H3O+"],
]
RARE = [3, 26, 92, 118]


# ----------------------------------------------------------------------------- exact linear algebra (own)
def nullspace_int(M, ncols):
    """integer basis of {v : M v = 0} by Fraction Gauss-Jordan elimination"""
    rows = [[Fraction(x) for x in r] for r in M]
    piv = []
    r = 0
    for c in range(ncols):
        p = next((i for i in range(r, len(rows)) if rows[i][c] != 0), None)
        if p is None:
            continue
        rows[r], rows[p] = rows[p], rows[r]
        pv = rows[r][c]
        rows[r] = [x / pv for x in rows[r]]
        for i in range(len(rows)):
            if i != r and rows[i][c] != 0:
                f = rows[i][c]
                rows[i] = [a - f * b for a, b in zip(rows[i], rows[r])]
        piv.append(c)
        r += 1
        if r == len(rows):
            break
    basis = []
    for fc in [c for c in range(ncols) if c not in piv]:
        v = [Fraction(0)] * ncols
        v[fc] = Fraction(1)
        for i, pc in enumerate(piv):
            v[pc] = -rows[i][fc]
        den = 1
        for x in v:
            den = den * x.denominator // gcd(den, x.denominator)
        iv = [int(x * den) for x in v]
        g = 0
        for x in iv:
            g = gcd(g, abs(x))
        basis.append([x // g for x in iv])
    return basis, len(piv)


# ----------------------------------------------------------------------------- case <-> chempy objects
def make_substances(sdefs):
    """list of chempy Substance objects; 'formula' ones through from_formula, the rest explicitly composed"""
    from chempy import Substance
    out = []
    for d in sdefs:
        if d["kind"] == "formula":
            out.append(Substance.from_formula(d["name"]))
        else:
            out.append(Substance(d["name"], composition={int(k): v for k, v in d["composition"].items()}))
    return out


def compositions(sdefs):
    """the composition data carried by the substances (read, not computed)"""
    return OrderedDict((s.name, dict(s.composition)) for s in make_substances(sdefs))


def all_keys(comp):
    ks = set()
    for c in comp.values():
        ks |= set(c)
    return sorted(ks)


def violated_keys(comp, rx):
    out = []
    for k in all_keys(comp):
        tot = sum(c.get(k, 0) * G.net(rx, s) for s, c in comp.items())
        if tot != 0:
            out.append((k, tot))
    return out


def build_system(case, param_mode="plain", **kw):
    """the REAL constructor call"""
    from chempy import ReactionSystem, Substance
    spec = {"subst": [d["name"] for d in case["substances"]], "rxns": case["rxns"]}
    rxns = G.build_reactions(spec, param_mode)
    if case.get("via_factory") and all(d["kind"] == "formula" for d in case["substances"]):
        return ReactionSystem(rxns, list(spec["subst"]), substance_factory=Substance.from_formula, **kw)
    return ReactionSystem(rxns, make_substances(case["substances"]), **kw)


# ----------------------------------------------------------------------------- generator
def _gen_substances(rng):
    sdefs = []
    style = rng.choice(["formula", "formula", "mixed", "mixed", "explicit"])
    if style in ("formula", "mixed"):
        fam = rng.choice(FAMILIES)
        names = rng.sample(fam, min(len(fam), rng.randint(3, 5) if style == "formula" else rng.randint(2, 4)))
        if rng.random() < 0.2:
            extra = rng.choice(rng.choice(FAMILIES))
            if extra not in names:
                names.append(extra)
        sdefs = [{"name": n, "kind": "formula"} for n in names]
        if style == "mixed":
            comp = compositions(sdefs)
            for i in range(rng.randint(1, 2)):
                a, b = rng.choice(names), rng.choice(names)
                ca, cb = comp[a], comp[b]
                m = rng.choice((1, 1, 2))
                c = {k: m * ca.get(k, 0) + cb.get(k, 0) for k in set(ca) | set(cb)}
                if rng.random() < 0.5:
                    c = {k: v for k, v in c.items() if v != 0}
                sdefs.append({"name": "X%d" % i, "kind": "explicit", "composition": {str(k): v for k, v in sorted(c.items())}})
    else:
        els = rng.sample(RARE, rng.randint(1, 3))
        base = []
        n = rng.randint(3, 6)
        for i in range(n):
            if base and len(base) >= 2 and rng.random() < 0.6:
                a, b = rng.choice(base), rng.choice(base)
                m = rng.choice((1, 2))
                c = {k: m * a.get(k, 0) + b.get(k, 0) for k in set(a) | set(b)}
            else:
                c = {e: rng.randint(0, 3) for e in els}
                if not any(c.values()):
                    c[els[0]] = 1
                q = rng.choice((0, 0, 1, -1, 2, -2))
                if q or rng.random() < 0.3:
                    c[0] = q
            base.append(c)
            sdefs.append({"name": "S%d" % i, "kind": "explicit", "composition": {str(k): v for k, v in sorted(c.items())}})
    rng.shuffle(sdefs)
    return sdefs


def _decorate(rng, vec, names):
    """integer null-space vector -> reaction dicts with the same NET stoichiometry (catalysts, inactive parts)"""
    rx = {"reac": {}, "prod": {}, "inact_reac": {}, "inact_prod": {}}
    for s, v in zip(names, vec):
        if v < 0:
            n = -v
            if n >= 2 and rng.random() < 0.25:
                rx["inact_reac"][s] = 1
                n -= 1
            elif rng.random() < 0.08:
                rx["inact_reac"][s], n = n, 0
            if n:
                rx["reac"][s] = n
        elif v > 0:
            n = v
            if n >= 2 and rng.random() < 0.25:
                rx["inact_prod"][s] = 1
                n -= 1
            elif rng.random() < 0.08:
                rx["inact_prod"][s], n = n, 0
            if n:
                rx["prod"][s] = n
    if rng.random() < 0.3:   # catalyst: same amount on both sides
        s = rng.choice(names)
        a, b = rng.choice((("reac", "prod"), ("reac", "inact_prod"), ("inact_reac", "prod")))
        rx[a][s] = rx[a].get(s, 0) + 1
        rx[b][s] = rx[b].get(s, 0) + 1
    return rx


def gen_balanced(rng):
    """-> case with a balanced system, or None if the sampled substances admit no reaction"""
    for _ in range(60):
        sdefs = _gen_substances(rng)
        if len({d["name"] for d in sdefs}) != len(sdefs):
            continue
        comp = compositions(sdefs)
        names = list(comp)
        if any(not any(v for k, v in c.items() if k != 0) for c in comp.values()) and rng.random() < 0.7:
            pass  # charge-only substances (e-) are welcome, just noted
        keys = all_keys(comp)
        M = [[comp[s].get(k, 0) for s in names] for k in keys]
        basis, rank = nullspace_int(M, len(names))
        if not basis:
            continue
        rxns, seen = [], set()
        for _ in range(12):
            if len(rxns) >= rng.choice((1, 2, 2, 3, 4)):
                break
            coef = [rng.choice((-2, -1, -1, 0, 1, 1, 2)) for _ in basis]
            vec = [sum(a * b[i] for a, b in zip(coef, basis)) for i in range(len(names))]
            if not any(vec) or max(abs(x) for x in vec) > 4:
                continue
            rx = _decorate(rng, vec, names)
            if sum(rx["reac"].values()) > 5:
                continue
            sk = G.struct_key(rx)
            if sk in seen:
                continue
            seen.add(sk)
            rx["k"] = G.rand_num(rng, rng.choice("iQ"))
            rxns.append(rx)
        if not rxns or all(not rx["reac"] for rx in rxns):
            continue   # pyodesys refuses systems whose every rate is a bare number (outside the domain, see C04)
        return {"substances": sdefs, "rxns": rxns, "via_factory": rng.random() < 0.5}
    return None


def unbalance(rng, case):
    """-> (new case, description) with at least one reaction unbalanced, or None"""
    import copy
    comp = compositions(case["substances"])
    names = list(comp)
    for _ in range(40):
        c2 = copy.deepcopy(case)
        nr = len(c2["rxns"])
        ri = rng.choice([nr - 1, nr - 1, rng.randrange(nr), 0])
        if rng.random() < 0.5:
            # one coefficient +-1
            rx = c2["rxns"][ri]
            side = rng.choice(["reac", "prod", "inact_reac", "inact_prod"])
            s = rng.choice(names)
            d = rng.choice((1, -1))
            v = rx[side].get(s, 0) + d
            if v < 0:
                continue
            if v == 0:
                del rx[side][s]
            else:
                rx[side][s] = v
            if not any(G.net(rx, x) for x in names):
                continue
            if len({G.struct_key(r) for r in c2["rxns"]}) != nr:
                continue
            what = "coefficient of %s in %s of reaction %d changed by %+d" % (s, side, ri, d)
        else:
            # one composition key of one participating substance +-1 (exactly one key violated)
            rx = c2["rxns"][ri]
            part = [s for s in names if G.net(rx, s) != 0]
            s = rng.choice(part)
            keys = all_keys(comp)
            k = 0 if rng.random() < 0.35 else rng.choice(keys + [99])
            d = rng.choice((1, -1))
            newc = dict(comp[s])
            if k != 0 and newc.get(k, 0) + d < 0:
                d = 1
            newc[k] = newc.get(k, 0) + d
            if newc[k] == 0 and rng.random() < 0.5:
                del newc[k]
            if not any(v for kk, v in newc.items() if kk != 0) and not newc.get(0):
                continue
            for sd in c2["substances"]:
                if sd["name"] == s:
                    sd["kind"] = "explicit"
                    sd["composition"] = {str(kk): v for kk, v in sorted(newc.items())}
            c2["via_factory"] = False
            what = "composition key %d of %s changed by %+d" % (k, s, d)
        comp2 = compositions(c2["substances"])
        if any(violated_keys(comp2, r) for r in c2["rxns"]):
            return c2, what
    return None


def gen_case(rng):
    base = None
    while base is None:
        base = gen_balanced(rng)
    case = {"base": base, "variant": None, "what": "balanced"}
    if rng.random() < 0.55:
        ub = unbalance(rng, base)
        if ub is not None:
            case["variant"], case["what"] = ub
    names = [d["name"] for d in base["substances"]]
    ns = len(names)
    case["conc"] = {s: G.rand_num(rng, "Q") for s in names}
    case["y0"] = {s: G.rand_num(rng, "Q") for s in names}
    case["xi"] = [["Q", "%d/%d" % (rng.randint(-9, 9), rng.randint(1, 7))] for _ in base["rxns"]]
    prefs = [None]
    for _ in range(2):
        m = rng.randint(1, max(1, ns - 1))
        prefs.append(rng.sample(names, m))
    case["preferred"] = prefs
    case["c0f"] = {s: round(rng.uniform(0.05, 2.0), 3) for s in names}
    case["kf"] = [round(10 ** rng.uniform(-1, 1), 3) for _ in base["rxns"]]
    case["tend"] = round(10 ** rng.uniform(-1, 0.5), 3)
    return case


# ----------------------------------------------------------------------------- checks
def check_admission(case):
    sysdef = case["variant"] or case["base"]
    comp = compositions(sysdef["substances"])
    viol = [(i, violated_keys(comp, rx)) for i, rx in enumerate(sysdef["rxns"])]
    bad = [(i, v) for i, v in viol if v]
    try:
        build_system(sysdef)
        accepted, msg, exc = True, None, None
    except ValueError as e:
        accepted, msg, exc = False, str(e), None
    except Exception as e:
        accepted, msg, exc = False, str(e), type(e).__name__
    if exc is not None:
        return ["ReactionSystem(...) raised %s: %s (expected %s)" % (exc, msg, "ValueError" if bad else "acceptance")]
    # the non-throwing form of the same check, on a system built without checks
    ok, res = G.call(lambda: build_system(sysdef, checks=()).check_balance())
    if not ok or res is not (not bad):
        return ["check_balance() on the unchecked system -> %s, expected %s (violated: %s)" % (res, not bad, bad)]
    if not bad:
        return [] if accepted else ["balanced system (%s) rejected: %s" % (case["what"], msg)]
    if accepted:
        return ["unbalanced system accepted (%s): violated (key, net) per reaction %s" % (case["what"], bad)]
    keys = {k for _, v in bad for k, _ in v}
    if not any(re.search(r"(?<![\w.])%s(?![\w.])" % re.escape(str(k)), msg) for k in keys):
        return ["ValueError message %r names none of the violated keys %s" % (msg, sorted(keys))]
    return []


def check_balance_vectors(case):
    from chempy.kinetics.ode import get_odesys, _create_odesys
    sysdef = case["base"]
    comp = compositions(sysdef["substances"])
    names = list(comp)
    keys = all_keys(comp)
    expA = [[comp[s].get(k, 0) for s in names] for k in keys]
    out = []
    ok, rsys = G.call(lambda: build_system(sysdef))
    if not ok:
        return ["balanced system rejected: " + rsys]
    ok, res = G.call(lambda: rsys.composition_balance_vectors())
    if not ok:
        return ["composition_balance_vectors raised " + res]
    A, ck = res
    if list(ck) != keys:
        out.append("composition keys %s, expected sorted union %s" % (list(ck), keys))
    if [list(r) for r in A] != expA:
        out.append("balance matrix %s, expected rows=keys, cols=substances %s" % ([list(r) for r in A], expA))
    if out:
        return out
    # exact invariance of the REAL right-hand side
    c = {s: G.exact(v) for s, v in case["conc"].items()}
    ok, rates = G.call(lambda: rsys.rates(dict(c)))
    if not ok:
        return ["rates raised " + rates]
    for k, row in zip(ck, A):
        tot = sum((a * rates[s] for a, s in zip(row, names)), Fraction(0))
        if tot != 0:
            out.append("row for key %s is not an invariant: sum_s A[k][s]*rate[s] = %s at c=%s" % (k, tot, {s: str(v) for s, v in c.items()}))
    # handed to the ODE systems unchanged
    ok, res = G.call(lambda: get_odesys(rsys))
    if not ok:
        out.append("get_odesys raised " + res)
    else:
        li = res[0].linear_invariants
        li = None if li is None else [[int(x) for x in r] for r in (li.tolist() if hasattr(li, "tolist") else li)]
        if li != expA:
            out.append("get_odesys(...).linear_invariants = %s, expected %s" % (li, expA))
        if list(res[0].linear_invariant_names or []) != [str(k) for k in keys]:
            out.append("get_odesys(...).linear_invariant_names = %s, expected %s" % (res[0].linear_invariant_names, [str(k) for k in keys]))
    ok, res = G.call(lambda: _create_odesys(build_system(sysdef, "named")))
    if not ok:
        out.append("_create_odesys raised " + res)
    else:
        li = res[0].linear_invariants
        li = None if li is None else [[int(x) for x in r] for r in (li.tolist() if hasattr(li, "tolist") else li)]
        if li != expA:
            out.append("_create_odesys(...).linear_invariants = %s, expected %s" % (li, expA))
    return out


def check_linear_dependencies(case):
    """-> (number of offers checked, details)"""
    import sympy
    from chempy.kinetics.ode import get_odesys
    sysdef = case["base"]
    comp = compositions(sysdef["substances"])
    names = list(comp)
    keys = all_keys(comp)
    A = [[comp[s].get(k, 0) for s in names] for k in keys]
    _, rank = nullspace_int(A, len(names))
    out, offers = [], 0
    ok, res = G.call(lambda: get_odesys(build_system(sysdef)))
    if not ok:
        return 0, ["get_odesys raised " + res]
    odesys, extra = res
    if extra.get("linear_dependencies") is None:
        return 0, ["extra['linear_dependencies'] is None although every substance has a composition"]
    y0 = {s: G.exact(v) for s, v in case["y0"].items()}
    xi = [G.exact(v) for v in case["xi"]]
    y = {s: y0[s] + sum((G.net(rx, s) * x for rx, x in zip(sysdef["rxns"], xi)), Fraction(0)) for s in names}
    dep = {s: odesys.dep[i] for i, s in enumerate(names)}
    y0sym = {s: sympy.Symbol("y0_%d" % i) for i, s in enumerate(names)}
    for pref in case["preferred"]:
        try:
            ex = extra["linear_dependencies"](None if pref is None else list(pref))(None, {dep[s]: y0sym[s] for s in names}, None, sympy)
        except ValueError as e:
            if pref is None:
                out.append("linear_dependencies(None) refused: %s" % e)
            continue      # a refusal is not an offer
        except Exception as e:
            out.append("linear_dependencies(%s) raised %s: %s" % (pref, type(e).__name__, e))
            continue
        offers += 1
        elim = {}
        for sym, e in ex.items():
            s = [n for n in names if dep[n] == sym]
            if len(s) != 1:
                out.append("linear_dependencies(%s): key %s is not a dependent variable" % (pref, sym))
                continue
            elim[s[0]] = e
        if pref is not None and set(elim) != set(pref):
            out.append("linear_dependencies(%s) eliminated %s" % (pref, sorted(elim)))
        sub = {dep[s]: G.to_sympy(y[s]) for s in names}
        sub.update({y0sym[s]: G.to_sympy(y0[s]) for s in names})
        for s, e in elim.items():
            val = sympy.sympify(e).subs(sub)
            if sympy.simplify(val - G.to_sympy(y[s])) != 0:
                out.append("linear_dependencies(%s): expression for %s = %s gives %s on the invariant manifold, expected y[%s] = %s (y0=%s, xi=%s)"
                           % (pref, s, e, val, s, y[s], {k: str(v) for k, v in y0.items()}, [str(x) for x in xi]))
        if pref is None:
            if len(elim) != rank:
                out.append("linear_dependencies(None) eliminated %d variables, rank of the composition matrix is %d" % (len(elim), rank))
            else:
                rep = {dep[s]: e for s, e in elim.items()}
                for k, row in zip(keys, A):
                    d = sum(a * (dep[s] - y0sym[s]) for a, s in zip(row, names))
                    for _ in range(len(names)):
                        d = sympy.expand(sympy.sympify(d).subs(rep))
                    if d != 0:
                        out.append("linear_dependencies(None): after elimination row %s of A y - A y0 = %s, expected 0" % (k, d))
    return offers, out


def check_integration(case):
    import numpy as np
    from chempy.kinetics.ode import get_odesys
    sysdef = {"substances": case["base"]["substances"], "via_factory": False,
              "rxns": [dict(rx, k=["f", kf]) for rx, kf in zip(case["base"]["rxns"], case["kf"])]}
    comp = compositions(sysdef["substances"])
    names = list(comp)
    keys = all_keys(comp)
    A = np.array([[comp[s].get(k, 0) for s in names] for k in keys], dtype=float)
    ok, res = G.call(lambda: get_odesys(build_system(sysdef)))
    if not ok:
        return ["get_odesys raised " + res]
    odesys = res[0]
    c0 = np.array([case["c0f"][s] for s in names])
    tout = np.linspace(0, case["tend"], 9)
    try:
        r = odesys.integrate(tout, dict(zip(names, c0)), atol=1e-9, rtol=1e-9, nsteps=20000)
    except RuntimeError:
        # the delegated solver gave up (e.g. finite-time blow-up: a species consumed only as an INACTIVE reactant is
        # driven negative); not a statement about conservation -> not counted
        return None
    except Exception as e:
        return ["integrate raised %s: %s" % (type(e).__name__, e)]
    yout = np.asarray(r.yout, dtype=float)
    if not r.info.get("success", True) or not np.all(np.isfinite(yout)) or yout.shape != (len(tout), len(names)):
        return None
    tol = 1e-6 * (1 + np.abs(A) @ c0)
    dev = np.abs(yout @ A.T - A @ c0)
    out = []
    for i, k in enumerate(keys):
        if dev[:, i].max() > tol[i]:
            out.append("integration: invariant of key %s drifts by %.3g (> %.3g) from c0=%s, k=%s, t<=%s" % (k, dev[:, i].max(), tol[i], case["c0f"], case["kf"], case["tend"]))
    return out


def _sysstr(sysdef):
    return G.spec_str({"subst": [d["name"] for d in sysdef["substances"]], "rxns": sysdef["rxns"]}) + \
        " explicit=" + json.dumps({d["name"]: d["composition"] for d in sysdef["substances"] if d["kind"] == "explicit"}, sort_keys=True)


def _work(args):
    seed, lo, hi, n_int = args
    res = []
    for i in range(lo, hi):
        rng = random.Random(G.case_seed(seed, "C05", i))
        case = gen_case(rng)
        r = {"admission": check_admission(case)}
        r["balance_vectors"] = check_balance_vectors(case)
        r["offers"], r["linear_dependencies"] = check_linear_dependencies(case)
        r["integration"] = check_integration(case) if i < n_int else None
        res.append((i, case, r))
    return res


def run(tier, seed):
    n = N_QUICK if tier == "quick" else N_THOROUGH
    n_int = 48 if tier == "quick" else 1500
    import chempy.kinetics.ode  # noqa: F401
    import pyodesys.symbolic    # noqa: F401
    step = 12 if tier == "quick" else 50
    chunks = [(seed, lo, min(lo + step, n), n_int) for lo in range(0, n, step)]
    import multiprocessing as mp
    with mp.get_context("fork").Pool(min(16, len(chunks))) as pool:
        parts = pool.map(_work, chunks)
    results = sorted((r for p in parts for r in p), key=lambda t: t[0])
    ev = {nme: 0 for nme in NAMES}
    viol = {nme: [] for nme in NAMES}
    distinct = {nme: set() for nme in NAMES}
    stats = {"balanced": 0, "coefficient": 0, "one_key": 0, "charge_only": 0}
    samples = []
    for i, case, r in results:
        kb = json.dumps(case["base"], sort_keys=True)
        ka = json.dumps(case["variant"] or case["base"], sort_keys=True)
        w = case["what"]
        stats["balanced"] += w == "balanced"
        stats["coefficient"] += w.startswith("coefficient")
        stats["one_key"] += w.startswith("composition key")
        stats["charge_only"] += w.startswith("composition key 0 ")
        if i < 4:
            samples.append({"what": w, "system": _sysstr(case["variant"] or case["base"])})
        ev["admission"] += 1
        distinct["admission"].add(ka)
        ev["balance_vectors"] += 1
        distinct["balance_vectors"].add(kb)
        ev["linear_dependencies"] += r["offers"]
        if r["offers"]:
            distinct["linear_dependencies"].add(kb)
        if r["integration"] is not None:   # None: not run, or the delegated solver gave up
            ev["integration"] += 1
            distinct["integration"].add(kb)
        for nme in NAMES:
            for d in (r[nme] or [])[:2]:
                sysdef = case["variant"] if (nme == "admission" and case["variant"]) else case["base"]
                viol[nme].append({"inputs": case, "detail": "%s   [system: %s]" % (d, _sysstr(sysdef))})
    bound = ("%d seeded cases: 3..6 substances (formula-defined from 7 families / explicit adducts / random vectors over elements %s and charge), "
             "1..4 reactions from the integer null space (|coefficient| <= 4, active order <= 5) with catalysts and inactive parts; "
             "%d balanced, %d with one coefficient changed, %d with exactly one composition key changed (of these %d charge only)"
             % (n, RARE, stats["balanced"], stats["coefficient"], stats["one_key"], stats["charge_only"]))
    rules = {
        "admission": "ReactionSystem(rxns, substances) with default checks accepted iff every reaction balanced in every key incl. charge (own oracle); "
                     "otherwise ValueError whose message contains a violated key as a token",
        "balance_vectors": "composition_balance_vectors() equals ([[comp_s.get(k,0)]], sorted keys) exactly; A @ rsys.rates(c) == 0 exactly at a random "
                           "Fraction state; linear_invariants of get_odesys and _create_odesys equal A",
        "linear_dependencies": "each offered elimination (preferred=None and two random subsets per system) reproduces y_k exactly on y = y0 + N^T xi; "
                               "preferred=None eliminates rank(A) variables and makes A y - A y0 vanish identically; evaluations = offers checked",
        "integration": "odesys.integrate (pyodesys scipy backend, atol=rtol=1e-9, 9 output times, t_end 0.1..3, k 0.1..10, c0 0.05..2): "
                       "|A y(t) - A y0| <= 1e-6*(1+|A| y0); runs where the solver reports failure are ignored",
    }
    return {"standins": [
        {"name": nme, "rule": rules[nme], "bound": bound, "evaluations": ev[nme], "distinct": len(distinct[nme]),
         "exhaustive": False, "samples": samples, "violations": viol[nme][:20]} for nme in NAMES]}


def replay(case):
    inp = case["inputs"]
    name = case.get("name")
    if name == "admission":
        out = check_admission(inp)
    elif name == "balance_vectors":
        out = check_balance_vectors(inp)
    elif name == "linear_dependencies":
        out = check_linear_dependencies(inp)[1]
    else:
        out = check_integration(inp)
    if out:
        return False, "; ".join(out[:3])
    return True, "stand-in %s holds for this system" % name
