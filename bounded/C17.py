"""Bounded stand-ins for C17: closed-form integrated rate laws solve their rate equations from the given start.

Oracle (written from the docstrings / property text, not from the code):

  dimerization_irrev(t, kf, initial_C, P0, t0)   2 A -> P      dC/dt = -2 kf C^2,                 C(t0) = initial_C
  pseudo_irrev (t, kf, prod, major, minor)       pseudo 1st    dx/dt = kf*major*(minor-(x-prod)),  x(0) = prod
  pseudo_rev   (t, kf, kb, prod, major, minor)                 dx/dt = kf*major*(minor-(x-prod)) - kb*x
  binary_irrev (t, kf, prod, major, minor)       A + B -> C    dx/dt = kf*(major-(x-prod))*(minor-(x-prod))
  binary_rev   (t, kf, kb, prod, major, minor)   A + B <-> C   dx/dt = kf*(major-(x-prod))*(minor-(x-prod)) - kb*x
  unary_irrev_cstr (t, k, r, p, fr, fp, fv)      A -> B        dA/dt = fv*(fr-A) - k*A,     dB/dt = fv*(fp-B) + k*A,       (A,B)(0) = (r,p)
  binary_irrev_cstr(t, k, r, p, fr, fp, fv, n)   2 A -> n B    dA/dt = fv*(fr-A) - 2*k*A^2, dB/dt = fv*(fp-B) + n*k*A^2,  (A,B)(0) = (r,p)

Each case is one function at one random *rational* parameter point (exact sympy Rationals, time kept symbolic, then
differentiated by sympy and evaluated to 60 digits).  Three stand-ins are reported from the same cases:

  ode       |d/dt x - rhs(x)| <= 1e-40 * (sum of |terms of rhs| + |dx/dt|)       (50+ digits)
  init      |x(t=0) - stated initial concentration| <= 1e-40 * scale             (exact rationals, 60 digits)
            and the float evaluation at t = 0 with the default backend agrees to 1e-12 * scale
  backends  float evaluation with backend None (numpy), numpy, 'numpy', math, 'math', sympy, 'sympy' and a numpy time array
            equals the 60-digit reference within 1e-9 * (|ref| + scale); scale = sum of the concentrations involved
            (+ kb/kf for the reversible forms, where the closed form subtracts quantities of that size)
"""
from __future__ import annotations

import math
from fractions import Fraction

from . import _par

DIGITS = 60
ODE_TOL = 1e-40
BE_TOL = 1e-9

FUNCS = ["dimerization_irrev", "pseudo_irrev", "pseudo_rev", "binary_irrev", "binary_rev", "unary_irrev_cstr", "binary_irrev_cstr"]


# ------------------------------------------------------------------------------------------------ generation
def _frac(rng, lo_den=12, hi_num=60):
    return Fraction(rng.randint(1, hi_num), rng.randint(1, lo_den))


def _fs(q):
    return "%d/%d" % (q.numerator, q.denominator)


def _pf(s):
    return Fraction(s)


def _isqrt_frac(q, den=1000):
    """rational approximation of sqrt(q) (only used to place the initial reactant around its steady state)"""
    return Fraction(int(math.sqrt(float(q)) * den), den)


def gen_case(seed, fn, i):
    rng = _par.sub_rng(seed, "C17", fn, i)
    u = Fraction(rng.randint(1, 80), 20)            # dimensionless time 0.05 .. 4 in units of 1/(characteristic rate)
    P = {}
    if fn == "dimerization_irrev":
        kf, C0 = _frac(rng), _frac(rng)
        t0 = rng.choice([Fraction(0), _frac(rng), -_frac(rng)])
        P = {"kf": kf, "initial_C": C0, "t0": t0}
        if rng.random() < 0.5:
            P["P0"] = _frac(rng)
        t = t0 + u / (2 * kf * C0)
    elif fn in ("pseudo_irrev", "pseudo_rev", "binary_irrev", "binary_rev"):
        kf = _frac(rng)
        minor = _frac(rng)
        major = minor + _frac(rng)                 # major > minor as documented
        prod = Fraction(0) if rng.random() < 0.2 else _frac(rng)      # non-zero initial product in 80 % of the cases
        P = {"kf": kf, "prod": prod, "major": major, "minor": minor}
        rate = kf * major
        if fn.endswith("_rev"):
            kb = _frac(rng)
            P["kb"] = kb
            rate = kf * (major + minor) + kb
        t = u / rate
    else:
        k, fr, fv = _frac(rng), _frac(rng), _frac(rng)
        fp = Fraction(0) if rng.random() < 0.25 else _frac(rng)
        p = Fraction(0) if rng.random() < 0.25 else _frac(rng)
        if fn == "unary_irrev_cstr":
            ss = fr * fv / (fv + k)
            rate = fv + k
        else:
            disc = _isqrt_frac(fv * (fv + 8 * k * fr))
            ss = (disc - fv) / (4 * k)               # ~ positive root of 2k A^2 + fv A - fv fr = 0
            if ss <= 0:
                ss = fr / 2
            rate = max(disc, fv)
        mode = rng.choice(["above", "above", "below", "far_above", "at", "tiny"])
        factor = {"above": 1 + _frac(rng, 8, 16), "far_above": 5 + _frac(rng), "below": Fraction(rng.randint(1, 9), 10),
                  "at": Fraction(1), "tiny": Fraction(1, rng.randint(50, 5000))}[mode]
        r = ss * factor
        P = {"k": k, "r": r, "p": p, "fr": fr, "fp": fp, "fv": fv}
        if fn == "binary_irrev_cstr":
            n = rng.choice([None, 1, 2, 3])
            if n is not None:
                P["n"] = Fraction(n)
        t = u / rate
    return {"fn": fn, "params": {k: _fs(v) for k, v in sorted(P.items())}, "t": _fs(t)}


# ------------------------------------------------------------------------------------------------ oracle
def _rhs_terms(fn, P, x):
    """Right-hand side of the documented rate equation as a list (one per returned component) of lists of terms."""
    g = P.get
    if fn == "dimerization_irrev":
        return [[-2 * g("kf") * x[0] ** 2]]
    if fn in ("pseudo_irrev", "pseudo_rev"):
        y = x[0] - g("prod")
        terms = [g("kf") * g("major") * g("minor"), -g("kf") * g("major") * y]
        if fn == "pseudo_rev":
            terms.append(-g("kb") * x[0])
        return [terms]
    if fn in ("binary_irrev", "binary_rev"):
        y = x[0] - g("prod")
        terms = [g("kf") * g("major") * g("minor"), -g("kf") * (g("major") + g("minor")) * y, g("kf") * y * y]
        if fn == "binary_rev":
            terms.append(-g("kb") * x[0])
        return [terms]
    A, B = x
    fv, fr, fp, k = g("fv"), g("fr"), g("fp"), g("k")
    if fn == "unary_irrev_cstr":
        return [[fv * fr, -fv * A, -k * A], [fv * fp, -fv * B, k * A]]
    n = g("n", 1)
    return [[fv * fr, -fv * A, -2 * k * A * A], [fv * fp, -fv * B, n * k * A * A]]


def _initial(fn, P):
    if fn == "dimerization_irrev":
        return [P["initial_C"]]
    if fn.endswith("cstr"):
        return [P["r"], P["p"]]
    return [P["prod"]]


def _scale(fn, P):
    if fn == "dimerization_irrev":
        return P["initial_C"]
    if fn.endswith("cstr"):
        return P["r"] + P["p"] + P["fr"] + P["fp"]
    s = P["prod"] + P["major"] + P["minor"]
    if "kb" in P:
        s += P["kb"] / P["kf"]
    return s


def _call(fn, t, P, conv, backend="__none__"):
    from chempy.kinetics import integrated
    f = getattr(integrated, fn)
    kw = {k: (int(v) if k == "n" else conv(v)) for k, v in P.items()}
    if fn == "dimerization_irrev":
        res = f(t, **kw)
    elif backend == "__none__":
        res = f(t, **kw)
    else:
        res = f(t, backend=backend, **kw)
    return list(res) if isinstance(res, tuple) else [res]


def eval_case(case):
    """returns {"ode": (ok, detail, nontrivial), "init": (...), "backends": (...)}"""
    import sympy
    import numpy
    fn = case["fn"]
    P = {k: _pf(v) for k, v in case["params"].items()}
    tq = _pf(case["t"])
    out = {}
    S = lambda q: sympy.Rational(q.numerator, q.denominator)
    N = lambda e: sympy.N(e, DIGITS)
    scale = float(_scale(fn, P))
    PS = {k: S(v) for k, v in P.items()}
    # ---- symbolic (exact rational parameters, symbolic time)
    t = sympy.Symbol("t", real=True)
    ref = None
    try:
        kw = dict(P)
        if "n" in kw:
            kw["n"] = int(kw["n"])
        from chempy.kinetics import integrated
        f = getattr(integrated, fn)
        kws = {k: (v if k == "n" else S(v)) for k, v in kw.items()}
        ex = f(t, **kws) if fn == "dimerization_irrev" else f(t, backend=sympy, **kws)
        ex = list(ex) if isinstance(ex, tuple) else [ex]
        ex = [sympy.sympify(e) for e in ex]
        dv = [N(sympy.diff(e, t).subs(t, S(tq))) for e in ex]
        xv = [N(e.subs(t, S(tq))) for e in ex]
        for v in dv + xv:
            if not (v.is_real and v.is_finite):
                raise ArithmeticError("non-real or non-finite value %s" % v)
        ref = xv
        rhs = _rhs_terms(fn, PS, xv)
        ok, det, nontriv = True, [], False
        for comp, (d, terms) in enumerate(zip(dv, rhs)):
            tot = sum(terms)
            sc = sum(abs(N(z)) for z in terms) + abs(d)
            res = abs(d - tot)
            if sc == 0:
                continue
            if abs(d) > 1e-9 * sc:
                nontriv = True
            if not (res <= ODE_TOL * sc):
                ok = False
                det.append("component %d: dx/dt = %s but rate equation gives %s (residual %.3g, scale %.3g)"
                           % (comp, sympy.N(d, 20), sympy.N(tot, 20), float(res), float(sc)))
        out["ode"] = (ok, "; ".join(det), nontriv)
    except Exception as e:  # exception of the code under test on a valid input
        out["ode"] = (False, "exception with backend=sympy, rational parameters: %s: %s" % (type(e).__name__, e), True)
    # ---- initial value
    try:
        t_init = S(P["t0"]) if fn == "dimerization_irrev" else 0
        kws = {k: (int(v) if k == "n" else S(v)) for k, v in P.items()}
        from chempy.kinetics import integrated
        f = getattr(integrated, fn)
        x0 = f(t_init, **kws) if fn == "dimerization_irrev" else f(t_init, backend=sympy, **kws)
        x0 = list(x0) if isinstance(x0, tuple) else [x0]
        ok, det = True, []
        for comp, (v, want) in enumerate(zip(x0, _initial(fn, P))):
            err = abs(N(sympy.sympify(v) - S(want)))
            if not (err <= ODE_TOL * scale):
                ok = False
                det.append("component %d at t=0 (sympy, exact): %s, stated initial concentration %s" % (comp, sympy.N(v, 20), want))
        # float, default backend
        tf = float(P["t0"]) if fn == "dimerization_irrev" else 0.0
        x0f = _call(fn, tf, P, float)
        for comp, (v, want) in enumerate(zip(x0f, _initial(fn, P))):
            v = float(v)
            if not (abs(v - float(want)) <= 1e-12 * scale):
                ok = False
                det.append("component %d at t=0 (floats, default backend): %r, stated initial concentration %r" % (comp, v, float(want)))
        out["init"] = (ok, "; ".join(det), any(w != 0 for w in _initial(fn, P)))
    except Exception as e:
        out["init"] = (False, "exception at t=0: %s: %s" % (type(e).__name__, e), True)
    # ---- backends
    ok, det = True, []
    tf = float(tq)
    if fn == "dimerization_irrev":
        bes = ["__none__"]
    else:
        bes = ["__none__", numpy, "numpy", math, "math", sympy, "sympy"]
    vals = {}
    for be in bes:
        nm = be if isinstance(be, str) else be.__name__ + "(module)"
        try:
            vals[nm] = [float(v) for v in _call(fn, tf, P, float, be)]
        except Exception as e:
            ok = False
            det.append("backend %s: %s: %s" % (nm, type(e).__name__, e))
    try:
        t_init = float(P["t0"]) if fn == "dimerization_irrev" else 0.0
        arr = numpy.array([t_init, tf, tf])
        va = _call(fn, arr, P, float)
        vals["numpy-array[1]"] = [float(numpy.asarray(v)[1]) for v in va]
        for v in va:
            if numpy.asarray(v).shape != (3,):
                ok = False
                det.append("array time input returned shape %s" % (numpy.asarray(v).shape,))
    except Exception as e:
        ok = False
        det.append("numpy array time: %s: %s" % (type(e).__name__, e))
    if ref is None and vals:
        # no symbolic reference (already reported under 'ode'): compare the backends among themselves
        ref = [sympy.Float(v) for v in sorted(vals.items())[0][1]]
    for nm, vs in sorted(vals.items()):
        for comp, (v, r) in enumerate(zip(vs, ref or [])):
            r = float(r)
            if not (abs(v - r) <= BE_TOL * (abs(r) + scale)):       # also False for nan
                ok = False
                det.append("backend %s component %d: %r, reference %r" % (nm, comp, v, r))
    out["backends"] = (ok, "; ".join(det), True)
    return out


def _work(case):
    return case, eval_case(case)


RULES = {
    "ode": ("each of the 7 functions of chempy.kinetics.integrated at seeded random rational parameter points (numerators 1..60, "
            "denominators 1..12; major = minor + positive; initial product zero in 20 % and positive in 80 % of the cases; for the "
            "stirred-tank forms the initial reactant is placed below, at, above (x1..x3) and far above (x5..x65) its steady state, "
            "feed/initial product zero or positive, n in {default,1,2,3}); time = 0.05..4 characteristic times; called with "
            "backend=sympy and exact Rationals, differentiated in t by sympy, evaluated to 60 digits; residual of the documented "
            "rate equation (oracle written from the docstrings) <= 1e-40 * (sum |rhs terms| + |dx/dt|); non-trivial = transient "
            "not yet died out (|dx/dt| > 1e-9 * scale)"),
    "init": ("same cases: value at t = 0 (t = t0 for dimerization_irrev) equals the stated initial concentration (prod; initial_C; "
             "(r, p)) to 1e-40 relative with exact rationals under sympy and to 1e-12 * scale with floats under the default "
             "backend; non-trivial = non-zero initial value"),
    "backends": ("same cases with float parameters: default backend, numpy, 'numpy', math, 'math', sympy, 'sympy' and a numpy "
                 "array of times all evaluate (no exception) and agree with the 60-digit reference within "
                 "1e-9 * (|ref| + sum of concentrations [+ kb/kf])"),
}


def run(tier, seed):
    per_fn = 90 if tier == "quick" else 4000
    cases = [gen_case(seed, fn, i) for fn in FUNCS for i in range(per_fn)]
    res = _par.pmap(_work, cases)
    cols = {k: _par.Collector(k, RULES[k], "7 functions x %d rational points, parameters in [1/12, 60], 60-digit evaluation" % per_fn)
            for k in ("ode", "init", "backends")}
    for case, out in res:
        for k, (ok, det, nontriv) in out.items():
            cols[k].add(case, ok, det, nontriv)
    return {"standins": [cols[k].result() for k in ("ode", "init", "backends")]}


def replay(case):
    out = eval_case(case["inputs"])
    ok, det, _ = out[case["name"]]
    return ok, det or "holds"
