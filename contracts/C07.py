"""C07  Equilibrium equations vanish exactly at, and only at, true equilibrium states."""
import math

from pyvc.api import harness
from pyvc import spec as SP
from pyvc.sym import Sym

META = {
    "explanation": "equilibrium_quotient, vec_dot_vec/mat_dot_vec, prodpow, EqSystem.stoichs/eq_constants/stoichs_constants (no rref), and the residual vectors NumSysLin.f, NumSysSquare.f, NumSysLog.f are proved entry by entry (Q_i/K_i - 1, conservation rows B(y - y0), A ln c - ln K, conservation of exp(y)) for every concentration, initial state and constant at fixed homogeneous systems; zero-iff-equilibrium then follows in SMT; the log form's equivalence to the product form is the standard log-product law (5.3).  Row-reduced configurations and the systems handed to pyneqsys by get_neqsys are run natively at exact equilibrium states of four systems (zero there; non-zero at states violating only a quotient / only conservation; Jacobian rank = rank A + rank B, so no independent equation is lost by a reduction); every expected matrix is hand-written (HAND); the conservation report (EqSystem.composition_conservation) of one state, of a dict and of batches of 1..2ns+1 states (also exactly ns) is B c per state for states linked to the initial one by reaction extents and for one that is not",
    "trusted_base": ["numpy object-array arithmetic (5.2)", "pyneqsys.symbolic.linear_exprs(A, x, b, rref=False) = [sum_j A_ij x_j - b_i] (5.6; read in the installed source)", "exp/log real functions (5.3)",
                     "pyneqsys SymbolicSys.f_cb / ChainedNeqSys.neqsystems / ConditionalNeqSys.neqsys_factory as the access path to what the root finder is offered", "numpy SVD for the rank of a 30-digit Jacobian"],
    "not_decided": ["row-reduced configurations (pyneqsys linear_rref, sympy rref), NumSysLinRel / NumSysLinTanh (sympy Min/Piecewise/tanh): bounded stand-in",
                    "rref_equil=True with linearly dependent reactions (system 'complex') is the known finding F-C07a, whose wildcard also covers the passing obligations of these six configurations; rref_equil=True is verified on 'ammonia', 'two_step_complexation' (spectator, dependent conservation rows) and 'ozone' (fractional exponents, pivots other than +-1, negative square-root variables)"],
    "assumptions": ["system shapes fixed per harness (symbolic: two homogeneous systems, water/ammonia and a 2:1 complexation with a spectator; native: these, the complexation without its dependent reaction, and O/O2/O3)",
                    "'homogeneous' is read as 'every species in the solution phase' (phase index 0: no suffix, or (aq)); a system written wholly with (g), (l) or (s) suffixes is taken by EqSystem as 'nothing in solution' (all-zero stoichiometry, Q = 1): observed, DESIGN section 9, outside this contract",
                    "at least one equilibrium: NumSysLin.f / NumSysSquare.f refuse a system without equilibria (broadcast error), NumSysLog.f gives the conservation rows: observed, DESIGN section 9",
                    "states given per substance as a dict of equally long ARRAYS are refused by as_per_substance_array unless their length equals the number of substances, in which case they are read state-major (wrong totals): observed on the pinned tree, not required either way here (report /tmp/str5/C07.md)",
                    "integer-typed numpy states (and 2-D symbolic batches) are refused by equilibrium_quotient (numpy: negative integer powers of integers / object into float64): a refusal, required only never to produce another number"],
}
EQ = "chempy._eqsys"


def systems():
    return {
        "ammonia": (["H2O", "H+", "OH-", "NH4+", "NH3"], [({"H2O": 1}, {"H+": 1, "OH-": 1}), ({"NH4+": 1}, {"NH3": 1, "H+": 1})]),
        "complex": (["Fe+3", "SCN-", "FeSCN+2", "Fe(SCN)2+", "Cl-"], [({"Fe+3": 1, "SCN-": 1}, {"FeSCN+2": 1}), ({"FeSCN+2": 1, "SCN-": 1}, {"Fe(SCN)2+": 1}),
                                                                         ({"Fe+3": 1, "SCN-": 2}, {"Fe(SCN)2+": 1})]),
    }


# conservation relations and stoichiometry written by hand from the formulas (atomic numbers: H 1, C 6, N 7, O 8, S 16, Cl 17, Fe 26; 0 = charge),
# rows in ascending key order, columns in the substance order of `systems()`
HAND = {
    "ammonia": {"keys": [0, 1, 7, 8],
                "B": [[0, 1, -1, 1, 0], [2, 1, 1, 4, 3], [0, 0, 0, 1, 1], [1, 0, 1, 0, 0]],
                "A": [[-1, 1, 1, 0, 0], [0, 1, 0, -1, 1]]},
    "complex": {"keys": [0, 6, 7, 16, 17, 26],
                "B": [[3, -1, 2, 1, -1], [0, 1, 1, 2, 0], [0, 1, 1, 2, 0], [0, 1, 1, 2, 0], [0, 0, 0, 0, 1], [1, 0, 1, 1, 0]],
                "A": [[-1, -1, 1, 0, 0], [0, -1, -1, 1, 0], [-1, -2, 0, 1, 0]]},
    # the two further systems of `rref_systems()` (row-reduction harnesses only)
    "two_step_complexation": {"keys": [0, 6, 7, 16, 17, 26],
                              "B": [[3, -1, 2, 1, -1], [0, 1, 1, 2, 0], [0, 1, 1, 2, 0], [0, 1, 1, 2, 0], [0, 0, 0, 0, 1], [1, 0, 1, 1, 0]],
                              "A": [[-1, -1, 1, 0, 0], [0, -1, -1, 1, 0]]},
    "ozone": {"keys": [8], "B": [[1, 2, 3]], "A": [[-2, 1, 0], [-3, 0, 1]]},
}


def rref_systems():
    """the systems of the row-reduction harnesses: those of `systems()` plus
    - the complexation WITHOUT its (linearly dependent) third reaction: independent reactions, a spectator (Cl-) and linearly dependent conservation
      relations (C, N, S rows equal), so that rref_equil=True is exercised on it outside the known finding F-C07a;
    - 2 O = O2, 3 O = O3: the reduced stoichiometry has fractional exponents ([[1,0,-1/3],[0,1,-2/3]]) and pivots that are not +-1"""
    d = dict(systems())
    d["two_step_complexation"] = (d["complex"][0], d["complex"][1][:2])
    d["ozone"] = (["O", "O2", "O3"], [({"O": 2}, {"O2": 1}), ({"O": 3}, {"O3": 1})])
    return d


def _same_matrix(got, want):
    """value equality of two integer matrices, entry by entry (no truncation of a fractional entry, no dependence on the container or number type)"""
    got = [list(r) for r in got]
    return len(got) == len(want) and all(len(g) == len(w) and all(bool(x == y) for x, y in zip(g, w)) for g, w in zip(got, want))


def _hand_relations_in_reported_order(eqsys, name):
    """[(key, hand-written row)] in the order in which the system itself lists its conservation relations.  The ORDER of the conservation rows is
    not part of the property, their content is: every expected row comes from HAND; the object only says where it put which key.  If the object's
    keys are not exactly the hand-written ones the hand-written order is used (and `system_reports_the_hand_written_conservation_relations` fails)"""
    hand = dict(zip(HAND[name]["keys"], HAND[name]["B"]))
    try:
        reported = list(eqsys.composition_balance_vectors()[1])
    except Exception:
        reported = []
    if sorted(reported) != sorted(hand) or len(reported) != len(hand):
        reported = list(HAND[name]["keys"])
    return [(k, hand[k]) for k in reported]


def _may_be(v, a, b):
    """is entry `a` the expression `b`?  Only used to CHOOSE which entry of a residual vector is compared with which expected equation (the claim itself
    is made by v.prove_identity on the chosen pair, so a wrong answer here can only lose a match, never grant one).  Symbolic run: the exact field
    identity that prove_identity tries first (back end `ring`); sampled run: equal to rounding at this sample"""
    try:
        if v.symbolic:
            from pyvc.realalg import Normaliser
            from pyvc.sym import to_z3
            return bool(Normaliser().equal(to_z3(a + 0.0, "real"), to_z3(b + 0.0, "real")))
        return bool(SP.approx_eq(float(a), float(b), 1e-9, 1e-12))
    except BaseException as ex:
        if isinstance(ex, (KeyboardInterrupt, SystemExit)):
            raise
        return False


def _pair_off(v, entries, wants):
    """one-to-one assignment {index of expected equation: index of entry} (augmenting paths; the entry at the same position is tried first, so on a
    residual vector in the hand-written order no other pair is even looked at).  An expected equation that no free entry matches gets one of the
    entries that are left over (same position if free), so that its obligation is still stated -- and refuted; None if no entry is left at all"""
    memo, owner = {}, {}

    def fits(w, p):
        if (w, p) not in memo:
            memo[(w, p)] = _may_be(v, entries[p], wants[w])
        return memo[(w, p)]

    def place(w, seen):
        for p in ([w] if w < len(entries) else []) + [q for q in range(len(entries)) if q != w]:
            if p not in seen and fits(w, p):
                seen.add(p)
                if p not in owner or place(owner[p], seen):
                    owner[p] = w
                    return True
        return False
    for w in range(len(wants)):
        place(w, set())
    pairing = {w: p for p, w in owner.items()}
    free = [p for p in range(len(entries)) if p not in owner]
    for w in range(len(wants)):
        if w not in pairing:
            pairing[w] = free.pop(free.index(w) if w in free else 0) if free else None
    return pairing


def _each_expected_equation_is_exactly_one_entry(v, entries, expected):
    """`expected` = [(obligation name, expression)].  The property speaks of the equations of a formulation (which vanish exactly at equilibrium) and of
    their NUMBER, not of the order in which the residual vector lists them (the root finder does not care either): the entries are, as a multiset, the
    expected equations -- each expected equation is matched to exactly one entry and no entry is used twice (with the separate length obligation: a
    bijection).  The obligation of an expected equation is the identity 'its entry == the hand-derived expression' for all inputs"""
    entries = list(entries)
    pairing = _pair_off(v, entries, [e for _n, e in expected])
    for w, (nm, want) in enumerate(expected):
        if pairing[w] is None:
            v.prove(nm, False, detail="%d entries for %d expected equations: none left for this one" % (len(entries), len(expected)))
        else:
            v.prove_identity(nm, entries[pairing[w]] + 0.0, want + 0.0)


def build(v, name):
    from chempy.chemistry import Equilibrium
    from chempy.equilibria import EqSystem
    subs, eqs = systems()[name]
    Ks = [v.real("K%d" % i, lo=1e-3, hi=1e3) for i in range(len(eqs))]
    rxns = [Equilibrium(r, p, K) for (r, p), K in zip(eqs, Ks)]
    from chempy.chemistry import Species
    from collections import OrderedDict
    eqsys = EqSystem(rxns, OrderedDict((k, Species.from_formula(k)) for k in subs))
    assert len(eqsys.composition_balance_vectors()[1]) >= 3
    return eqsys, subs, eqs, Ks


def spec_Q(eqs, conc, i):
    r, p = eqs[i]
    q = 1
    for k, n in p.items():
        q = q * conc[k] ** n
    for k, n in r.items():
        q = q / conc[k] ** n
    return q


def _residual(name):
    @harness("C07", "residuals." + name, functions=[EQ + ":NumSysLin.f", EQ + ":NumSysSquare.f", EQ + ":NumSysLog.f", EQ + ":_NumSys._get_A_ks", EQ + ":_NumSys._inits_and_eq_params",
                                                    "chempy.equilibria:EqSystem.stoichs_constants", "chempy.equilibria:EqSystem.eq_constants", "chempy.reactionsystem:ReactionSystem.stoichs",
                                                    "chempy._util:prodpow", "chempy._util:mat_dot_vec", "chempy._util:vec_dot_vec", "chempy.reactionsystem:ReactionSystem.composition_balance_vectors"],
             kind="shape-bounded", div_mode="assume", samples=15)
    def _(v):
        from chempy._eqsys import NumSysLin, NumSysSquare, NumSysLog
        eqsys, subs, eqs, Ks = build(v, name)
        y = [v.real("y_" + s, lo=1e-6, hi=10) for s in subs]
        y0 = [v.real("y0_" + s, lo=0, hi=10) for s in subs]
        conc = dict(zip(subs, y))
        # the specification's own matrices, not the object's.  The object must report the same relations (same key -> same row; the order in which
        # it lists them is its own business, the residual rows below are matched to the hand-written rows through the reported key order)
        rep_rows, rep_keys = eqsys.composition_balance_vectors()
        hand = dict(zip(HAND[name]["keys"], HAND[name]["B"]))
        v.prove("system_reports_the_hand_written_conservation_relations", sorted(rep_keys) == HAND[name]["keys"] and len(rep_rows) == len(rep_keys)
                and all(_same_matrix([row], [hand.get(k, [])]) for k, row in zip(rep_keys, rep_rows)))
        rel = _hand_relations_in_reported_order(eqsys, name)
        keys, B = [k for k, _r in rel], [_r for _k, _r in rel]
        nr, nk = len(eqs), len(keys)
        params = list(y0) + list(Ks)
        cons = [sum(B[c][j] * (y[j] - y0[j]) for j in range(len(subs))) for c in range(nk)]
        # --- linear formulation
        f = v.call(NumSysLin(eqsys, backend=math).f, y, params)
        v.prove("lin.length_is_nr_plus_conservation_relations", len(f) == nr + nk)
        _each_expected_equation_is_exactly_one_entry(v, f, [("lin.equil_%d_is_Q_over_K_minus_1" % i, spec_Q(eqs, conc, i) / Ks[i] - 1) for i in range(nr)]
                                                     + [("lin.conservation_key%d" % keys[c], cons[c]) for c in range(nk)])
        if v.symbolic:
            at_eq = SP.conj([spec_Q(eqs, conc, i) == Ks[i] for i in range(nr)] + [x == 0 for x in cons])
            v.prove("lin.zero_iff_equilibrium_and_conserving", SP.iff(SP.conj([x == 0 for x in f]), at_eq))
        # --- squared variables
        z = [v.real("z_" + s, lo=-3, hi=3) for s in subs]
        v.assume(SP.conj([SP.neg(zi == 0) for zi in z]))
        fs = v.call(NumSysSquare(eqsys, backend=math).f, z, params)
        fl = v.call(NumSysLin(eqsys, backend=math).f, [zi * zi for zi in z], params)
        v.prove("square.length", len(fs) == nr + nk)
        # (proof aid: the equations of the linear formulation at c = z^2, whichever way either vector is ordered)
        _each_expected_equation_is_exactly_one_entry(v, fs, [("square.entry_%d_is_lin_of_squares" % i, fl[i]) for i in range(min(nr + nk, len(fl)))])
        # and directly against the specification with c = z^2 (either sign of z)
        csq = dict(zip(subs, [zi * zi for zi in z]))
        _each_expected_equation_is_exactly_one_entry(v, fs, [("square.equil_%d_is_Q_of_squares_over_K_minus_1" % i, spec_Q(eqs, csq, i) / Ks[i] - 1) for i in range(nr)]
                                                     + [("square.conservation_key%d_of_squares" % keys[c], sum(B[c][j] * (z[j] * z[j] - y0[j]) for j in range(len(subs)))) for c in range(nk)])
        # --- logarithmic variables
        be = v.backend()
        ly = [v.real("ly_" + s, lo=-10, hi=3) for s in subs]
        flog = v.call(NumSysLog(eqsys, backend=be).f, ly, params)
        v.prove("log.length", len(flog) == nr + nk)
        A = HAND[name]["A"]
        v.prove("system_reports_the_hand_written_stoichiometry", _same_matrix(eqsys.stoichs(), A))
        _each_expected_equation_is_exactly_one_entry(v, flog, [("log.equil_%d" % i, sum(int(A[i][j]) * ly[j] for j in range(len(subs))) - be.log(Ks[i])) for i in range(nr)]
                                                     + [("log.conservation_key%d" % keys[c], sum(B[c][j] * (be.exp(ly[j]) - y0[j]) for j in range(len(subs)))) for c in range(nk)])
    return _


for _n in systems():
    _residual(_n)


@harness("C07", "equilibrium_quotient", functions=["chempy.chemistry:equilibrium_quotient", "chempy.equilibria:EqSystem.equilibrium_quotients"], kind="shape-bounded", div_mode="assume", samples=20)
def _(v):
    from chempy.chemistry import equilibrium_quotient
    c = [v.real("c%d" % i, lo=0.01, hi=10) for i in range(4)]
    q = v.call(equilibrium_quotient, c, [-2, -1, 3, 0])
    v.prove_identity("product_of_powers", q, c[2] ** 3 / (c[0] ** 2 * c[1]))
    eqsys, subs, eqs, Ks = build(v, "ammonia")
    y = [v.real("y_" + s, lo=1e-6, hi=10) for s in subs]
    if v.symbolic:
        qs = v.call(eqsys.equilibrium_quotients, y)
        for i in range(len(eqs)):
            v.prove_identity("system_quotient_%d" % i, qs[i], spec_Q(eqs, dict(zip(subs, y)), i))


@harness("C07", "mat_dot_vec", functions=["chempy._util:mat_dot_vec", "chempy._util:vec_dot_vec", "chempy._util:reducemap", "chempy._util:prodpow"], kind="shape-bounded", div_mode="assume", samples=20)
def _(v):
    from chempy._util import mat_dot_vec, vec_dot_vec, prodpow
    M = [[v.real("m%d%d" % (i, j), lo=-3, hi=3) for j in range(3)] for i in range(2)]
    x = [v.real("x%d" % j, lo=0.1, hi=3) for j in range(3)]
    t = [v.real("t%d" % i, lo=-3, hi=3) for i in range(2)]
    r = v.call(mat_dot_vec, M, x)
    v.prove("rows", SP.conj([v.eq(r[i], sum(M[i][j] * x[j] for j in range(3))) for i in range(2)] + [len(r) == 2]))
    r = v.call(mat_dot_vec, M, x, t)
    v.prove("rows_plus_term", SP.conj([v.eq(r[i], sum(M[i][j] * x[j] for j in range(3)) + t[i]) for i in range(2)]))
    v.prove("dot", v.eq(v.call(vec_dot_vec, M[0], x), sum(M[0][j] * x[j] for j in range(3))))
    pp = v.call(prodpow, x, [[1, 0, 2], [-1, 1, 0]])
    v.prove_identity("prodpow_0", pp[0], x[0] * x[2] * x[2])
    v.prove_identity("prodpow_1", pp[1], x[1] / x[0])


@harness("C07", "no_hidden_state_between_evaluations", functions=[EQ + ":NumSysLin.f", EQ + ":NumSysLog.f", EQ + ":_NumSys._get_A_ks", EQ + ":_NumSys._inits_and_eq_params"], kind="shape-bounded", div_mode="assume", samples=10)
def _(v):
    """the same formulation object evaluated twice with different constants / initial states must use the current ones"""
    from chempy._eqsys import NumSysLin, NumSysLog
    eqsys, subs, eqs, Ks = build(v, "ammonia")
    K2 = [v.real("K_second%d" % i, lo=1e-3, hi=1e3) for i in range(len(eqs))]
    y = [v.real("y_" + s, lo=1e-6, hi=10) for s in subs]
    y0a = [v.real("y0a_" + s, lo=0, hi=10) for s in subs]
    y0b = [v.real("y0b_" + s, lo=0, hi=10) for s in subs]
    conc = dict(zip(subs, y))
    rel = _hand_relations_in_reported_order(eqsys, "ammonia")           # expected rows from HAND (checked against the object in residuals.ammonia), not from the object
    keys, B = [k for k, _r in rel], [_r for _k, _r in rel]
    nr = len(eqs)
    ns = NumSysLin(eqsys, backend=math)
    v.call(ns.f, y, list(y0a) + list(Ks))
    f2 = v.call(ns.f, y, list(y0b) + list(K2))
    cons_b = [sum(B[c][j] * (y[j] - y0b[j]) for j in range(len(subs))) for c in range(len(keys))]
    _each_expected_equation_is_exactly_one_entry(v, f2, [("lin.second_call_uses_current_constants_%d" % i, spec_Q(eqs, conc, i) / K2[i] - 1) for i in range(nr)]
                                                 + [("lin.second_call_uses_current_initial_state_key%d" % keys[c], cons_b[c]) for c in range(len(keys))])
    be = v.backend()
    nl = NumSysLog(eqsys, backend=be)
    v.call(nl.f, y, list(y0a) + list(Ks))
    g2 = v.call(nl.f, y, list(y0b) + list(K2))
    A = HAND["ammonia"]["A"]
    # (only the equations that contain the constants are expected here: the remaining entries, the conservation equations of the logarithmic form, are
    # stated in residuals.ammonia)
    _each_expected_equation_is_exactly_one_entry(v, g2, [("log.second_call_uses_current_constants_%d" % i, sum(int(A[i][j]) * y[j] for j in range(len(subs))) - be.log(K2[i])) for i in range(nr)])
    # constants taken from the system itself when no parameters are passed (new_eq_params=False): all ns initial concentrations are used
    ns3 = NumSysLin(eqsys, backend=math, new_eq_params=False)
    f3 = v.call(ns3.f, y, list(y0b))
    _each_expected_equation_is_exactly_one_entry(v, f3, [("lin.stored_constants_mode_equil_%d" % i, spec_Q(eqs, conc, i) / Ks[i] - 1) for i in range(nr)]
                                                 + [("lin.stored_constants_mode_uses_all_initial_concentrations_key%d" % keys[c], cons_b[c]) for c in range(len(keys))])


def _exact_equilibrium(name):
    """a consistent set of constants and an exact equilibrium state of the named system, with an initial state linked to it by reaction extents"""
    from fractions import Fraction as Fr
    subs, eqs = rref_systems()[name]
    y = dict(zip(subs, [Fr(3, 2), Fr(1, 4), Fr(2, 5), Fr(7, 10), Fr(9, 8)]))
    Ks = [spec_Q(eqs, y, i) for i in range(len(eqs))]
    xi = [Fr(1, 10), Fr(-1, 20), Fr(1, 50)][:len(eqs)]
    y0 = dict(y)
    for (r, p), x in zip(eqs, xi):          # y = y0 + sum_i xi_i nu_i   <=>   y0 = y - sum_i xi_i nu_i
        for k, n in p.items():
            y0[k] -= x * n
        for k, n in r.items():
            y0[k] += x * n
    assert all(val > 0 for val in y0.values())
    return subs, eqs, y, y0, Ks


def _violating_states(name, y):
    """states (exact fractions) that violate exactly ONE of the two conditions of the property, derived from the hand-written A and B only:
    - 'quotient': for each reaction i the state y + nu_i/100.  It carries the same amount of every element and charge (B nu_i = 0), and
      d ln Q_i / dt = sum_j nu_ij^2 / c_j > 0, so Q_i != K_i;
    - 'conservation': for each basis vector w of the integer null space of A the state c_j * 2^(w_j).  Every quotient is multiplied by 2^((A w)_i) = 1;
      the element/charge totals differ (checked with the hand-written B; if they did not, the state would be a second equilibrium with the same
      totals, which does not exist)"""
    import sympy
    from fractions import Fraction as Fr
    subs, _eqs = rref_systems()[name]
    A, B = HAND[name]["A"], HAND[name]["B"]
    assert all(sum(b * n for b, n in zip(row, nu)) == 0 for row in B for nu in A)
    quot = []
    for nu in A:
        st = {s: y[s] + Fr(n, 100) for s, n in zip(subs, nu)}
        assert all(val > 0 for val in st.values())
        quot.append(st)
    cons = []
    for w in sympy.Matrix(A).nullspace():
        w = w * sympy.ilcm(*[sympy.Rational(x).q for x in w])
        assert all(sum(a * int(x) for a, x in zip(row, w)) == 0 for row in A)
        st = {s: y[s] * Fr(2) ** int(x) for s, x in zip(subs, w)}
        assert any(sum(b * (st[s] - y[s]) for b, s in zip(row, subs)) != 0 for row in B)
        cons.append(st)
    assert quot and cons
    return quot, cons


def _rref(name, neg_sqrt):
    @harness("C07", "row_reduced_configurations." + name, functions=[EQ + ":NumSysLin.f", EQ + ":NumSysLog.f", EQ + ":NumSysSquare.f", EQ + ":_NumSys._get_A_ks", "chempy.equilibria:EqSystem.stoichs_constants",
                                                                     "pyneqsys.symbolic:linear_rref / linear_exprs (external, run natively)"], kind="data")
    def _(v):
        """'with or without row-reduction of the equilibrium or conservation blocks': every configuration, built the way the root finder builds it
        (sympy backend, symbolic parameters), evaluated at an exact equilibrium state reached from the initial state by reaction extents: every
        residual is zero; at a state with one concentration changed, at conserving states that violate one quotient, and at states that keep every
        quotient but not the element totals, some residual is not; no independent equation is lost (the Jacobian at the equilibrium state has the rank
        of the unreduced system, rank A + rank B); the number of equations is reactions + conservation relations (independent ones when row-reduced).
        All expected numbers come from the hand-written A and B (HAND), none from the object under test"""
        import itertools
        import numpy as np
        import sympy
        from chempy.chemistry import Equilibrium, Species
        from chempy.equilibria import EqSystem
        from chempy import _eqsys as E
        from collections import OrderedDict
        subs, eqs, y, y0, Ks = _exact_equilibrium(name)
        quot_states, cons_states = _violating_states(name, y)
        try:
            es = EqSystem([Equilibrium(r, p, K) for (r, p), K in zip(eqs, Ks)], OrderedDict((k, Species.from_formula(k)) for k in subs))
        except Exception as ex:
            v.fail("system_builds", repr(ex)[:200])
            return
        nkeys = len(HAND[name]["keys"])
        rankB = sympy.Matrix(HAND[name]["B"]).rank()
        rankA = sympy.Matrix(HAND[name]["A"]).rank()
        ys = sympy.symbols("y:%d" % len(subs))
        ps = sympy.symbols("p:%d" % (len(subs) + len(eqs)))
        bind_p = dict(zip(ps, [sympy.Rational(y0[s].numerator, y0[s].denominator) for s in subs] + [sympy.Rational(K.numerator, K.denominator) for K in Ks]))
        R = lambda q: sympy.Rational(q.numerator, q.denominator)
        # square-root variables: either sign of z stands for the concentration z^2; the systems with neg_sqrt use alternating signs
        sgn = lambda j: -1 if (neg_sqrt and j % 2 == 0) else 1
        transforms = {"NumSysLin": lambda c, j: R(c), "NumSysLog": lambda c, j: sympy.log(R(c)), "NumSysSquare": lambda c, j: sgn(j) * sympy.sqrt(R(c))}
        for cls_name, re_, rp in itertools.product(("NumSysLin", "NumSysLog", "NumSysSquare"), (False, True), (False, True)):
            tag = "%s.rref_equil_%s.rref_preserv_%s" % (cls_name, re_, rp)
            try:
                ns = getattr(E, cls_name)(es, backend=sympy, rref_equil=re_, rref_preserv=rp)
                f = list(ns.f(ys, ps))
            except Exception as ex:
                v.fail(tag + ".builds", repr(ex)[:200])
                continue
            try:
                at = lambda state: dict(zip(ys, [transforms[cls_name](state[s], j) for j, s in enumerate(subs)]))
                num = lambda state: [complex(sympy.N(e.subs(bind_p).subs(at(state)), 30)) for e in f]
                vals = [sympy.simplify(sympy.expand_log(e.subs(bind_p).subs(at(y)), force=True)) for e in f]
                n_cons = rankB if rp else nkeys
                # equilibrium block: the statement counts the reactions; a row-reduced block of linearly dependent reactions has rank A non-trivial
                # rows, and may or may not keep the trivial ones (0 = 0): both are accepted, `no_independent_equation_lost` guards the lower end
                n_eq_ok = (rankA <= len(f) - n_cons <= len(eqs)) if re_ else (len(f) - n_cons == len(eqs))
                v.prove(tag + ".number_of_equations", n_eq_ok, detail="%d equations, expected %s + %d" % (len(f), ("%d..%d" % (rankA, len(eqs))) if re_ else len(eqs), n_cons))
                v.prove(tag + ".vanishes_at_the_equilibrium_state", all(abs(complex(sympy.N(x, 30))) < 1e-20 for x in vals), detail=str([str(sympy.N(x, 6)) for x in vals]))
                off = dict(y)
                off[subs[1]] = off[subs[1]] * 2
                v.prove(tag + ".nonzero_off_equilibrium", any(abs(x) > 1e-6 for x in num(off)))
                v.prove(tag + ".nonzero_when_only_a_quotient_is_violated", all(any(abs(x) > 1e-6 for x in num(st)) for st in quot_states),
                        detail=str([max(abs(x) for x in num(st)) for st in quot_states]))
                v.prove(tag + ".nonzero_when_only_conservation_is_violated", all(any(abs(x) > 1e-6 for x in num(st)) for st in cons_states),
                        detail=str([max(abs(x) for x in num(st)) for st in cons_states]))
                # only-at, to first order: at the equilibrium state the Jacobian of the unreduced linear system is [A diag(1/c); B]; its two blocks
                # span complementary row spaces (a'A diag(1/c) = b'B implies a'A diag(1/c) A'a = b'B A'a = 0, so A'a = 0), so the rank is rank A + rank B;
                # row reduction is an invertible operation on the independent rows and the log / square variables multiply by an invertible diagonal
                # matrix, so every configuration has this rank.  A reduction that turns an independent equation into 0 = 0 has a smaller one
                J = sympy.Matrix(f).jacobian(ys).subs(bind_p).subs(at(y))
                Jn = np.array([[complex(sympy.N(e, 30)) for e in J.row(i)] for i in range(J.rows)])
                sv = np.linalg.svd(Jn, compute_uv=False)
                rank = int(np.sum(sv > 1e-9 * sv[0])) if len(sv) else 0
                v.prove(tag + ".no_independent_equation_lost", rank == rankA + rankB, detail="rank of the Jacobian at equilibrium %d, expected %d + %d (singular values %s)" % (rank, rankA, rankB, np.round(sv, 6)))
            except Exception as ex:
                v.fail(tag + ".evaluates", repr(ex)[:200])
    return _


_rref("ammonia", False)
_rref("complex", False)
_rref("two_step_complexation", True)
_rref("ozone", True)


def _offered(name, neg_sqrt):
    @harness("C07", "offered_to_the_root_finder." + name, functions=["chempy.equilibria:EqSystem.get_neqsys", "chempy.equilibria:EqSystem.get_neqsys_static_conditions", "chempy.equilibria:EqSystem.get_neqsys_chained_conditional",
                                                                     "chempy.equilibria:EqSystem.get_neqsys_conditional_chained", "chempy.equilibria:EqSystem._SymbolicSys_from_NumSys",
                                                                     "pyneqsys.symbolic:SymbolicSys.from_callback (external, run natively)"], kind="data")
    def _(v):
        """'each residual formulation OFFERED TO THE ROOT FINDER ... with or without row-reduction': the systems of equations that EqSystem.get_neqsys
        hands to pyneqsys (not formulation objects built by the checker) are evaluated through the callback the solver uses, in the solver's own
        variables (c, ln c, +-sqrt c): number of equations, zero at the exact equilibrium state, non-zero at the states that violate only a quotient
        or only conservation, and -- so that the formulation and the two reduction switches asked for are the ones delivered -- the same residuals
        (as a multiset) as the formulation of `row_reduced_configurations` in that configuration at an off-equilibrium state"""
        import itertools
        import numpy as np
        import sympy
        from chempy.chemistry import Equilibrium, Species
        from chempy.equilibria import EqSystem
        from chempy import _eqsys as E
        from collections import OrderedDict
        subs, eqs, y, y0, Ks = _exact_equilibrium(name)
        quot_states, cons_states = _violating_states(name, y)
        ns_, nr = len(subs), len(eqs)
        nkeys = len(HAND[name]["keys"])
        rankB = sympy.Matrix(HAND[name]["B"]).rank()
        assert sympy.Matrix(HAND[name]["A"]).rank() == nr          # independent reactions: the equilibrium block has nr rows, reduced or not
        try:
            es = EqSystem([Equilibrium(r, p, float(K)) for (r, p), K in zip(eqs, Ks)], OrderedDict((k, Species.from_formula(k)) for k in subs))
        except Exception as ex:
            v.fail("system_builds", repr(ex)[:200])
            return
        params = np.array([float(y0[s]) for s in subs] + [float(K) for K in Ks])
        sgn = np.array([-1.0 if (neg_sqrt and j % 2 == 0) else 1.0 for j in range(ns_)])
        to_x = {"NumSysLin": lambda c: c, "NumSysLog": np.log, "NumSysSquare": lambda c: sgn * np.sqrt(c)}
        conc = lambda state: np.array([float(state[s]) for s in subs])
        off = dict(y)
        off[subs[1]] = off[subs[1]] * 2
        ys = sympy.symbols("y:%d" % ns_)
        ps = sympy.symbols("p:%d" % (ns_ + nr))

        def first_system(neqsys, kind):
            # homogeneous system: no phase-transfer reaction, hence the empty tuple of conditions
            if kind == "static_conditions":
                return neqsys.neqsystems[0]
            if kind == "chained_conditional":
                return neqsys.neqsystems[0].neqsys_factory(())
            return neqsys.neqsys_factory(()).neqsystems[0]
        all12 = list(itertools.product(("NumSysLin", "NumSysLog", "NumSysSquare"), (False, True), (False, True)))
        plan = [("static_conditions", cfg) for cfg in all12]
        if name == "ammonia":
            plan += [(kind, cfg) for kind in ("chained_conditional", "conditional_chained") for cfg in (("NumSysLog", True, False), ("NumSysSquare", False, True))]
        for kind, (cls_name, re_, rp) in plan:
            tag = "%s.%s.rref_equil_%s.rref_preserv_%s" % (kind, cls_name, re_, rp)
            try:
                sy = first_system(es.get_neqsys(kind, NumSys=(getattr(E, cls_name),), rref_equil=re_, rref_preserv=rp), kind)
                res = lambda state: np.asarray(sy.f_cb(to_x[cls_name](conc(state)), params), dtype=float)
                n_cons = rankB if rp else nkeys
                v.prove(tag + ".number_of_equations", sy.nf == nr + n_cons and len(res(y)) == nr + n_cons, detail="%d equations, expected %d + %d" % (sy.nf, nr, n_cons))
                v.prove(tag + ".vanishes_at_the_equilibrium_state", bool(np.all(np.abs(res(y)) < 1e-11)), detail=repr(res(y)))
                v.prove(tag + ".nonzero_when_only_a_quotient_is_violated", all(np.max(np.abs(res(st))) > 1e-6 for st in quot_states))
                v.prove(tag + ".nonzero_when_only_conservation_is_violated", all(np.max(np.abs(res(st))) > 1e-6 for st in cons_states))
                direct = getattr(E, cls_name)(es, backend=sympy, rref_equil=re_, rref_preserv=rp).f(ys, ps)
                bind = dict(zip(ps, params))
                bind.update(zip(ys, to_x[cls_name](conc(off))))
                want = sorted(float(sympy.N(e.subs(bind))) for e in direct)
                got = sorted(res(off))
                v.prove(tag + ".is_the_configuration_asked_for", len(got) == len(want) and np.allclose(got, want, rtol=1e-9, atol=1e-12), detail="%r instead of %r" % (got, want))
            except Exception as ex:
                v.fail(tag + ".evaluates", repr(ex)[:200])
        # several formulations: one system per formulation, in the order given
        try:
            ch = es.get_neqsys("static_conditions", NumSys=(E.NumSysLog, E.NumSysLin), rref_preserv=True).neqsystems
            r0 = np.asarray(ch[0].f_cb(np.log(conc(y)), params), dtype=float)
            r1 = np.asarray(ch[1].f_cb(conc(y), params), dtype=float)
            v.prove("chain_keeps_the_formulations_in_the_order_given", len(ch) == 2 and len(r0) == len(r1) == nr + rankB and bool(np.all(np.abs(r0) < 1e-11) and np.all(np.abs(r1) < 1e-11)), detail=repr((r0, r1)))
        except Exception as ex:
            v.fail("chain_keeps_the_formulations_in_the_order_given", repr(ex)[:200])
    return _


_offered("ammonia", False)
_offered("ozone", True)


@harness("C07", "species_written_with_the_aqueous_suffix", functions=["chempy.reactionsystem:ReactionSystem.stoichs", "chempy.equilibria:EqSystem.equilibrium_quotients", EQ + ":NumSysLin.f", EQ + ":NumSysLog.f"], kind="data")
def _(v):
    """'homogeneous equilibria over formula-defined species': the same water/ammonia system with its solutes spelled H+(aq), OH-(aq), ... is the same
    system: hand-written stoichiometry and conservation relations, quotients of the exact state, residuals zero there and non-zero next to it"""
    from chempy.chemistry import Equilibrium, Species
    from chempy.equilibria import EqSystem
    from chempy import _eqsys as E
    from collections import OrderedDict
    subs, eqs, y, y0, Ks = _exact_equilibrium("ammonia")
    aq = lambda k: k if k == "H2O" else k + "(aq)"
    try:
        es = EqSystem([Equilibrium({aq(k): n for k, n in r.items()}, {aq(k): n for k, n in p.items()}, float(K)) for (r, p), K in zip(eqs, Ks)], OrderedDict((aq(k), Species.from_formula(aq(k))) for k in subs))
        A = es.stoichs()
        rows, keys = es.composition_balance_vectors()
        qs = [float(q) for q in es.equilibrium_quotients([float(y[s]) for s in subs])]
        params = [float(y0[s]) for s in subs] + [float(K) for K in Ks]
        quot_states, cons_states = _violating_states("ammonia", y)
        lin = lambda st: [float(x) for x in E.NumSysLin(es, backend=math).f([float(st[s]) for s in subs], params)]
        log = lambda st: [float(x) for x in E.NumSysLog(es, backend=math).f([math.log(st[s]) for s in subs], params)]
        at, near = [lin(y), log(y)], [f(st) for f in (lin, log) for st in quot_states + cons_states]
    except Exception as ex:
        for nm in ("stoichiometry_and_conservation_relations", "quotients", "residuals"):
            v.fail(nm, repr(ex)[:200])
        return
    hand = dict(zip(HAND["ammonia"]["keys"], HAND["ammonia"]["B"]))
    v.prove("stoichiometry_and_conservation_relations", _same_matrix(A, HAND["ammonia"]["A"]) and sorted(keys) == sorted(hand) and all(_same_matrix([row], [hand[k]]) for k, row in zip(keys, rows)),
            detail=repr((A, rows, keys)))
    v.prove("quotients", len(qs) == 2 and all(abs(q - float(K)) <= 1e-14 * float(K) for q, K in zip(qs, Ks)), detail=repr(qs))
    v.prove("residuals", all(len(r) == 2 + 4 and max(abs(x) for x in r) < 1e-12 for r in at) and all(max(abs(x) for x in r) > 1e-6 for r in near), detail=repr(at))


@harness("C07", "constants_of_any_magnitude", functions=[EQ + ":NumSysLin.f", EQ + ":NumSysLog.f", EQ + ":NumSysSquare.f"], kind="data")
def _(v):
    """'for every equilibrium system ... all positive equilibrium states': the symbolic harnesses bound K to [1e-3, 1e3]; here the water/ammonia
    system at a dilute exact state whose NUMERIC constants are 1.8e-27 and 3e-18 (by hand: 1e-12 * 1e-13 / 55 and 3e-15 * 1e-12 / 1e-9): every
    formulation is zero there (to rounding) and not at the state with [H+] doubled"""
    from fractions import Fraction as Fr
    from chempy.chemistry import Equilibrium, Species
    from chempy.equilibria import EqSystem
    from chempy import _eqsys as E
    from collections import OrderedDict
    subs, eqs = systems()["ammonia"]
    y = dict(zip(subs, [Fr(55), Fr(1, 10 ** 12), Fr(1, 10 ** 13), Fr(1, 10 ** 9), Fr(3, 10 ** 15)]))
    Ks = [float(spec_Q(eqs, y, i)) for i in range(len(eqs))]
    assert abs(Ks[0] - 1e-25 / 55) < 1e-40 and abs(Ks[1] - 3e-18) < 1e-32
    c = [float(y[s]) for s in subs]
    off = [c[0], 2 * c[1]] + c[2:]
    to_x = {"NumSysLin": lambda st: st, "NumSysLog": lambda st: [math.log(x) for x in st], "NumSysSquare": lambda st: [-math.sqrt(x) for x in st]}
    for cls_name in ("NumSysLin", "NumSysLog", "NumSysSquare"):
        try:
            es = EqSystem([Equilibrium(r, p, K) for (r, p), K in zip(eqs, Ks)], OrderedDict((k, Species.from_formula(k)) for k in subs))
            ns = getattr(E, cls_name)(es, backend=math)
            at = [float(x) for x in ns.f(to_x[cls_name](c), c + Ks)]
            near = [float(x) for x in ns.f(to_x[cls_name](off), c + Ks)]
        except Exception as ex:
            v.fail(cls_name + ".zero_at_and_nonzero_next_to_the_state", repr(ex)[:200])
            continue
        v.prove(cls_name + ".zero_at_and_nonzero_next_to_the_state", len(at) == 2 + 4 and max(abs(x) for x in at) < 1e-11 and max(abs(x) for x in near) > 0.5, detail=repr((at, near)))


@harness("C07", "batches_and_repeated_evaluation", functions=["chempy.chemistry:equilibrium_quotient", "chempy.equilibria:EqSystem.equilibrium_quotients", "chempy.equilibria:EqSystem.stoichs_constants"], kind="data")
def _(v):
    """a batch of states (2-D array, one state per row) gives the quotient of each state, also when the number of states equals the number of
    substances or is one; integer-valued and symbolic states give the same product of powers (or are refused, never a truncated value); the
    row-reduced constants are those of the constants handed in at THIS call (same system evaluated at two temperatures) and describe a system
    EQUIVALENT to the original one (same row space, not merely implied by it)"""
    import math
    import numpy as np
    from chempy.chemistry import equilibrium_quotient, Equilibrium, Species
    from chempy.equilibria import EqSystem
    from collections import OrderedDict

    def attempt(fn):
        try:
            return fn(), None
        except Exception as ex:
            return None, repr(ex)[:200]
    nu = [-1, 2, 1]
    batch = np.array([[2.0, 3.0, 5.0], [7.0, 0.5, 4.0], [1.5, 6.0, 0.25]])          # square on purpose
    want = [row[0] ** -1 * row[1] ** 2 * row[2] for row in batch]
    got, err = attempt(lambda: (equilibrium_quotient(batch, nu), [equilibrium_quotient(row, nu) for row in batch]))
    v.prove("square_batch_row_by_row", err is None and np.allclose(got[0], want, rtol=1e-14, atol=0) and np.allclose(got[1], want, rtol=1e-14, atol=0), detail=err or repr(got))
    wide = np.array([[2.0, 3.0, 5.0], [7.0, 0.5, 4.0]])
    got, err = attempt(lambda: equilibrium_quotient(wide, nu))
    v.prove("non_square_batch_row_by_row", err is None and np.shape(got) == (2,) and np.allclose(got, want[:2], rtol=1e-14, atol=0), detail=err or repr(got))
    got, err = attempt(lambda: equilibrium_quotient(wide[:1], nu))
    v.prove("batch_of_a_single_state", err is None and np.shape(got) == (1,) and np.allclose(got, want[:1], rtol=1e-14, atol=0), detail=err or repr(got))
    # integer-valued states: 2 * 3 / 4 = 3/2 by hand (an integer division or an exponent cast would give 1 or 0).  A plain list must work (it does not
    # carry a dtype); an integer ARRAY may be refused (numpy refuses negative integer powers of integers) but must not give another number
    got, err = attempt(lambda: equilibrium_quotient([4, 2, 3], [-1, 1, 1]))
    v.prove("integer_state_as_list", err is None and got == 1.5, detail=err or repr(got))
    got, err = attempt(lambda: equilibrium_quotient(np.array([4, 2, 3]), [-1, 1, 1]))
    v.prove("integer_state_as_array_is_exact_or_refused", err is not None or got == 1.5, detail=err or repr(got))
    got, err = attempt(lambda: equilibrium_quotient(np.array([[4, 2, 3], [8, 2, 1]]), [-1, 1, 1]))
    v.prove("integer_batch_is_exact_or_refused", err is not None or (np.shape(got) == (2,) and list(got) == [1.5, 0.25]), detail=err or repr(got))
    # symbolic states: the product of powers itself, or a refusal
    import sympy
    a, b, c, d, e, f = sympy.symbols("a b c d e f", positive=True)
    got, err = attempt(lambda: equilibrium_quotient([a, b, c], nu))
    v.prove("symbolic_state", err is None and sympy.simplify(got - b ** 2 * c / a) == 0, detail=err or repr(got))
    got, err = attempt(lambda: equilibrium_quotient(np.array([[a, b, c], [d, e, f]], dtype=object), nu))
    v.prove("symbolic_batch_is_exact_or_refused", err is not None or (len(got) == 2 and sympy.simplify(got[0] - b ** 2 * c / a) == 0 and sympy.simplify(got[1] - e ** 2 * f / d) == 0), detail=err or repr(got))
    subs, eqs = systems()["ammonia"]
    es = EqSystem([Equilibrium(r, p, K) for (r, p), K in zip(eqs, [1e-14 / 55.5, 5.6e-10])], OrderedDict((k, Species.from_formula(k)) for k in subs))
    sq = np.array([[55.5, 1e-7, 1e-7, 1e-3, 1e-3], [55.4, 2e-7, 3e-7, 2e-3, 1e-3], [50.0, 1e-6, 1e-8, 5e-3, 4e-3], [55.5, 1e-3, 1e-11, 1e-2, 1e-9], [40.0, 3e-7, 3e-7, 1e-4, 2e-3]])
    qs, err = attempt(lambda: es.equilibrium_quotients(sq))
    ok = err is None and len(qs) == 2 and np.allclose(qs[0], sq[:, 1] * sq[:, 2] / sq[:, 0], rtol=1e-13, atol=0) and np.allclose(qs[1], sq[:, 4] * sq[:, 1] / sq[:, 3], rtol=1e-13, atol=0)
    v.prove("system_quotients_of_as_many_states_as_substances", ok, detail=err or repr(qs))
    A0 = np.array(HAND["ammonia"]["A"], dtype=float)          # hand-written stoichiometry (checked against the object in residuals.ammonia)

    def consistent(A, ks, Ks):
        # the reduced system (A', k') must be EQUIVALENT to the original one: A' = M A and log k' = M log K with the same row operations M (implied by
        # it), and M invertible on the row space, i.e. rank A' = rank A (nothing lost: a zero row, or two equal rows, would also be 'implied')
        A = np.array(A, dtype=float)
        M = np.linalg.lstsq(A0.T, A.T, rcond=None)[0].T
        return (np.allclose(M.dot(A0), A, atol=1e-12) and np.allclose(M.dot(np.log(Ks)), np.log(np.array(ks, dtype=float)), atol=1e-12)
                and np.linalg.matrix_rank(A) == np.linalg.matrix_rank(A0))
    res, err = attempt(lambda: (es.stoichs_constants(eq_params=[2.0, 3.0], rref=True, backend=math), es.stoichs_constants(eq_params=[5.0, 7.0], rref=True, backend=math),
                                es.stoichs_constants(eq_params=[2.0, 3.0])[1]))
    if err is None:
        (A1, k1), (A2, k2), plain1 = res
        ok, err = attempt(lambda: consistent(A1, k1, [2.0, 3.0]) and consistent(A2, k2, [5.0, 7.0]) and list(plain1) == [2.0, 3.0])
    v.prove("reduced_constants_follow_the_constants_given", err is None and bool(ok), detail=err or "%r %r" % (k1, k2))
    # the checker's own `consistent` must reject reductions that lose an equation (guards the guard)
    assert not consistent([[1, 0, -1, -1, 1], [0, 0, 0, 0, 0]], [1.5, 1.0], [2.0, 3.0]) and consistent([[1, 0, -1, -1, 1], [0, 1, 0, -1, 1]], [1.5, 3.0], [2.0, 3.0])


@harness("C07", "reported_element_totals", functions=["chempy.equilibria:EqSystem.composition_conservation"], kind="data")
def _(v):
    """the conservation report of an equilibrium system returns the element/charge totals of the state and of the initial state as they are,
    B c and B c0 under the composition keys it names (B hand-written): a state that misses conservation by a trace amount (3e-13 of a 4e-13 M total)
    is reported with different totals, not rounded into agreement"""
    import numpy as np
    from chempy.chemistry import Equilibrium
    from chempy.equilibria import EqSystem
    from chempy.chemistry import Species
    c0 = np.array([55.4, 1e-7, 1e-7, 3e-13, 1e-13])
    c = c0 + np.array([0.0, 3e-13, 0.0, -2e-13, -1e-13])            # nitrogen 4e-13 -> 1e-13, charge +1e-13
    try:
        subs = [Species.from_formula(k) for k in ("H2O", "H+", "OH-", "NH4+", "NH3")]
        es = EqSystem([Equilibrium({"H2O": 1}, {"H+": 1, "OH-": 1}, 1e-14 / 55.4), Equilibrium({"NH4+": 1}, {"H+": 1, "NH3": 1}, 10 ** -9.26)], subs)
        keys, tot, tot0 = es.composition_conservation(c, c0)
        keys, tot, tot0 = list(keys), [float(x) for x in tot], [float(x) for x in tot0]
    except Exception as ex:
        v.fail("totals_are_B_times_the_state", repr(ex)[:200])
        v.fail("trace_violations_stay_visible", repr(ex)[:200])
        return
    hand = dict(zip(HAND["ammonia"]["keys"], HAND["ammonia"]["B"]))          # not the object's own composition_balance_vectors()

    def is_total(key, got, state):
        # sum_j B_kj c_j to within a few units of rounding of the terms (any order or method of summation), not one particular dot product bit by bit
        terms = [b * x for b, x in zip(hand[key], state)]
        return abs(got - math.fsum(terms)) <= 8 * 2.3e-16 * math.fsum(abs(t) for t in terms)
    ok = sorted(keys) == sorted(hand) and len(tot) == len(keys) == len(tot0) and all(is_total(k, t, c) and is_total(k, t0, c0) for k, t, t0 in zip(keys, tot, tot0))
    v.prove("totals_are_B_times_the_state", ok, detail=repr((keys, tot, tot0)))
    if 7 not in keys or 0 not in keys:
        v.fail("trace_violations_stay_visible", "keys reported: %r" % (keys,))
        return
    iN, iq = keys.index(7), keys.index(0)
    v.prove("trace_violations_stay_visible", abs((tot[iN] - tot0[iN]) + 3e-13) < 1e-20 + 1e-3 * 3e-13 and abs((tot[iq] - tot0[iq]) - 1e-13) < 2e-16 * 1e-7 + 1e-3 * 1e-13,
            detail=repr((tot[iN] - tot0[iN], tot[iq] - tot0[iq])))


def _totals_of_many_states(name):
    @harness("C07", "element_totals_of_many_states." + name, functions=["chempy.equilibria:EqSystem.composition_conservation", "chempy.reactionsystem:ReactionSystem.as_per_substance_array"], kind="data")
    def _(v):
        """'carries the same amount of every element and charge as the initial concentrations ... all reaction extents linking them to an initial
        state': the conservation report of SEVERAL states at once (2-D array, one state per row -- the layout of equilibrium_quotients and of the
        root finder's results) gives, for each state, the totals B c of THAT state under the key it names, whatever the number of states (one, fewer
        than, exactly as many as, more than the number of substances): states reached from the initial state by reaction extents (c = c0 + xi A) are
        reported with the totals of the initial state, a state of the batch with one concentration changed is reported with the totals that follow by
        hand from the changed entry, and each row alone, and the state given as a dict, are reported like the row of the batch.  A, B hand-written"""
        import numpy as np
        from fractions import Fraction as Fr
        from chempy.chemistry import Equilibrium, Species
        from chempy.equilibria import EqSystem
        from collections import OrderedDict
        subs, eqs, _y, y0, Ks = _exact_equilibrium(name)
        A, hand = HAND[name]["A"], dict(zip(HAND[name]["keys"], HAND[name]["B"]))
        ns_, nr = len(subs), len(eqs)
        assert all(sum(b * n for b, n in zip(row, nu)) == 0 for row in hand.values() for nu in A)
        c0 = [y0[s] for s in subs]

        def linked(n):
            # n different states c0 + sum_i xi_i nu_i (exact fractions), extents small enough to stay positive
            out = []
            for m in range(n):
                xi = [Fr((-1) ** (m + i) * (m + 1 + 2 * i), 40 * (n + 2)) for i in range(nr)]
                st = [c0[j] + sum(x * nu[j] for x, nu in zip(xi, A)) for j in range(ns_)]
                assert all(x > 0 for x in st)
                out.append(st)
            return out

        def is_total(key, got, state):
            terms = [float(b * x) for b, x in zip(hand[key], state)]
            return abs(float(got) - math.fsum(terms)) <= 8 * 2.3e-16 * math.fsum(abs(t) for t in terms) + 1e-300

        def report(es, states, init):
            keys, tot, tot0 = es.composition_conservation(states, init)
            keys = list(keys)
            return keys, np.asarray(tot, dtype=float).reshape((len(keys), -1)), np.asarray(tot0, dtype=float).reshape((len(keys), -1))
        try:
            es = EqSystem([Equilibrium(r, p, float(K)) for (r, p), K in zip(eqs, Ks)], OrderedDict((k, Species.from_formula(k)) for k in subs))
        except Exception as ex:
            v.fail("system_builds", repr(ex)[:200])
            return
        init = np.array([float(x) for x in c0])
        for n in sorted(set((1, 2, ns_ - 1, ns_, ns_ + 1, 2 * ns_ + 1))):
            tag = "%d_states" % n
            states = linked(n)
            arr = np.array([[float(x) for x in st] for st in states])
            assert arr.shape == (n, ns_)
            try:
                keys, tot, tot0 = report(es, arr, init)
                ok = sorted(keys) == sorted(hand) and tot.shape == (len(keys), n) and tot0.shape == (len(keys), 1)
                ok = ok and all(is_total(k, tot[i, m], states[m]) and is_total(k, tot[i, m], c0) and is_total(k, tot0[i, 0], c0) for i, k in enumerate(keys) for m in range(n))
                v.prove(tag + ".linked_by_extents_carry_the_totals_of_the_initial_state", ok, detail=repr((keys, tot.tolist(), tot0.tolist())))
            except Exception as ex:
                v.fail(tag + ".linked_by_extents_carry_the_totals_of_the_initial_state", repr(ex)[:200])
            try:
                # the last state of the batch with its second concentration doubled: only that state's totals move, by B[k][1] * c[1]
                bad = [list(st) for st in states]
                bad[-1][1] = 2 * bad[-1][1]
                keys, tot, _t0 = report(es, np.array([[float(x) for x in st] for st in bad]), init)
                ok = sorted(keys) == sorted(hand) and tot.shape == (len(keys), n) and all(is_total(k, tot[i, m], bad[m]) for i, k in enumerate(keys) for m in range(n))
                moved = [abs(tot[i, n - 1] - float(sum(b * x for b, x in zip(hand[k], c0)))) > 0.5 * float(states[-1][1]) for i, k in enumerate(keys) if hand[k][1] != 0]
                v.prove(tag + ".a_state_that_does_not_conserve_is_reported_as_such", ok and len(moved) > 0 and all(moved), detail=repr((keys, tot.tolist())))
            except Exception as ex:
                v.fail(tag + ".a_state_that_does_not_conserve_is_reported_as_such", repr(ex)[:200])
            try:
                # one state at a time (array row, and dict keyed by substance) and the initial state given per state (same layout as the states)
                keys, tot, _t0 = report(es, arr, init)
                same = True
                for m in range(n):
                    k1, t1, _ = report(es, arr[m], init)
                    k2, t2, _ = report(es, dict(zip(subs, arr[m])), dict(zip(subs, init)))
                    same = same and k1 == keys and k2 == keys and t1.shape == t2.shape == (len(keys), 1)
                    same = same and all(is_total(k, t1[i, 0], states[m]) and is_total(k, t2[i, 0], states[m]) for i, k in enumerate(keys))
                kb, _tb, tb0 = report(es, arr, np.array([init] * n))
                same = same and kb == keys and tb0.shape == (len(keys), n) and all(is_total(k, tb0[i, m], c0) for i, k in enumerate(keys) for m in range(n))
                v.prove(tag + ".each_state_alone_and_as_a_dict_like_its_row_of_the_batch", same, detail=repr((keys, tot.tolist())))
            except Exception as ex:
                v.fail(tag + ".each_state_alone_and_as_a_dict_like_its_row_of_the_batch", repr(ex)[:200])
    return _


_totals_of_many_states("ammonia")
_totals_of_many_states("ozone")
_totals_of_many_states("two_step_complexation")
