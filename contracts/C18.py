"""C18  Ionic strength and Debye-Hueckel terms follow their definitions in any units."""
import fractions
import math

from pyvc.api import harness
from pyvc import spec as SP
from pyvc.objs import make_obj
from pyvc.interp import SymOpt
from pyvc.sym import Sym

META = {
    "explanation": "ionic_strength proved for sequences of any length (two loop invariants over None-initialised accumulators, allclose inlined); A/B proved to have the stated functional form on both code paths with the hard-coded factors tied to CODATA by data obligations; log-gamma formulas, their limits and the activity products (loop invariants) proved",
    "trusted_base": ["assumed contract 5.3 (sqrt/exp as real functions)", "CODATA constants typed into this file (F, NA, eps0, kB, R)"],
    "not_decided": ["with-units paths of ionic_strength/A/B under the real `quantities` package (bounded stand-in C18/C09)"],
    "assumptions": [],
}
MOD = "chempy.electrolytes"


def isnone(x):
    if x is None:
        return True
    if isinstance(x, SymOpt):
        from pyvc.sym import wrap
        return wrap(x.isnone)
    return False


def optval(x):
    return x.value if isinstance(x, SymOpt) else x


def opt_shape(name, old):
    import z3
    from pyvc.sym import fresh_name
    return SymOpt(z3.Bool(fresh_name(name + ".isnone")), Sym(z3.Real(fresh_name(name))))


def acc_inv(var, term, nonneg=False):
    def inv(env, i, seq):
        x = env[var]
        if isinstance(i, int) and i == 0:
            return isnone(x)
        cs = [SP.iff(isnone(x), i == 0)]
        if x is not None:
            cs.append(SP.implies(i > 0, optval(x) == SP.ssum_prefix(seq, i, term)))
            if nonneg:
                cs.append(SP.implies(i > 0, optval(x) >= 0))
        return SP.conj(cs)
    return inv


@harness("C18", "ionic_strength.seq", functions=[MOD + ":ionic_strength", "chempy.units:allclose"], samples=60)
def _(v):
    from chempy import electrolytes
    b = v.seq("molalities", "real", lo=0, hi=20, maxlen=5)
    z = v.seq("charges", "int", lo=-4, hi=4, maxlen=5)
    if not v.symbolic:
        z = z[:len(b)] + [1] * (len(b) - len(z))
        delta = v.choice("near_neutral_delta", [None, None, 0.0, 1e-3, 1e-9, 1e-12, 1e-15])
        if delta is not None and len(b) >= 1:
            # nearly charge-neutral compositions: pairs of opposite charges with molalities x and x(1+delta)
            zz, bb = [], []
            for bi, zi in zip(b, z):
                zi = zi or 1
                zz += [zi, -zi]
                bb += [bi + 0.5, (bi + 0.5) * (1 + delta)]
            b, z = bb, zz
    warn = v.bool("warn")
    n = len(b) if not v.symbolic else b.sym_len()
    v.assume(SP.conj([n == (len(z) if not v.symbolic else z.sym_len()), n >= 1]))
    t_is = lambda bz: bz[0] * bz[1] * bz[1]
    t_net = lambda bz: bz[0] * bz[1]
    v.invariant(electrolytes.ionic_strength, 0, acc_inv("tot", t_is, nonneg=True), shapes={"tot": opt_shape})
    v.invariant(electrolytes.ionic_strength, 1, acc_inv("net", t_net), shapes={"net": opt_shape})
    out = v.run(electrolytes.ionic_strength, b, z, warn=warn)
    v.prove("returns", out.returned, detail=repr(out.exc))
    if out.returned:
        pairs = list(zip(b, z)) if not v.symbolic else SP_zip(b, z)
        tot = SP.ssum(pairs, t_is)
        net = SP.ssum(pairs, t_net)
        v.prove("post", v.eq(out.value, tot / 2))
        v.prove("canary", SP.neg(v.eq(out.value, tot / 2 + 1)))
        warned = len(v.events("warning")) > 0
        if warned:
            # exact comparison (in the sampled mode v.eq would be a tolerance test and call a net charge of 1e-13 'neutral')
            v.prove("warned_only_if_enabled_and_not_neutral", SP.conj([warn, SP.neg(net == 0)]))
        else:
            absnet = SP.ite(net >= 0, net, -net)
            v.prove("silent_only_if_disabled_or_nearly_neutral", SP.disj([SP.neg(warn), absnet * (1 - 1e-8) <= tot * 1e-14 + (0 if v.symbolic else 1e-18)]))
        v.prove("at_most_one_warning", len(v.events("warning")) <= 1)


def SP_zip(a, b):
    from pyvc.containers import SymSeq
    return SymSeq(a.sym_len(), lambda i: (a.at(i), b.at(i)), "zip")


@harness("C18", "ionic_strength.length_mismatch", functions=[MOD + ":ionic_strength"], samples=10)
def _(v):
    from chempy import electrolytes
    b = v.seq("molalities", "real", lo=0, hi=20, maxlen=3)
    z = v.seq("charges", "int", lo=-4, hi=4, maxlen=4)
    nb = len(b) if not v.symbolic else b.sym_len()
    nz = len(z) if not v.symbolic else z.sym_len()
    v.assume(SP.neg(nb == nz))
    out = v.run(electrolytes.ionic_strength, b, z)
    v.prove("raises_ValueError", out.raised(ValueError), detail=repr(out.exc))


def _is_dict(n):
    @harness("C18", "ionic_strength.dict%d" % n, functions=[MOD + ":ionic_strength", "chempy.chemistry:Substance.charge"], kind="shape-bounded", samples=20)
    def _(v):
        from chempy import electrolytes
        from chempy.chemistry import Substance
        keys = ["X%d" % i for i in range(n)]
        bs = [v.real("b%d" % i, lo=0, hi=10) for i in range(n)]
        zs = [v.int("z%d" % i, lo=-4, hi=4) for i in range(n)]
        substances = {k: make_obj(Substance, name=k, composition={0: z, 1: 1}, data={}) for k, z in zip(keys, zs)}
        out = v.run(electrolytes.ionic_strength, dict(zip(keys, bs)), substances=substances, warn=False)
        v.prove("returns", out.returned, detail=repr(out.exc))
        if out.returned:
            v.prove("post", v.eq(out.value, sum(b * z * z for b, z in zip(bs, zs)) / 2))


for _n in (1, 2, 3):
    _is_dict(_n)


# ---- Debye-Hueckel A and B -------------------------------------------------------
CODATA = dict(F=96485.33212, NA=6.02214076e23, eps0=8.8541878128e-12, kB=1.380649e-23, R=8.314462618, pi=math.pi)


class _Consts:
    def __init__(self, **kw):
        self.__dict__.update(kw)


@harness("C18", "A.numeric_path", functions=[MOD + ":A", MOD + ":_get_b0"], div_mode="assume", samples=20)
def _(v):
    from chempy import electrolytes
    eps, T, rho = v.real("eps_r", lo=5, hi=100), v.real("T", lo=250, hi=650), v.real("rho", lo=500, hi=1500)
    a = v.call(electrolytes.A, eps, T, rho)
    c1 = fractions.Fraction("132871.85866393594")
    v.prove_identity("square_form", a * a * (T * T * T * eps * eps * eps), c1 * c1 * rho, rel=1e-12)
    v.prove("positive", a > 0)


@harness("C18", "A.constants_path", functions=[MOD + ":A"], div_mode="assume", samples=20)
def _(v):
    from chempy import electrolytes
    eps, T, rho = v.real("eps_r", lo=5, hi=100), v.real("T", lo=250, hi=650), v.real("rho", lo=500, hi=1500)
    if v.symbolic:
        cs = _Consts(Faraday_constant=v.real("F", pos=True), Avogadro_constant=v.real("NA", pos=True), vacuum_permittivity=v.real("eps0", pos=True),
                     Boltzmann_constant=v.real("kB", pos=True), pi=v.real("pi", lo=3, hi=4))
    else:
        cs = _Consts(Faraday_constant=CODATA["F"], Avogadro_constant=CODATA["NA"], vacuum_permittivity=CODATA["eps0"], Boltzmann_constant=CODATA["kB"], pi=CODATA["pi"])
    F, NA, e0, kB, pi = cs.Faraday_constant, cs.Avogadro_constant, cs.vacuum_permittivity, cs.Boltzmann_constant, cs.pi
    a = v.call(electrolytes.A, eps, T, rho, 1, cs)
    # definition: A = F^3/(4 pi NA) * sqrt(rho b0 / (2 (eps0 eps_r kB NA T)^3))  =>  A^2 * 32 pi^2 NA^5 eps0^3 kB^3 T^3 eps_r^3 = F^6 rho b0
    lhs = a * a * (32 * pi * pi * NA ** 5 * e0 ** 3 * kB ** 3 * T ** 3 * eps ** 3)
    v.prove_identity("square_form", lhs, F ** 6 * rho, rel=1e-9)
    v.prove("positive", a > 0)


@harness("C18", "A.B.hardcoded_factors", functions=[MOD + ":A", MOD + ":B"], kind="data")
def _(v):
    from chempy import electrolytes
    c = CODATA
    a_factor = math.sqrt(c["F"] ** 6 / (32 * c["pi"] ** 2 * c["NA"] ** 5 * c["eps0"] ** 3 * c["kB"] ** 3))
    b_factor = c["F"] * math.sqrt(2 / (c["eps0"] * c["R"]))
    v.prove("A_factor_is_CODATA", abs(132871.85866393594 / a_factor - 1) < 2e-6, "A factor %r vs %r" % (132871.85866393594, a_factor))
    v.prove("B_factor_is_CODATA", abs(15903203868.740343 / b_factor - 1) < 2e-6, "B factor vs %r" % b_factor)
    # the two code paths agree on a grid (numeric constant vs constants object of the real package)
    from chempy.units import default_constants as dc, default_units as u, to_unitless
    worst = 0.0
    for T in (250.0, 298.15, 400.0, 650.0):
        for eps in (5.0, 78.4, 100.0):
            for rho in (500.0, 997.0, 1500.0):
                a1 = electrolytes.A(eps, T, rho)
                a2 = electrolytes.A(eps, T * u.K, rho * u.kg / u.m ** 3, 1 * u.mol / u.kg, dc, u)
                worst = max(worst, abs(float(to_unitless(a2, 1)) / a1 - 1))
                b1 = electrolytes.B(eps, T, rho)
                b2 = electrolytes.B(eps, T * u.K, rho * u.kg / u.m ** 3, 1 * u.mol / u.kg, dc, u)
                worst = max(worst, abs(float(to_unitless(b2, 1 / u.m)) / b1 - 1))
    v.prove("paths_agree_on_grid", worst < 5e-6, "worst relative deviation %g" % worst)


@harness("C18", "B.numeric_path", functions=[MOD + ":B"], div_mode="assume", samples=20)
def _(v):
    from chempy import electrolytes
    eps, T, rho = v.real("eps_r", lo=5, hi=100), v.real("T", lo=250, hi=650), v.real("rho", lo=500, hi=1500)
    b = v.call(electrolytes.B, eps, T, rho)
    c2 = fractions.Fraction("15903203868.740343")
    v.prove_identity("square_form", b * b * (T * eps), c2 * c2 * rho, rel=1e-12)
    v.prove("positive", b > 0)


@harness("C18", "B.constants_path", functions=[MOD + ":B"], div_mode="assume", samples=20)
def _(v):
    from chempy import electrolytes
    eps, T, rho = v.real("eps_r", lo=5, hi=100), v.real("T", lo=250, hi=650), v.real("rho", lo=500, hi=1500)
    if v.symbolic:
        cs = _Consts(Faraday_constant=v.real("F", pos=True), vacuum_permittivity=v.real("eps0", pos=True), molar_gas_constant=v.real("R", pos=True))
    else:
        cs = _Consts(Faraday_constant=CODATA["F"], vacuum_permittivity=CODATA["eps0"], molar_gas_constant=CODATA["R"])
    b = v.call(electrolytes.B, eps, T, rho, 1, cs)
    v.prove_identity("square_form", b * b * (eps * cs.vacuum_permittivity * cs.molar_gas_constant * T), cs.Faraday_constant ** 2 * 2 * rho, rel=1e-9)
    v.prove("positive", b > 0)


# ---- log gamma ------------------------------------------------------------------------
def _lg_inputs(v):
    IS = v.real("IS", lo=0, hi=5)
    z = v.int("z", lo=-4, hi=4)
    A = v.real("A", lo=0.1, hi=3)
    return IS, z, A


def _sqrt(v, x):
    if v.symbolic:
        from pyvc.stubs import sym_sqrt
        return sym_sqrt(x) if isinstance(x, Sym) else math.sqrt(x)
    return math.sqrt(x)


@harness("C18", "limiting_log_gamma", functions=[MOD + ":limiting_log_gamma"], div_mode="assume", samples=30)
def _(v):
    from chempy import electrolytes as E
    IS, z, A = _lg_inputs(v)
    r = v.call(E.limiting_log_gamma, IS, z, A)
    v.prove_identity("formula", r, -A * z * z * _sqrt(v, IS))
    v.prove_identity("zero_at_I0", v.call(E.limiting_log_gamma, 0, z, A), 0 * A)
    I0 = v.real("I0", lo=0.5, hi=2)
    r2 = v.call(E.limiting_log_gamma, IS, z, A, I0)
    v.prove_identity("I0_scaling", r2 * r2 * I0, A * A * z * z * z * z * IS)


@harness("C18", "extended_log_gamma", functions=[MOD + ":extended_log_gamma"], div_mode="assume", samples=30)
def _(v):
    from chempy import electrolytes as E
    IS, z, A = _lg_inputs(v)
    a, B, C = v.real("a", lo=0, hi=9), v.real("B", lo=0, hi=5), v.real("C", lo=-1, hi=1)
    s = _sqrt(v, IS)
    r = v.call(E.extended_log_gamma, IS, z, a, A, B, C)
    v.prove_identity("formula", r, -A * z * z * s / (1 + B * a * s) + C * IS)
    v.prove_identity("reduces_to_limiting", v.call(E.extended_log_gamma, IS, z, 0, A, B, 0), v.call(E.limiting_log_gamma, IS, z, A))
    v.prove_identity("zero_at_I0", v.call(E.extended_log_gamma, 0, z, a, A, B, C), 0 * A)
    v.prove_identity("default_C_is_zero", v.call(E.extended_log_gamma, IS, z, a, A, B), -A * z * z * s / (1 + B * a * s))
    # reference ionic strength I0 (the unit of IS): the formula is in IS/I0 throughout, with the sign of the limiting law
    I0 = v.real("I0", lo=0.5, hi=2)
    s0 = _sqrt(v, IS / I0)
    v.prove_identity("with_reference_ionic_strength", v.call(E.extended_log_gamma, IS, z, a, A, B, C, I0), -A * z * z * s0 / (1 + B * a * s0) + C * (IS / I0))
    v.prove_identity("limiting_with_reference_ionic_strength", v.call(E.limiting_log_gamma, IS, z, A, I0), -A * z * z * s0)


@harness("C18", "davies_log_gamma", functions=[MOD + ":davies_log_gamma"], div_mode="assume", samples=30)
def _(v):
    from chempy import electrolytes as E
    IS, z, A = _lg_inputs(v)
    C = v.real("C", lo=-1, hi=1)
    s = _sqrt(v, IS)
    r = v.call(E.davies_log_gamma, IS, z, A, C)
    v.prove_identity("formula", r, -A * z * z * (s / (1 + s) + C * IS))
    v.prove_identity("zero_at_I0", v.call(E.davies_log_gamma, 0, z, A, C), 0 * A)
    v.prove_identity("default_C", v.call(E.davies_log_gamma, IS, z, A), -A * z * z * (s / (1 + s) - 0.3 * IS))
    I0 = v.real("I0", lo=0.5, hi=2)
    s0 = _sqrt(v, IS / I0)
    v.prove_identity("with_reference_ionic_strength", v.call(E.davies_log_gamma, IS, z, A, C, I0), -A * z * z * (s0 / (1 + s0) + C * (IS / I0)))


def _exp(v, x):
    from pyvc.stubs import sym_exp
    return sym_exp(x) if v.symbolic else math.exp(x)


def _products(kind):
    @harness("C18", kind + "_activity_product", functions=[MOD + ":%s_activity_product" % kind, MOD + ":%s_log_gamma" % kind], div_mode="assume", samples=30)
    def _(v):
        from chempy import electrolytes as E
        fn = getattr(E, kind + "_activity_product")
        lg = getattr(E, kind + "_log_gamma")
        IS = v.real("IS", lo=0, hi=3)
        T, eps, rho = v.real("T", lo=250, hi=650), v.real("eps_r", lo=40, hi=100), v.real("rho", lo=500, hi=1500)   # (eps_r >= 40 keeps exp() of the sampled products within double range)
        stoich = v.seq("stoich", "int", lo=-4, hi=4, maxlen=4, minlen=1)      # products positive, reactants negative
        Cc = v.real("C", lo=-1, hi=1)
        zs = v.seq("z", "int", lo=-4, hi=4, maxlen=4, minlen=1)
        aa = v.seq("a", "real", lo=0, hi=9, maxlen=4, minlen=1)
        n = len(stoich) if not v.symbolic else stoich.sym_len()
        if not v.symbolic:
            zs = (zs * 4)[:n]
            aa = (aa * 4)[:n]
        else:
            v.assume(SP.conj([zs.sym_len() == n, aa.sym_len() == n]))
        Aval = v.call(E.A, eps, T, rho)
        Bval = v.call(E.B, eps, T, rho)

        def term_at(j):
            if kind == "limiting":
                return SP.select(stoich, j) * v.call(lg, IS, SP.select(zs, j), Aval)
            if kind == "extended":
                return SP.select(stoich, j) * v.call(lg, IS, SP.select(zs, j), SP.select(aa, j), Aval, Bval, Cc)
            return SP.select(stoich, j) * v.call(lg, IS, SP.select(zs, j), Aval, Cc)
        idx = list(range(n)) if not v.symbolic else None
        if v.symbolic:
            from pyvc.containers import SymSeq
            terms = SymSeq(n, term_at, "terms")
        else:
            terms = [term_at(j) for j in idx]
        v.invariant(fn, 0, lambda env, i, seq: env["@acc"] == SP.ssum_prefix(terms, i))
        if kind == "limiting":
            r = v.call(fn, IS, stoich, zs, T, eps, rho)
        elif kind == "extended":
            r = v.call(fn, IS, stoich, zs, aa, T, eps, rho, Cc)
        else:
            r = v.call(fn, IS, stoich, zs, aa, T, eps, rho, Cc)
        v.prove("post", v.eq(r, _exp(v, SP.ssum(terms))))
    return _


for _k in ("limiting", "extended", "davies"):
    _products(_k)


@harness("C18", "ActivityProduct.call", functions=[MOD + ":LimitingDebyeHuckelActivityProduct.__call__", MOD + ":ExtendedDebyeHuckelActivityProduct.__call__"], kind="data")
def _(v):
    from chempy import electrolytes as E
    c = [0.1, 0.1]
    z = [1, -1]
    IS = E.ionic_strength(c, z)
    lim = E.LimitingDebyeHuckelActivityProduct((1, 1), z, 298.15, 78.4, 997.0)
    v.prove("limiting_delegates", SP.approx_eq(lim(c), E.limiting_activity_product(IS, (1, 1), z, 298.15, 78.4, 997.0)))
    ext = E.ExtendedDebyeHuckelActivityProduct((1, 1), z, [4e-10, 3e-10], 298.15, 78.4, 997.0)
    v.prove("extended_delegates", SP.approx_eq(ext(c), E.extended_activity_product(IS, (1, 1), z, [4e-10, 3e-10], 298.15, 78.4, 997.0)))


@harness("C18", "ionic_strength.dict_lookup_by_key", functions=[MOD + ":ionic_strength"], kind="shape-bounded", samples=30)
def _(v):
    """the substances mapping may be ordered differently / hold more species than the molalities: charges are looked up by key"""
    from chempy import electrolytes
    from chempy.chemistry import Substance
    from collections import OrderedDict
    zs = {"Fe+3": v.int("z_Fe", lo=1, hi=4), "Cl-": v.int("z_Cl", lo=-3, hi=-1), "Na+": v.int("z_Na", lo=1, hi=2)}
    substances = OrderedDict((k, make_obj(Substance, name=k, composition={0: zs[k], 1: 1}, data={})) for k in ["Na+", "Cl-", "Fe+3"])
    b1, b2 = v.real("b_Fe", lo=0, hi=5), v.real("b_Cl", lo=0, hi=5)
    out = v.run(electrolytes.ionic_strength, OrderedDict([("Fe+3", b1), ("Cl-", b2)]), substances=substances, warn=False)
    v.prove("returns", out.returned, detail=repr(out.exc))
    if out.returned:
        v.prove("each_ion_with_its_own_charge", v.eq(out.value, (b1 * zs["Fe+3"] * zs["Fe+3"] + b2 * zs["Cl-"] * zs["Cl-"]) / 2))
