# -*- coding: utf-8 -*-
"""Bounded stand-ins for C12: reaction text is read as written; printing and parsing are inverse.

Real code under check : Reaction.from_string / Equilibrium.from_string / ReactionSystem.from_string /
                        EqSystem.from_string (chempy.util.parsing.to_reaction, _parse_multiplicity),
                        str(rxn), rxn.string(), rsys.string(), Reaction.copy / __eq__
Oracle                : every text is WRITTEN by this module from a structure (which species, which
                        coefficient, which side, active or inactive, which parameter text); the
                        expectation is that structure (coefficients of a repeated species summed).
                        For the round trips the expectation is the object that was constructed.

Stand-ins
  as_written      lines in the documented notation: 'n X', 'n * X', 'X', '1 X' terms joined by ' + ',
                  '(n X)' inactive groups, '->' / '=' arrow, '; number', '; name=.., ref=..';
                  allowed-key list (list or space separated string) accepted / a missing key rejected
  roundtrip       Reaction / Equilibrium built from plain dicts: from_string(str(r)) == r (parameter of
                  <= 3 significant digits exactly; otherwise equal to float('%.3g' % p), i.e. within
                  5e-3 relative), with and without allowed keys; copy() == original, independent dicts
  system          multi-line text with blank lines and comment lines: reactions in written order with
                  the written content; unknown key rejected; from_string(rsys.string()) == rsys;
                  ReactionSystem (Reaction lines) and EqSystem (Equilibrium lines)
Species keys come from the formula generator of _formulas.py (space free; brackets, charges, phases,
primes, greek prefixes; 15% forced to begin with a '(' group such as (NH4)2SO4).  A key that is as a whole
enclosed by one pair of round brackets is by the notation an inactive group and is not used as a key.
Float comparisons: integer coefficients exact; decimal coefficients 1e-9 relative; parameters exact
(float(text) of the written literal).
"""
from . import _formulas as F

_STATE = {}


def _api():
    if not _STATE:
        from chempy import Reaction, Equilibrium, ReactionSystem, Substance
        from chempy.equilibria import EqSystem
        from chempy.util.parsing import formula_to_composition
        _STATE.update(Reaction=Reaction, Equilibrium=Equilibrium, ReactionSystem=ReactionSystem,
                      EqSystem=EqSystem, Substance=Substance)
        formula_to_composition("H2O")
        Reaction.from_string("H2 -> 2 H; 1.0")      # warm the parsing context before forking
    return _STATE


ARROW = {"Reaction": "->", "Equilibrium": "="}


# ---------------------------------------------------------------------------------------------- keys
def _whole_group(key):
    """key is one '(...)' group as a whole (what the notation reads as an inactive group)."""
    if not (key.startswith("(") and key.endswith(")")):
        return False
    depth = 0
    for i, ch in enumerate(key):
        depth += ch == "("
        depth -= ch == ")"
        if depth == 0:
            return i == len(key) - 1
    return False


def gen_key(rng):
    while True:
        tree = F.gen_tree(rng, depth=rng.randint(0, 2))
        if rng.random() < 0.15:     # bracket-initial key, e.g. (NH4)2SO4 / (CH3)3N(aq)
            sub = [["e", F.SYMBOLS[rng.randrange(118)], str(rng.randint(2, 4))], ["e", F.SYMBOLS[rng.randrange(118)], ""]]
            tree["parts"][0]["terms"].insert(0, ["g", "(", sub[:rng.randint(1, 2)], str(rng.randint(2, 3)) if rng.random() < 0.8 else ""])
            tree["greek"], tree["radical"] = None, False
        key = F.render(tree)
        if not _whole_group(key) and " " not in key:
            return key


def gen_keys(rng, n):
    keys = []
    while len(keys) < n:
        k = gen_key(rng)
        if k not in keys:
            keys.append(k)
    return keys


# ---------------------------------------------------------------------------------------------- written lines
def _coeff(rng):
    r = rng.random()
    if r < 0.35:
        return 1
    if r < 0.80:
        return rng.randint(2, 9)
    if r < 0.93:
        return rng.randint(10, 99)
    return rng.randint(100, 1000)


def gen_line(rng, keys, cls=None, allow_inactive=True, allow_decimal=True, with_kw=True):
    """A written reaction line as a structure; terms are [key index, coefficient text, style, inactive]."""
    cls = cls or ("Equilibrium" if rng.random() < 0.35 else "Reaction")
    nk = len(keys)
    while True:
        sides = []
        for lo in (0, 1):
            terms = []
            for _ in range(rng.randint(lo if rng.random() < 0.1 else 1, 5)):
                c = _coeff(rng)
                if c == 1:
                    ctext, style = "1", ("bare", "bare", "bare", "one", "star")[rng.randrange(5)]
                else:
                    ctext, style = str(c), ("n", "n", "n", "star")[rng.randrange(4)]
                inactive = allow_inactive and rng.random() < 0.15
                terms.append([rng.randrange(nk), ctext, style, inactive])
            sides.append(terms)
        decimal = False
        if allow_decimal and rng.random() < 0.08 and sides[1]:
            t = sides[1][rng.randrange(len(sides[1]))]
            t[1], t[2] = ("0.5", "2.5", "1.25", "1e-1", "3.0")[rng.randrange(5)], "n"
            decimal = True
        case = {"cls": cls, "reac": sides[0], "prod": sides[1], "decimal": decimal}
        exp = expected_line(case)
        net = {}
        for name, sgn in (("reac", -1), ("inact_reac", -1), ("prod", 1), ("inact_prod", 1)):
            for k, v in exp[name].items():
                net[k] = net.get(k, 0) + sgn * v
        if any(abs(v) > 1e-9 for v in net.values()):      # the constructor insists on a net effect
            break
    r = rng.random()
    if r < 0.35:
        case["param"] = None
    elif r < 0.75:
        case["param"] = "%.3g" % (rng.uniform(1, 10) * 10.0 ** rng.randint(-15, 15))
    elif r < 0.85:
        case["param"] = str(rng.randint(1, 10 ** rng.randint(1, 6)))
    else:
        case["param"] = repr(rng.uniform(1, 10) * 10.0 ** rng.randint(-15, 15))
    case["kw"] = None
    if with_kw and rng.random() < 0.25:
        kw = {}
        if rng.random() < 0.7:
            kw["name"] = "r%d" % rng.randint(0, 10 ** 6)
        if not kw or rng.random() < 0.5:
            kw["ref"] = "doi:10.%d/x%d" % (rng.randint(1000, 9999), rng.randint(0, 99))
        case["kw"] = kw
    case["space"] = rng.randrange(4)
    return case


def _term_text(key, ctext, style, inactive):
    if style in ("bare",):
        t = key
    elif style == "star":
        t = "%s * %s" % (ctext, key)
    else:       # "n", "one"
        t = "%s %s" % (ctext, key)
    return "(" + t + ")" if inactive else t


def write_line(case, keys):
    sp = case.get("space", 0)
    plus = " + " if sp != 3 else "  +  "
    left = plus.join(_term_text(keys[i], c, s, ia) for i, c, s, ia in case["reac"])
    right = plus.join(_term_text(keys[i], c, s, ia) for i, c, s, ia in case["prod"])
    arrow = ARROW[case["cls"]]
    line = left + (" " if sp != 1 else "  ") + arrow + (" " if sp != 1 else "   ") + right
    if sp == 2:
        line = "  " + line + " "
    if case["param"] is not None or case["kw"]:
        line += ("; " if sp != 1 else " ; ") + (case["param"] if case["param"] is not None else "None")
    if case["kw"]:
        line += "; " + ", ".join("%s=%r" % kv for kv in sorted(case["kw"].items()))
    return line


def _num(ctext):
    return float(ctext) if ("." in ctext or "e" in ctext) else int(ctext)


def expected_line(case):
    exp = {"reac": {}, "prod": {}, "inact_reac": {}, "inact_prod": {}}
    for side in ("reac", "prod"):
        for i, ctext, style, inactive in case[side]:
            d = exp[("inact_" + side) if inactive else side]
            d[i] = d.get(i, 0) + _num(ctext)
    return exp


def _cmp_side(name, obs, exp, keys):
    want = {keys[i]: v for i, v in exp.items()}
    got = dict(obs)
    if set(got) != set(want):
        return "%s has species %s, written %s" % (name, sorted(got), sorted(want))
    for k, v in want.items():
        if not (got[k] == v or (isinstance(v, float) and abs(got[k] - v) <= 1e-9 * abs(v))):
            return "%s[%r] == %r, written %r" % (name, k, got[k], v)
    return None


def compare_rxn(rxn, case, keys, cls_obj):
    if type(rxn) is not cls_obj:
        return "result is a %s, expected %s" % (type(rxn).__name__, case["cls"])
    exp = expected_line(case)
    for name in ("reac", "prod", "inact_reac", "inact_prod"):
        d = _cmp_side(name, getattr(rxn, name), exp[name], keys)
        if d:
            return d
    if case["param"] is None:
        if rxn.param is not None:
            return "param == %r, none written" % (rxn.param,)
    else:
        want = _num(case["param"])
        if isinstance(rxn.param, bool) or not isinstance(rxn.param, (int, float)) or rxn.param != want:
            return "param == %r, written %s" % (rxn.param, case["param"])
    kw = case.get("kw") or {}
    if rxn.name != kw.get("name") or rxn.ref != kw.get("ref"):
        return "name/ref == %r/%r, written %r" % (rxn.name, rxn.ref, kw)
    return None


def _used(case):
    return sorted({t[0] for t in case["reac"] + case["prod"]})


def _checks_kw(case):
    return {"checks": ("any_effect", "all_positive")} if case.get("decimal") else {}


def _near_miss(key, keys):
    for cand in (key + "2", key[:-1], key + "'", "H" + key):
        if cand and cand not in keys and " " not in cand:
            return cand
    return key + "3"


# ---------------------------------------------------------------------------------------------- as_written
def _check_written(case):
    api = _api()
    keys = case["keys"]
    cls = api[case["cls"]]
    line = write_line(case, keys)
    mode = case["allowed"]
    used = _used(case)
    if mode is None:
        allowed = None
    else:
        names = list(keys)
        if mode[0] == "drop":       # one species that is used is not in the allowed list (a near miss is)
            names[used[mode[1] % len(used)]] = _near_miss(keys[used[mode[1] % len(used)]], keys)
        allowed = " ".join(names) if mode[-1] == "str" else names
    try:
        rxn = cls.from_string(line, allowed, **_checks_kw(case))
    except Exception as e:
        if mode is not None and mode[0] == "drop":
            return None
        return "%s.from_string(%r, %r) raised %s: %s" % (case["cls"], line, allowed, type(e).__name__, str(e)[:120])
    if mode is not None and mode[0] == "drop":
        return "%s.from_string(%r, %r) accepted a species that is not in the allowed list" % (case["cls"], line, allowed)
    d = compare_rxn(rxn, case, keys, cls)
    return ("%s.from_string(%r): %s" % (case["cls"], line, d)) if d else None


def gen_written(rng):
    keys = gen_keys(rng, rng.randint(2, 6))
    case = gen_line(rng, keys)
    case["keys"] = keys
    r = rng.random()
    if r < 0.35:
        case["allowed"] = None
    elif r < 0.55:
        case["allowed"] = ["all", "list"]
    elif r < 0.70:
        case["allowed"] = ["all", "str"]
    else:
        case["allowed"] = ["drop", rng.randrange(64), "list" if rng.random() < 0.7 else "str"]
    return case


def _w_written(job):
    seed, chunk, ncases = job
    rng = F.rng_for(seed, "C12.written", chunk)
    n, keys, viol, samples = 0, [], [], []
    for _ in range(ncases):
        case = gen_written(rng)
        d = _check_written(case)
        n += 1
        line = write_line(case, case["keys"])
        keys.append(F.key_of(case["cls"] + line + repr(case["allowed"])))
        if d:
            viol.append({"inputs": case, "detail": d})
        elif len(samples) < 1 and chunk < 4:
            samples.append({"cls": case["cls"], "line": line, "allowed": case["allowed"]})
    return {"n": n, "keys": keys, "violations": viol, "samples": samples}


# ---------------------------------------------------------------------------------------------- roundtrip
def gen_object(rng, keys=None, cls=None):
    keys = keys or gen_keys(rng, rng.randint(2, 7))
    nk = len(keys)
    cls = cls or ("Equilibrium" if rng.random() < 0.4 else "Reaction")
    while True:
        reac = {rng.randrange(nk): _coeff(rng) for _ in range(rng.randint(0 if rng.random() < 0.08 else 1, 5))}
        prod = {rng.randrange(nk): _coeff(rng) for _ in range(rng.randint(1, 5))}
        if any(prod.get(i, 0) != reac.get(i, 0) for i in range(nk)):
            break
    r = rng.random()
    if r < 0.2:
        param = None
    elif r < 0.7:
        param = float("%.3g" % (rng.uniform(1, 10) * 10.0 ** rng.randint(-15, 15)))     # <= 3 significant digits
    elif r < 0.8:
        param = rng.randint(1, 10 ** rng.randint(1, 6))
    else:
        # full-precision mantissa, incl. carry cases just below a rounding boundary (9.995.., 1.0049..)
        mant = (rng.uniform(1, 10), 9.995 + rng.random() * 0.005, 1.0045 + rng.random() * 0.001)[rng.randrange(3)]
        param = mant * 10.0 ** rng.randint(-15, 15)
    return {"cls": cls, "keys": keys, "reac": sorted(reac.items()), "prod": sorted(prod.items()), "param": param}


def _build(case):
    api = _api()
    keys = case["keys"]
    return api[case["cls"]]({keys[i]: c for i, c in case["reac"]}, {keys[i]: c for i, c in case["prod"]}, case["param"])


def _same_fields(a, b):
    for name in ("reac", "prod", "inact_reac", "inact_prod"):
        if list(getattr(a, name).items()) != list(getattr(b, name).items()):
            return "%s: %r vs %r" % (name, dict(getattr(a, name)), dict(getattr(b, name)))
    return None


def _check_roundtrip(case):
    api = _api()
    cls = api[case["cls"]]
    keys = case["keys"]
    try:
        rxn = _build(case)
        text = str(rxn)
        bare = rxn.string()
    except Exception as e:
        return "constructing/printing %r raised %s: %s" % (case, type(e).__name__, str(e)[:120])
    p = case["param"]
    three = p is None or isinstance(p, int) or float("%.3g" % p) == p
    for allowed in (None, list(keys), " ".join(keys)):
        try:
            back = cls.from_string(text, allowed)
            back_bare = cls.from_string(bare, allowed)
        except Exception as e:
            return "%s.from_string(%r, %r) raised %s: %s" % (case["cls"], text, allowed, type(e).__name__, str(e)[:120])
        d = _same_fields(back, rxn) or _same_fields(back_bare, rxn)
        if d:
            return "%s.from_string(%r) differs from the printed object in %s" % (case["cls"], text, d)
        if back_bare.param is not None:
            return "%s.from_string(%r).param == %r" % (case["cls"], bare, back_bare.param)
        if three:
            if not (back == rxn) or back != rxn or back.param != p:
                return "%s.from_string(%r) != the printed object (param %r vs %r)" % (case["cls"], text, back.param, p)
        else:
            want = float("%.3g" % p)
            if back.param != want or abs(back.param - p) > 5.0000001e-3 * abs(p):
                return "%s.from_string(%r).param == %r; printed object has %r (3 significant digits: %r)" % (
                    case["cls"], text, back.param, p, want)
        if type(back) is not cls:
            return "from_string gives a %s" % type(back).__name__
    return None


def gen_copy_case(rng):
    case = gen_object(rng)
    nk = len(case["keys"])
    case["inact_reac"] = sorted({rng.randrange(nk): _coeff(rng) for _ in range(rng.randint(0, 2))}.items())
    case["inact_prod"] = sorted({rng.randrange(nk): _coeff(rng) for _ in range(rng.randint(0, 2))}.items())
    case["name"] = None if rng.random() < 0.5 else "n%d" % rng.randrange(1000)
    case["ref"] = None if rng.random() < 0.5 else "ref%d" % rng.randrange(1000)
    return case


def _check_copy(case):
    api = _api()
    keys = case["keys"]
    try:
        rxn = api[case["cls"]]({keys[i]: c for i, c in case["reac"]}, {keys[i]: c for i, c in case["prod"]}, case["param"],
                               inact_reac={keys[i]: c for i, c in case["inact_reac"]},
                               inact_prod={keys[i]: c for i, c in case["inact_prod"]},
                               name=case["name"], ref=case["ref"], checks=())
        cp = rxn.copy()
    except Exception as e:
        return "copy of %r raised %s: %s" % (case, type(e).__name__, str(e)[:120])
    if not (cp == rxn) or cp != rxn or type(cp) is not type(rxn):
        return "copy() != original for %r" % (case,)
    d = _same_fields(cp, rxn)
    if d or cp.param != rxn.param:
        return "copy() differs from the original in %s" % (d or "param")
    if cp is rxn or cp.reac is rxn.reac or cp.prod is rxn.prod:
        return "copy() shares its stoichiometry dictionaries with the original"
    return None


def _w_roundtrip(job):
    seed, chunk, ncases = job
    rng = F.rng_for(seed, "C12.roundtrip", chunk)
    n, keys, viol, samples = 0, [], [], []
    for j in range(ncases):
        if j % 5 == 4:
            case = gen_copy_case(rng)
            d = _check_copy(case)
            kind = "copy"
        else:
            case = gen_object(rng)
            d = _check_roundtrip(case)
            kind = "roundtrip"
        n += 1
        keys.append(F.key_of(kind + repr(sorted(case.items()))))
        if d:
            viol.append({"inputs": dict(case, kind=kind), "detail": d})
        elif len(samples) < 1 and chunk < 4 and kind == "roundtrip":
            samples.append({"cls": case["cls"], "printed": str(_build(case))})
    return {"n": n, "keys": keys, "violations": viol, "samples": samples}


# ---------------------------------------------------------------------------------------------- system
NOISE = ("", "   ", "# H2O -> H+ + OH-; 1e-4", "   # indented comment = not a reaction", "#", "\t")


def gen_system(rng):
    cls = "Equilibrium" if rng.random() < 0.3 else "Reaction"
    keys = gen_keys(rng, rng.randint(2, 6))        # small pool: later reactions touch the same species
    lines, seen = [], set()
    inactive = rng.random() < 0.3
    while len(lines) < rng.randint(1, 6):
        ln = gen_line(rng, keys, cls=cls, allow_inactive=inactive, allow_decimal=False, with_kw=False)
        sig = repr(sorted((k, sorted(v.items())) for k, v in expected_line(ln).items()))
        if sig in seen:
            continue
        seen.add(sig)
        lines.append(ln)
    noise = [[rng.randrange(len(lines) + 1), rng.randrange(len(NOISE))] for _ in range(rng.randint(0, 5))]
    r = rng.random()
    subst = None if r < 0.5 else ("all" if r < 0.75 else ["drop", rng.randrange(64)])
    return {"cls": cls, "keys": keys, "lines": lines, "noise": noise, "subst": subst,
            "factory": "from_formula" if rng.random() < 0.5 else "plain", "trail_nl": rng.random() < 0.5}


def write_system(case):
    out = [write_line(ln, case["keys"]) for ln in case["lines"]]
    for pos, k in sorted(case["noise"], reverse=True):
        out.insert(pos, NOISE[k])
    return "\n".join(out) + ("\n" if case["trail_nl"] else "")


def _check_system(case):
    api = _api()
    keys = case["keys"]
    Sys = api["EqSystem" if case["cls"] == "Equilibrium" else "ReactionSystem"]
    cls = api[case["cls"]]
    text = write_system(case)
    used = sorted({i for ln in case["lines"] for i in _used(ln)})
    kw = {}
    if case["factory"] == "from_formula":
        kw = {"substance_factory": api["Substance"].from_formula, "dont_check": {"balance"}}   # generated reactions are not balanced
    else:
        kw = {"substance_factory": api["Substance"]}          # no compositions: all default checks stay on
    subst = None
    if case["subst"] == "all":
        subst = [keys[i] for i in used]
    elif case["subst"] is not None:
        drop = used[case["subst"][1] % len(used)]
        subst = [keys[i] if i != drop else _near_miss(keys[i], keys) for i in used]
    try:
        rsys = Sys.from_string(text, subst, **kw)
    except Exception as e:
        if isinstance(case["subst"], list):
            return None
        return "%s.from_string(%r, %r) raised %s: %s" % (Sys.__name__, text, subst, type(e).__name__, str(e)[:120])
    if isinstance(case["subst"], list):
        return "%s.from_string(%r, %r) accepted a species that is not among the substances" % (Sys.__name__, text, subst)
    if len(rsys.rxns) != len(case["lines"]):
        return "%s.from_string(%r) has %d reactions, %d written" % (Sys.__name__, text, len(rsys.rxns), len(case["lines"]))
    for idx, (rxn, ln) in enumerate(zip(rsys.rxns, case["lines"])):
        d = compare_rxn(rxn, ln, keys, cls)
        if d:
            return "%s.from_string(%r): reaction %d: %s" % (Sys.__name__, text, idx, d)
    want_keys = [keys[i] for i in used]
    if list(rsys.substances.keys()) != (want_keys if subst is not None else sorted(want_keys)):
        return "%s.from_string(%r).substances == %r" % (Sys.__name__, text, list(rsys.substances.keys()))
    # printing the system and parsing the text back (only without inactive groups)
    if not any(t[3] for ln in case["lines"] for t in ln["reac"] + ln["prod"]):
        try:
            printed = rsys.string()
            back = Sys.from_string(printed, subst, **kw)
        except Exception as e:
            return "round trip of the system parsed from %r raised %s: %s" % (text, type(e).__name__, str(e)[:120])
        if printed.count("\n") != len(case["lines"]):
            return "%s.string() == %r: not one line per reaction" % (Sys.__name__, printed)
        for idx, (rxn, ln) in enumerate(zip(back.rxns, case["lines"])):
            exp = dict(ln, kw=None)
            if ln["param"] is not None and isinstance(_num(ln["param"]), float):
                exp["param"] = "%.3g" % _num(ln["param"])          # printed precision (integers are printed in full)
            d = compare_rxn(rxn, exp, keys, cls)
            if d:
                return "from_string(%r) (printed from %r): reaction %d: %s" % (printed, text, idx, d)
        if all(ln["param"] is None or isinstance(_num(ln["param"]), int) or float("%.3g" % _num(ln["param"])) == _num(ln["param"])
               for ln in case["lines"]):
            if not (back == rsys) or len(back.rxns) != len(rsys.rxns):
                return "%s.from_string(rsys.string()) != rsys for rsys parsed from %r" % (Sys.__name__, text)
    return None


def _w_system(job):
    seed, chunk, ncases = job
    rng = F.rng_for(seed, "C12.system", chunk)
    n, keys, viol, samples = 0, [], [], []
    for _ in range(ncases):
        case = gen_system(rng)
        d = _check_system(case)
        n += 1
        text = write_system(case)
        keys.append(F.key_of(case["cls"] + text + repr(case["subst"]) + case["factory"]))
        if d:
            viol.append({"inputs": case, "detail": d})
        elif len(samples) < 1 and chunk < 3:
            samples.append({"cls": case["cls"], "text": text})
    return {"n": n, "keys": keys, "violations": viol, "samples": samples}


# ----------------------------------------------------------------------------------------------
def _fixed_cases():
    """The witnesses of finding F-C12 and a few documented examples, as written structures."""
    mk = lambda cls, keys, reac, prod, param=None: {"cls": cls, "keys": keys, "reac": reac, "prod": prod, "param": param,
                                                    "kw": None, "space": 0, "allowed": None, "decimal": False}
    return [
        mk("Reaction", ["(NH4)2SO4", "NH4+", "SO4-2"], [[0, "1", "bare", False]], [[1, "2", "n", False], [2, "1", "bare", False]]),
        mk("Reaction", ["(CH3)3N(aq)", "H2O", "(CH3)3NH+", "OH-"], [[0, "1", "bare", False], [1, "1", "bare", False]],
           [[2, "1", "bare", False], [3, "1", "bare", False]]),
        mk("Reaction", ["e-(aq)", "H2O", "H2", "OH-"], [[0, "2", "star", False], [1, "2", "n", True]],
           [[2, "1", "star", False], [3, "2", "star", False]], "1e6"),
        mk("Equilibrium", ["H2O", "H+", "OH-"], [[0, "1", "bare", False], [0, "1", "bare", False]],
           [[1, "1", "bare", False], [2, "1", "bare", False], [0, "1", "one", False]], "1e-14"),
        mk("Reaction", ["(NH4)2(SO4)", "NH4+", "SO4-2"], [[0, "3", "n", False], [0, "1", "bare", True]], [[1, "6", "n", False], [2, "3", "n", False]]),
    ]


def run(tier, seed):
    _api()
    procs = 16
    if tier == "quick":
        nw, nr, ns = (32, 400), (32, 150), (32, 60)
    else:
        nw, nr, ns = (320, 2500), (320, 600), (320, 300)
    fixed = {"n": 0, "keys": [], "violations": [], "samples": []}
    for case in _fixed_cases():
        d = _check_written(case)
        fixed["n"] += 1
        fixed["keys"].append(F.key_of(write_line(case, case["keys"])))
        if d:
            fixed["violations"].append({"inputs": case, "detail": d})
    res_w = [fixed] + F.pmap(_w_written, [(seed, c, nw[1]) for c in range(nw[0])], procs)
    res_r = F.pmap(_w_roundtrip, [(seed, c, nr[1]) for c in range(nr[0])], procs)
    res_s = F.pmap(_w_system, [(seed, c, ns[1]) for c in range(ns[0])], procs)
    keyb = ("species keys from the C01 formula generator (depth <= 2; brackets, charges, phases, primes, prefixes; 15% begin "
            "with a '(' group), 2..7 keys per case")
    return {"standins": [
        F.merge(res_w, "as_written",
                "a line is written from a structure: <= 5 terms per side as 'n X' / 'n * X' / 'X' / '1 X', coefficients "
                "1..1000 (8% of lines carry one decimal coefficient), repeated species, 15% of terms as '(n X)' inactive "
                "groups, '->' (Reaction) or '=' (Equilibrium), optional '; number' (3-digit, integer or 17-digit literal over "
                "30 decades) and '; name=..., ref=...', four spacing variants; Cls.from_string must give exactly the written "
                "species / summed coefficients on the written side, active vs inactive, param == float(literal), name/ref; with "
                "an allowed-key list or string containing all keys it must accept, with one used key replaced by a near miss it "
                "must raise; plus 5 fixed lines (F-C12 witnesses, documented examples)",
                keyb + "; <= 5 terms per side"),
        F.merge(res_r, "roundtrip",
                "Reaction/Equilibrium constructed from plain dicts (<= 5 species per side, coefficients 1..1000, parameter "
                "None / <= 3 significant digits over 1e-15..1e16 / integer / full-precision incl. rounding-carry mantissas): "
                "from_string(str(r)) and from_string(r.string()) have the same ordered species and coefficients, == r when the "
                "parameter has <= 3 digits, else param == float('%.3g' % p) (<= 5e-3 relative); repeated with allowed keys as "
                "list and as string; every 5th case: copy() of a reaction with inactive parts/name/ref == original, with its own "
                "dictionaries",
                keyb),
        F.merge(res_s, "system",
                "1..6 written lines over a shared pool of 2..6 keys (later lines reuse species), blank / whitespace / '#' "
                "comment lines interleaved, optional trailing newline; ReactionSystem.from_string (Reaction lines) or "
                "EqSystem.from_string (Equilibrium lines) must give the written reactions in order, the used keys as substances "
                "(sorted, or in the given order when a list is given) and raise when a used key is missing from the given list; "
                "if no inactive group is present, from_string(rsys.string()) has the same reactions to printed precision and "
                "== rsys when all parameters have <= 3 digits; substance_factory alternates between Substance.from_formula "
                "(balance check off: generated reactions are not balanced) and Substance (all default checks on)",
                keyb + "; <= 6 reactions, <= 5 noise lines"),
    ]}


def replay(case):
    inp = case["inputs"]
    name = case.get("name")
    if name == "system" or "lines" in inp:
        d = _check_system(inp)
    elif inp.get("kind") == "copy":
        d = _check_copy(inp)
    elif name == "roundtrip" or inp.get("kind") == "roundtrip":
        d = _check_roundtrip(inp)
    else:
        d = _check_written(inp)
    return (d is None), (d or "holds")
