"""C11  Arithmetic on equilibria keeps the constant consistent with the stoichiometry."""
from pyvc.api import harness
from pyvc import spec as SP
from pyvc.sym import Sym

META = {
    "explanation": "intdiv proved for all integers; integer scaling, negation, addition and subtraction of equilibria proved (net stoichiometry, positivity, netted form, side swap, constant = product of powers) for every coefficient and constant at fixed key layouts that include species on opposite sides, shared species and operands that have a species on both sides themselves; cancel (also fed back to the operators) and as_reactions likewise; the induction over operation histories is the Lean lemma pair nu_eq_combination / const_eq_product_of_powers (lemmas/C11_history.lean); two- and three-step expressions are also proved directly on the code, and expression trees with exact constants (Fraction, sympy rationals and symbols) are replayed on the real objects with exact comparison at every node. The listing clause (every coefficient positive, netted, cancelled species removed) is NOT carried by the lemma, which is about net stoichiometry and constant only: it is proved for one addition/subtraction of arbitrary operands of the layouts, i.e. for the OUTERMOST add/sub of any history, and positivity for one scaling",
    "trusted_base": ["pow(K, n) axioms (5.3)", "Lean 4 kernel + Mathlib for lemmas/C11_history.lean (re-checked on every run, C11.lemma.*): for any expression over any number of operands, net stoichiometry = sum_i c_i nu_i and constant = prod_i K_i^c_i, given that one scaling/addition/subtraction acts as proved in C11.scale/add/sub; the correspondence between `EqExpr.nu/const` and those obligations is by inspection. The Lean operations are total, the code's are not (see assumptions): the theorem transfers to the histories in which no sub-expression has an empty net stoichiometry"],
    "not_decided": ["Equilibrium.eliminate: the common multiple comes from sympy.primefactors (bounded stand-in, exhaustive on [-60,60]^2; on the real code: all pairs in [-12,12]^2, and by class of coefficient -- every value up to 2000 and every exact prime power up to 70000 against coprime, dividing, multiple, equal and opposite partners, eliminate.any_coefficients)",
                    "constants given as Python int: a negative factor turns them into float (49 ** -1), so -(-e) has the constant 49.00000000000001; exactness is stated for Fraction and sympy constants only (histories.exact_constants)"],
    "assumptions": ["key layouts fixed per harness (shape-bounded)",
                    "histories without a sub-expression whose net stoichiometry is empty: 0*e, e - e, e + reverse(e), also as an intermediate as in (e1 - e1) + e2, are refused by the pinned tree (ValueError from the result's constructor) where the statement reads as the empty equilibrium with constant 1; scale.* assume n != 0, and degenerate_and_inactive.* state that such an expression is refused or exact, never something else",
                    "operands without inactive parts (the quantifier); for operands that have them only the active part is stated (degenerate_and_inactive)"],
}
CH = "chempy.chemistry"


@harness("C11", "intdiv", functions=["chempy._util:intdiv"], samples=60)
def _(v):
    from chempy._util import intdiv
    p = v.int("p", lo=-50, hi=50)
    q = v.int("q", lo=-9, hi=9)
    v.assume(q != 0)
    r = v.call(intdiv, p, q)
    # truncation toward zero: p = q*r + rem with |rem| < |q| and rem having the sign of p (or 0)
    rem = p - q * r
    v.prove("trunc", SP.conj([abs(rem) < abs(q), SP.implies(p >= 0, rem >= 0), SP.implies(p <= 0, rem <= 0)]))
    out = v.run(intdiv, p, 0)
    v.prove("zero_divisor_raises", out.raised(ZeroDivisionError))


@harness("C11", "ArithmeticDict.scalar", functions=["chempy.util.arithmeticdict:ArithmeticDict.__mul__", "chempy.util.arithmeticdict:ArithmeticDict.__rmul__",
                                                    "chempy.util.arithmeticdict:ArithmeticDict.__imul__", "chempy.util.arithmeticdict:_imul", "chempy.util.arithmeticdict:ArithmeticDict.copy"],
         kind="shape-bounded", samples=30)
def _(v):
    from chempy.util.arithmeticdict import ArithmeticDict
    import operator
    a, b, n = v.int("a", lo=-5, hi=5), v.int("b", lo=-5, hi=5), v.int("n", lo=-4, hi=4)
    d = ArithmeticDict(int, {"A": a, "B": b})
    r = v.call(d.__rmul__, n)
    v.prove("rmul", SP.conj([set(r.keys()) == {"A", "B"}, r["A"] == n * a, r["B"] == n * b]))
    r2 = v.call(d.__mul__, n)
    v.prove("mul", SP.conj([set(r2.keys()) == {"A", "B"}, r2["A"] == n * a, r2["B"] == n * b]))
    v.prove("operand_unchanged", SP.conj([d["A"] == a, d["B"] == b, r is not d]))
    c = v.call(d.copy)
    v.prove("copy", SP.conj([c is not d, c["A"] == a, c["B"] == b, type(c) is ArithmeticDict]))


LAY = {
    "opposite": ((["A", "B"], ["C"]), (["C", "D"], ["A"])),        # C and A appear on opposite sides
    "same_side": ((["A"], ["B", "C"]), (["A", "D"], ["C"])),
    "disjoint": ((["A"], ["B"]), (["C"], ["D"])),
}


def mk_eq(v, tag, lay):
    from chempy.chemistry import Equilibrium
    reac = {k: v.int("%s_r_%s" % (tag, k), lo=1, hi=4) for k in lay[0]}
    prod = {k: v.int("%s_p_%s" % (tag, k), lo=1, hi=4) for k in lay[1]}
    K = v.real("K_" + tag, lo=0.01, hi=50)
    return Equilibrium(dict(reac), dict(prod), K, checks=()), reac, prod, K


def netof(reac, prod, k):
    return prod.get(k, 0) - reac.get(k, 0)


def _pow(K, n):
    return SP.spow(K, n)


def _scale(name, lay):
    @harness("C11", "scale." + name, functions=[CH + ":Equilibrium.__rmul__", CH + ":Equilibrium.__mul__", CH + ":Equilibrium.__neg__"], kind="shape-bounded", div_mode="assume", samples=30)
    def _(v):
        e, reac, prod, K = mk_eq(v, "e", lay)
        n = v.int("n", lo=-4, hi=4)
        v.assume(n != 0)
        keys = sorted(set(reac) | set(prod))
        for label, r in (("rmul", v.call(e.__rmul__, n)), ("mul", v.call(e.__mul__, n))):
            v.prove(label + ".net", SP.conj([netof(r.reac, r.prod, k) == n * netof(reac, prod, k) for k in keys]))
            v.prove(label + ".positive", SP.conj([c > 0 for c in list(r.reac.values()) + list(r.prod.values())]))
            an = SP.ite(n < 0, -n, n)
            # which species are listed on which side: a negative factor reverses the reaction (no extra keys on either side)
            v.prove(label + ".sides", SP.ite(n > 0, set(r.reac) == set(reac) and set(r.prod) == set(prod), set(r.reac) == set(prod) and set(r.prod) == set(reac)))
            v.prove(label + ".coefficients", SP.conj([SP.ite(n > 0, r.reac.get(k, 0), r.prod.get(k, 0)) == an * c for k, c in reac.items()] +
                                                     [SP.ite(n > 0, r.prod.get(k, 0), r.reac.get(k, 0)) == an * c for k, c in prod.items()]))
            v.prove(label + ".constant", v.eq(r.param, _pow(K, n)))
            v.prove(label + ".no_inactive", not r.inact_reac and not r.inact_prod)
        m = v.call(e.__neg__)
        v.prove("neg.swaps", SP.conj([m.reac.get(k, 0) == c for k, c in prod.items()] + [m.prod.get(k, 0) == c for k, c in reac.items()] +
                                     [set(m.reac) == set(prod), set(m.prod) == set(reac)]))
        v.prove("neg.constant", v.eq(m.param, _pow(K, -1)))
    return _


for _n, _l in LAY.items():
    _scale(_n, _l[0])


def _add(name, l1, l2):
    @harness("C11", "add." + name, functions=[CH + ":Equilibrium.__add__", CH + ":Equilibrium.__sub__"], kind="shape-bounded", div_mode="assume", samples=40)
    def _(v):
        e1, r1, p1, K1 = mk_eq(v, "e1", l1)
        e2, r2, p2, K2 = mk_eq(v, "e2", l2)
        keys = sorted(set(r1) | set(p1) | set(r2) | set(p2))
        s = v.call(e1.__add__, e2)
        nets = {k: netof(r1, p1, k) + netof(r2, p2, k) for k in keys}
        v.prove("net", SP.conj([netof(s.reac, s.prod, k) == nets[k] for k in keys]))
        v.prove("netted_no_species_on_both_sides", not (set(s.reac) & set(s.prod)))
        v.prove("positive_and_cancelled_removed", SP.conj([c > 0 for c in list(s.reac.values()) + list(s.prod.values())]))
        v.prove("only_given_species", set(s.reac) | set(s.prod) <= set(keys))
        v.prove("present_iff_nonzero", SP.conj([SP.iff((k in s.reac) or (k in s.prod), SP.neg(nets[k] == 0)) for k in keys]))
        v.prove("constant_is_product", v.eq(s.param, K1 * K2))
        d = v.call(e1.__sub__, e2)
        netd = {k: netof(r1, p1, k) - netof(r2, p2, k) for k in keys}
        v.prove("sub.net", SP.conj([netof(d.reac, d.prod, k) == netd[k] for k in keys]))
        v.prove("sub.netted", not (set(d.reac) & set(d.prod)))
        v.prove("sub.positive", SP.conj([c > 0 for c in list(d.reac.values()) + list(d.prod.values())]))
        v.prove_identity("sub.constant_is_quotient", d.param * K2, K1 + 0 * K2) if v.symbolic else v.prove("sub.constant_is_quotient", v.eq(d.param, K1 / K2, rel=1e-9))
    return _


for _n, _l in LAY.items():
    _add(_n, _l[0], _l[1])
# operands that are NOT in netted form themselves (A on both sides of each: what a scaled leaf looks like when it is the operand of the next addition):
# four contributions to the key A, both signs and 0 of its net reachable; B keeps every sum and difference non-empty
_add("both_sides", (["A", "B"], ["A", "C"]), (["A", "C"], ["A", "D"]))


@harness("C11", "add.none_params", functions=[CH + ":Equilibrium.__add__"], kind="data")
def _(v):
    from chempy.chemistry import Equilibrium
    s = Equilibrium({"A": 1}, {"B": 1}) + Equilibrium({"B": 1}, {"C": 2})
    v.prove("param_none", s.param is None and s.reac == {"A": 1} and s.prod == {"C": 2})


def _cancel(name, l1, l2):
    @harness("C11", "cancel." + name, functions=[CH + ":Equilibrium.cancel", "chempy._util:intdiv"], kind="shape-bounded", samples=40)
    def _(v):
        from chempy._util import intdiv
        e1, r1, p1, K1 = mk_eq(v, "e1", l1)
        e2, r2, p2, K2 = mk_eq(v, "e2", l2)
        keys2 = sorted(set(r2) | set(p2))
        n2 = {k: netof(r2, p2, k) for k in keys2}
        n1 = {k: netof(r1, p1, k) for k in keys2}
        v.assume(SP.conj([SP.neg(n2[k] == 0) for k in keys2]))
        c = v.call(e1.cancel, e2)
        qs = [v.call(intdiv, -n1[k], n2[k]) for k in keys2]
        absv = lambda x: SP.ite(x >= 0, x, -x)
        v.prove("is_one_of_the_quotients", SP.disj([c == q for q in qs]))
        v.prove("minimal_magnitude", SP.conj([absv(c) <= absv(q) for q in qs]))
    return _


for _n, _l in LAY.items():
    _cancel(_n, _l[0], _l[1])


@harness("C11", "as_reactions", functions=[CH + ":Equilibrium.as_reactions"], kind="shape-bounded", div_mode="assume", samples=30)
def _(v):
    from chempy.chemistry import Equilibrium, Reaction
    K, kf, kb = v.real("K", lo=0.01, hi=50), v.real("kf", lo=0.01, hi=50), v.real("kb", lo=0.01, hi=50)
    e = Equilibrium({"A": 2, "B": 1}, {"C": 1}, K, inact_reac={"X": 1}, inact_prod={"Y": 2}, checks=())
    fw, bw = v.call(e.as_reactions, kf=kf)
    v.prove_identity("kb_from_kf", bw.param * K, kf + 0 * K) if v.symbolic else v.prove("kb_from_kf", v.eq(bw.param, kf / K))
    v.prove("forward_param", v.eq(fw.param, kf))
    v.prove("sides", fw.reac == e.reac and fw.prod == e.prod and bw.reac == e.prod and bw.prod == e.reac)
    v.prove("inactive_swapped", fw.inact_reac == e.inact_reac and fw.inact_prod == e.inact_prod and bw.inact_reac == e.inact_prod and bw.inact_prod == e.inact_reac)
    # plain reactions (a subclass of Reaction would do), not equilibria again
    v.prove("types", isinstance(fw, Reaction) and isinstance(bw, Reaction) and not isinstance(fw, Equilibrium) and not isinstance(bw, Equilibrium))
    fw2, bw2 = v.call(e.as_reactions, kb=kb)
    v.prove("kf_from_kb", v.eq(fw2.param, kb * K))
    v.prove("backward_param", v.eq(bw2.param, kb))
    out = v.run(e.as_reactions, kf=kf, kb=kb)
    # refused: with which exception type is not part of the statement (the pinned tree: ValueError)
    v.prove("both_given_raises", out.raised())
    out = v.run(e.as_reactions)
    v.prove("none_given_raises", out.raised())


@harness("C11", "lemma", functions=["lemmas/C11_history.lean: EqExpr.nu_eq_combination, EqExpr.const_eq_product_of_powers"], kind="lemma", samples=0)
def _(v):
    """induction over operation histories, checked by the Lean kernel on every run (no sorry/axiom: scanned)"""
    v.prove_lean("history_of_operations_any_length", "lemmas/C11_history.lean", theorems=("nu_eq_combination", "const_eq_product_of_powers"))


@harness("C11", "composed_expressions", functions=[CH + ":Equilibrium.__rmul__", CH + ":Equilibrium.__add__", CH + ":Equilibrium.__sub__", CH + ":Equilibrium.__neg__"], kind="shape-bounded", div_mode="assume", samples=20)
def _(v):
    """several operations in a row on the real objects (operands with a species on BOTH sides included): net stoichiometry is the same integer
    combination, the listing is netted and positive, and the constant is the product of powers"""
    from chempy.chemistry import Equilibrium
    K1, K2 = v.real("K1", lo=0.01, hi=50), v.real("K2", lo=0.01, hi=50)
    a1, b1, c1 = v.int("a1", lo=1, hi=4), v.int("b1", lo=1, hi=4), v.int("c1", lo=1, hi=4)
    e1 = Equilibrium({"A": a1 + 1, "B": b1}, {"A": 1, "C": c1}, K1, checks=())      # A on both sides of one operand
    e2 = Equilibrium({"C": 1}, {"A": 2, "D": 1}, K2, checks=())
    n1 = {"A": -a1, "B": -b1, "C": c1, "D": 0}
    n2 = {"A": 2, "B": 0, "C": -1, "D": 1}
    for label, build, (x, y) in (("2e1_plus_3e2_minus_e1", lambda: v.call(v.call(v.call(e1.__rmul__, 2).__add__, v.call(e2.__rmul__, 3)).__sub__, e1), (1, 3)),
                                 ("minus_e1_plus_2e2_plus_2e1", lambda: v.call(v.call(v.call(e1.__neg__).__add__, v.call(e2.__rmul__, 2)).__add__, v.call(e1.__rmul__, 2)), (1, 2)),
                                 ("neg_of_difference", lambda: v.call(v.call(e1.__sub__, e2).__neg__), (-1, 1))):
        r = build()
        want = {k: x * n1[k] + y * n2[k] for k in "ABCD"}
        v.prove(label + ".net", SP.conj([netof(r.reac, r.prod, k) == want[k] for k in "ABCD"]))
        v.prove(label + ".netted_and_positive", (not (set(r.reac) & set(r.prod))) and SP.conj([c > 0 for c in list(r.reac.values()) + list(r.prod.values())]))
        v.prove(label + ".present_iff_nonzero", SP.conj([SP.iff((k in r.reac) or (k in r.prod), SP.neg(want[k] == 0)) for k in "ABCD"]))
        if v.symbolic:
            lhs, rhs = r.param, 1
            for K, e in ((K1, x), (K2, y)):
                if e >= 0:
                    rhs = rhs * K ** e
                else:
                    lhs = lhs * K ** (-e)
            v.prove_identity(label + ".constant", lhs, rhs)
        else:
            v.prove(label + ".constant", v.eq(r.param, K1 ** x * K2 ** y, rel=1e-9))


@harness("C11", "histories.exact_constants", functions=[CH + ":Equilibrium.__rmul__", CH + ":Equilibrium.__mul__", CH + ":Equilibrium.__neg__", CH + ":Equilibrium.__add__", CH + ":Equilibrium.__sub__"], kind="data")
def _(v):
    """the quantifier's 'exact rational or symbolic constants' on the real objects: expression trees (depth <= 3, fixed seed) over three operands, one of
    them with a species on both sides, with Fraction, sympy.Rational and positive sympy.Symbol constants.  At EVERY node of the tree: net stoichiometry
    = the integer combination (coefficients accumulated here with plain integer arithmetic), all listed coefficients positive ints, sums and
    differences netted with cancelled species removed, constant = product of powers compared EXACTLY (== for rationals, zero difference after
    sympy.simplify for symbols; no tolerance).  A tree one of whose sub-expressions has an empty net stoichiometry may be refused instead (META
    assumptions); any other tree must not be"""
    import numbers
    import random
    from fractions import Fraction as Fr
    import sympy
    from chempy.chemistry import Equilibrium
    SPEC = [({"A": 2, "B": 1}, {"A": 1, "C": 1}), ({"C": 1}, {"A": 2, "D": 1}), ({"B": 1, "D": 2}, {"C": 3})]
    NU = [{k: p.get(k, 0) - r.get(k, 0) for k in "ABCD"} for r, p in SPEC]
    syms = sympy.symbols("K1 K2 K3", positive=True)
    FAM = {"fraction": ([Fr(3, 2), Fr(5, 7), Fr(11, 4)], lambda x, w: isinstance(x, numbers.Rational) and x == w),        # exact: a float is not a Rational
           "sympy_rational": ([sympy.Rational(3, 2), sympy.Rational(5, 7), sympy.Rational(11, 4)], lambda x, w: x == w and sympy.sympify(x).is_Rational),
           "sympy_symbol": (list(syms), lambda x, w: sympy.simplify(x - w) == 0)}
    rnd = random.Random(1111)

    def gen(depth):
        t = rnd.random()
        if depth == 0 or t < 0.2:
            return ("leaf", rnd.randrange(3))
        if t < 0.45:
            return ("scale", rnd.choice((-3, -2, -1, -1, 2, 3, 1, 0 if rnd.random() < 0.2 else 2)), gen(depth - 1), rnd.random() < 0.5)
        if t < 0.55:
            return ("neg", gen(depth - 1))
        return ("add" if t < 0.8 else "sub", gen(depth - 1), gen(depth - 1))

    def coef(t):
        if t[0] == "leaf":
            return [int(i == t[1]) for i in range(3)]
        if t[0] == "scale":
            return [t[1] * c for c in coef(t[2])]
        if t[0] == "neg":
            return [-c for c in coef(t[1])]
        a, b = coef(t[1]), coef(t[2])
        return [x + y if t[0] == "add" else x - y for x, y in zip(a, b)]

    def net(c):
        return {k: sum(ci * nu[k] for ci, nu in zip(c, NU)) for k in "ABCD"}

    def degenerate(t):
        return (not any(net(coef(t)).values())) or any(degenerate(x) for x in t[1:] if isinstance(x, tuple))

    trees = [gen(3) for _ in range(160)]
    n_deg = sum(map(degenerate, trees))
    for fam, (Ks, same) in FAM.items():
        leaves = [Equilibrium(dict(r), dict(p), K) for (r, p), K in zip(SPEC, Ks)]
        bad = []

        def ev(t):
            """the real object for the tree t, checked at every node; raises what the code under test raises"""
            if t[0] == "leaf":
                return leaves[t[1]]
            if t[0] == "scale":
                x = ev(t[2])
                r = t[1] * x if t[3] else x * t[1]
            elif t[0] == "neg":
                r = -ev(t[1])
            else:
                x, y = ev(t[1]), ev(t[2])
                r = x + y if t[0] == "add" else x - y
            c = coef(t)
            want = net(c)
            wK = 1
            for K, ci in zip(Ks, c):
                wK = wK * K ** ci
            coefs = list(r.reac.values()) + list(r.prod.values())
            ok = isinstance(r, Equilibrium) and all(r.prod.get(k, 0) - r.reac.get(k, 0) == want[k] for k in "ABCD") and set(r.reac) | set(r.prod) <= set("ABCD")
            ok = ok and all(isinstance(x, int) and x > 0 for x in coefs) and not r.inact_reac and not r.inact_prod
            if t[0] in ("add", "sub"):
                ok = ok and dict(r.reac) == {k: -n for k, n in want.items() if n < 0} and dict(r.prod) == {k: n for k, n in want.items() if n > 0}
            if not (ok and same(r.param, wK)):
                bad.append((t, dict(r.reac), dict(r.prod), r.param, wK))
            return r

        for t in (trees if fam != "sympy_symbol" else trees[:80]):
            try:
                ev(t)
            except Exception as ex:
                if not degenerate(t):
                    bad.append((t, repr(ex)))
        v.prove(fam, not bad and 5 <= n_deg <= 80, detail="%d bad (%d of %d trees pass through an empty net): %s" % (len(bad), n_deg, len(trees), bad[:3]))


@harness("C11", "eliminate.pairs", functions=[CH + ":Equilibrium.eliminate", CH + ":Equilibrium.__rmul__", CH + ":Equilibrium.__add__"], kind="data")
def _(v):
    """'for two equilibria that both involve a species, the elimination helper returns non-zero integer multipliers whose combination contains
    none of that species': all pairs of net coefficients in [-12, 12] with the species on one or on both sides (the larger grid is the bounded
    stand-in).  Integer means usable as one (operator.index; 2.0 is not).  For |v| <= 8 (beyond, the helper's common multiple makes the exact
    constant too long) the combination is formed with the real operators FROM THE MULTIPLIERS AS RETURNED (sympy integers on the pinned tree:
    the path that the documented use m0*e0 + m1*e1 takes) and compared with the netted combination and the product of powers written out here"""
    import operator
    from fractions import Fraction as Fr
    from chempy.chemistry import Equilibrium
    bad = []
    n = formed = 0
    for v0 in range(-12, 13):
        for v1 in range(-12, 13):
            if v0 == 0 or v1 == 0:
                continue
            for both in (False, True):
                extra = 2 if both else 0
                mk = lambda vv, other, K: Equilibrium({"X": extra + (-vv if vv < 0 else 0), other: 1} if (vv < 0 or extra) else {other: 1},
                                                      {"X": extra + (vv if vv > 0 else 0), other + "p": 1} if (vv > 0 or extra) else {other + "p": 1}, K, checks=())
                e0, e1 = mk(v0, "P", Fr(3, 2)), mk(v1, "Q", Fr(5, 7))
                n += 1
                try:
                    # the operands really have the net coefficients that the relation below is stated with (read off the sides, not through net_stoich)
                    ok = e0.prod.get("X", 0) - e0.reac.get("X", 0) == v0 and e1.prod.get("X", 0) - e1.reac.get("X", 0) == v1
                    m0, m1 = Equilibrium.eliminate([e0, e1], "X")
                    i0, i1 = operator.index(m0), operator.index(m1)
                    ok = ok and i0 == m0 and i1 == m1 and i0 != 0 and i1 != 0 and i0 * v0 + i1 * v1 == 0
                    if ok and abs(v0) <= 8 and abs(v1) <= 8:
                        formed += 1
                        comb = m0 * e0 + m1 * e1
                        net = {"P": -i0, "Pp": i0, "Q": -i1, "Qp": i1}        # X: i0*v0 + i1*v1 = 0, not listed
                        ok = (dict(comb.reac) == {k: -c for k, c in net.items() if c < 0} and dict(comb.prod) == {k: c for k, c in net.items() if c > 0}
                              and all(isinstance(c, int) for c in list(comb.reac.values()) + list(comb.prod.values()))
                              and comb.param == Fr(3, 2) ** i0 * Fr(5, 7) ** i1)
                except Exception as ex:
                    ok = False
                    m0 = m1 = repr(ex)
                if not ok:
                    bad.append((v0, v1, both, m0, m1))
    v.prove("multipliers_eliminate_the_species", not bad and n == 2 * 24 * 24 and formed == 2 * 16 * 16, detail="%d bad of %d (%d formed): %s" % (len(bad), n, formed, bad[:5]))


@harness("C11", "eliminate.any_coefficients", functions=[CH + ":Equilibrium.eliminate", CH + ":Equilibrium.__rmul__", CH + ":Equilibrium.__add__"], kind="data")
def _(v):
    """'every pair of equilibria sharing a species with ANY non-zero coefficients': the elimination clause beyond the small grid of eliminate.pairs, by
    classes of the coefficient rather than by a range.  (1) every net coefficient 13..2000; (2) every exact prime power p**k (k >= 2) up to 70000 --
    the coefficients whose prime multiplicity is the whole number, where a multiplicity, root or logarithm taken in floating point sits on a rounding
    edge; each against partners that are coprime to it, divide it, are a multiple of it, share only part of its factors, are equal and are opposite,
    in both positions, with both signs, the species on one side or on both.  Stated is the relation only (non-zero, usable as integers,
    m0*v0 + m1*v1 = 0; which multiple is chosen is free).  For the prime powers the combination is also formed by the real operators from the
    multipliers as returned, with symbolic constants (the multipliers may be long: K**m stays a power): the species is not listed, the other
    species carry the multipliers, the constant is K1**m0 * K2**m1"""
    import operator
    import sympy
    from chempy.chemistry import Equilibrium
    K1, K2 = sympy.symbols("K1 K2", positive=True)

    def mk(vv, other, K, extra):
        reac, prod = {other: 1}, {other + "p": 1}
        if vv < 0 or extra:
            reac["X"] = extra + (-vv if vv < 0 else 0)
        if vv > 0 or extra:
            prod["X"] = extra + (vv if vv > 0 else 0)
        return Equilibrium(reac, prod, K, checks=())

    def prime_powers(limit):        # trial division, integers only
        out, p = [], 2
        while p * p <= limit:
            if all(p % q for q in range(2, int(p ** 0.5) + 1)):
                q = p * p
                while q <= limit:
                    out.append(q)
                    q *= p
            p += 1
        return sorted(out)

    bad = []
    count = {"range": 0, "prime_power": 0, "formed": 0}

    def one(cls, v0, v1, extra, form):
        count[cls] += 1
        m0 = m1 = None
        try:
            e0, e1 = mk(v0, "P", K1, extra), mk(v1, "Q", K2, extra)
            ok = e0.prod.get("X", 0) - e0.reac.get("X", 0) == v0 and e1.prod.get("X", 0) - e1.reac.get("X", 0) == v1
            m0, m1 = Equilibrium.eliminate([e0, e1], "X")
            i0, i1 = operator.index(m0), operator.index(m1)
            ok = ok and i0 == m0 and i1 == m1 and i0 != 0 and i1 != 0 and i0 * v0 + i1 * v1 == 0
            if ok and form:
                count["formed"] += 1
                comb = m0 * e0 + m1 * e1
                net = {"P": -i0, "Pp": i0, "Q": -i1, "Qp": i1}        # X: i0*v0 + i1*v1 = 0, not listed
                ok = (dict(comb.reac) == {k: -c for k, c in net.items() if c < 0} and dict(comb.prod) == {k: c for k, c in net.items() if c > 0}
                      and (comb.param == K1 ** i0 * K2 ** i1 or comb.param / (K1 ** i0 * K2 ** i1) == 1))        # powers of positive symbols combine
        except Exception as ex:
            ok = False
            m1 = repr(ex)
        if not ok:
            bad.append((cls, v0, v1, extra, str(m0)[:40], str(m1)[:40]))

    for a in range(13, 2001):
        for b in (1, -2, 6, 12, a, -a):
            one("range", a, b, 0, False)
            one("range", b, -a, 0, False)
    pps = prime_powers(70000)
    for a in pps:
        p = next(q for q in range(2, a) if a % q == 0)        # its prime
        for b in (1, -2, 7, 30, p, a // p, a * p, 2 * a, a, -a, 243 if p != 3 else 1024):
            for extra in (0, 3):
                one("prime_power", a, b, extra, extra == 0 and a <= 5000)
                one("prime_power", -b, a, extra, False)
    v.prove("multipliers_eliminate_the_species", not bad and count["range"] == 2 * 6 * 1988 and len(pps) == 96 and count["prime_power"] == 96 * 11 * 4 and count["formed"] == 11 * sum(a <= 5000 for a in pps) >= 400,
            detail="%d bad of %r: %s" % (len(bad), count, bad[:5]))


@harness("C11", "scale.integer_kinds", functions=[CH + ":Equilibrium.__rmul__", CH + ":Equilibrium.__mul__"], kind="data")
def _(v):
    """'integer scaling (including negative, which reverses the reaction)' for integers that are not the built-in int: the kind that the elimination
    helper returns (sympy.Integer) must scale exactly like the int of the same value -- sides, coefficients (plain ints: they are counted, printed and
    put into integer arrays further on), constant K**n exactly; other integer kinds (numpy, bool) do the same or are refused, never something else"""
    from fractions import Fraction as Fr
    import numpy
    import sympy
    from chempy.chemistry import Equilibrium
    K = Fr(3, 2)
    e = Equilibrium({"A": 1, "B": 2}, {"C": 3}, K)
    bad = []
    for s, n, may_refuse in ((sympy.Integer(-2), -2, False), (sympy.Integer(3), 3, False), (sympy.Integer(1), 1, False), (sympy.Integer(-1), -1, False),
                             (numpy.int64(-2), -2, True), (numpy.int32(3), 3, True), (numpy.uint8(2), 2, True), (True, 1, True)):
        a = abs(n)
        wr, wp = ({"A": a, "B": 2 * a}, {"C": 3 * a}) if n > 0 else ({"C": 3 * a}, {"A": a, "B": 2 * a})
        for label, f in (("s*e", lambda: s * e), ("e*s", lambda: e * s)):
            try:
                r = f()
            except Exception as ex:
                if not may_refuse:
                    bad.append((label, repr(s), repr(ex)))
                continue
            try:
                ok = (isinstance(r, Equilibrium) and dict(r.reac) == wr and dict(r.prod) == wp and r.param == K ** n
                      and all(isinstance(c, int) for c in list(r.reac.values()) + list(r.prod.values())))
            except Exception as ex:
                ok = False
                r = repr(ex)
            if not ok:
                bad.append((label, repr(s), str(r), [type(c).__name__ for c in list(getattr(r, "reac", {}).values())]))
    v.prove("same_as_builtin_int", not bad, detail=repr(bad[:4]))


@harness("C11", "cancel.proper_multiple", functions=[CH + ":Equilibrium.cancel", "chempy._util:intdiv"], kind="shape-bounded", samples=40)
def _(v):
    """cancel where the answer is not trivially 0: every species of the second equilibrium occurs in the first, on the same side.  The multiplier m = -c
    is the number of times the second can be SUBTRACTED: no species of it is overshot (sign kept) and one more subtraction would overshoot one"""
    from chempy.chemistry import Equilibrium
    a1, b1, c1 = v.int("a1", lo=1, hi=60), v.int("b1", lo=1, hi=9), v.int("c1", lo=1, hi=60)
    a2, c2 = v.int("a2", lo=1, hi=7), v.int("c2", lo=1, hi=7)
    e1 = Equilibrium({"A": a1, "B": b1}, {"C": c1}, 2.0, checks=())
    e2 = Equilibrium({"A": a2}, {"C": c2}, 3.0, checks=())
    c = v.call(e1.cancel, e2)
    m = -c
    v.prove("subtraction_not_addition", m >= 0)
    v.prove("no_species_overshot", SP.conj([m * a2 <= a1, m * c2 <= c1]))
    v.prove("one_more_would_overshoot", SP.disj([(m + 1) * a2 > a1, (m + 1) * c2 > c1]))
    # opposite direction: the second written backwards can be ADDED the same number of times
    e2r = Equilibrium({"C": c2}, {"A": a2}, 1 / 3.0, checks=())
    v.prove("reversed_partner_is_added", v.call(e1.cancel, e2r) == m)


def _cancel_fed_back(a2, c2):
    @harness("C11", "cancel.fed_back.%d_%d" % (a2, c2), functions=[CH + ":Equilibrium.cancel", "chempy._util:intdiv", CH + ":Equilibrium.__rmul__", CH + ":Equilibrium.__add__"], kind="shape-bounded", samples=30)
    def _(v):
        """the multiplier of cancel.proper_multiple fed back to the real operators (what it is for): in e1 + c*e2 no species of e2 has changed sides and
        none has grown; e1 + (c-1)*e2, one more subtraction, has one on the other side.  (The partner's coefficients are fixed numbers here: the products
        stay linear)"""
        from chempy.chemistry import Equilibrium
        a1, b1, c1 = v.int("a1", lo=1, hi=60), v.int("b1", lo=1, hi=9), v.int("c1", lo=1, hi=60)
        e1 = Equilibrium({"A": a1, "B": b1}, {"C": c1}, 2.0, checks=())
        e2 = Equilibrium({"A": a2}, {"C": c2}, 3.0, checks=())
        c = v.call(e1.cancel, e2)
        if v.symbolic:
            v.assume(SP.neg(c == 0))        # 0*e2 is refused (empty net stoichiometry, see degenerate_and_inactive)
        elif c == 0:
            return
        r = v.call(e1.__add__, v.call(e2.__rmul__, c))
        v.prove("no_species_changes_sides", SP.conj(["A" not in r.prod, "C" not in r.reac, r.reac.get("A", 0) == a1 + c * a2, r.prod.get("C", 0) == c1 + c * c2, r.reac.get("B", 0) == b1,
                                                     r.reac.get("A", 0) <= a1, r.prod.get("C", 0) <= c1]))
        v.prove("netted_and_positive", (not (set(r.reac) & set(r.prod))) and SP.conj([x > 0 for x in list(r.reac.values()) + list(r.prod.values())]))
        r1 = v.call(e1.__add__, v.call(e2.__rmul__, c - 1))
        v.prove("one_more_changes_sides", SP.disj(["A" in r1.prod, "C" in r1.reac]))
    return _


for _a2, _c2 in ((1, 1), (2, 3), (7, 2)):
    _cancel_fed_back(_a2, _c2)


@harness("C11", "cancel.opposite_sign_quotients", functions=[CH + ":Equilibrium.cancel", "chempy._util:intdiv", CH + ":Equilibrium.__rmul__", CH + ":Equilibrium.__add__"], kind="shape-bounded", samples=40)
def _(v):
    """cancel where the second equilibrium can be added (until S is used up) AND subtracted (until T is used up): e1: U -> s S + t T, e2: s2 S -> t2 T.
    Stated by what the multiplier means, not by how it is selected (either direction is a multiplier 'of how many times rxn can be added/subtracted'):
    in e1 + c*e2, formed by the real operators, no species of e2 has changed sides, and one more step in the same direction would make one do so"""
    from chempy.chemistry import Equilibrium
    s, t = v.int("s", lo=1, hi=40), v.int("t", lo=1, hi=40)
    s2, t2 = v.int("s2", lo=1, hi=5), v.int("t2", lo=1, hi=5)
    e1 = Equilibrium({"U": 1}, {"S": s, "T": t}, 2.0, checks=())
    e2 = Equilibrium({"S": s2}, {"T": t2}, 3.0, checks=())
    c = v.call(e1.cancel, e2)
    nS, nT = s - c * s2, t + c * t2          # net of S and T in e1 + c*e2 (both products of e1)
    v.prove("no_species_changes_sides", SP.conj([nS >= 0, nT >= 0]))
    v.prove("one_more_step_would", SP.conj([SP.implies(c > 0, s - (c + 1) * s2 < 0), SP.implies(c < 0, t + (c - 1) * t2 < 0), SP.implies(c == 0, SP.disj([s - s2 < 0, t - t2 < 0]))]))
    if v.symbolic:
        v.assume(SP.neg(c == 0))
    elif c == 0:
        return
    r = v.call(e1.__add__, v.call(e2.__rmul__, c))
    v.prove("fed_back", SP.conj(["S" not in r.reac, "T" not in r.reac, r.prod.get("S", 0) == nS, r.prod.get("T", 0) == nT, r.reac.get("U", 0) == 1, "U" not in r.prod]))
    v.prove("fed_back.netted_and_positive", (not (set(r.reac) & set(r.prod))) and SP.conj([x > 0 for x in list(r.reac.values()) + list(r.prod.values())]))


@harness("C11", "degenerate_and_inactive", functions=[CH + ":Equilibrium.__rmul__", CH + ":Equilibrium.__mul__", CH + ":Equilibrium.__neg__", CH + ":Equilibrium.__add__", CH + ":Equilibrium.__sub__"], kind="data")
def _(v):
    """corners of the algebra on the real objects.  (1) A combination whose net stoichiometry is empty (0*e, e - e, e + reverse(e)): by the statement
    it is the empty equilibrium with constant K**0 = 1; the pinned tree refuses to construct it (ValueError from the constructor's check_any_effect, see
    META assumptions).  Either is accepted -- what is rejected is an equilibrium with some left-over species or a constant other than 1.  The same for an
    expression that passes through an empty intermediate, (e1 - e1) + e2: refused, or exactly e2.  (2) Operands with kinetically inactive participants are
    outside the quantifier; stated is only that they do not disturb the algebra of the active part (right sides, coefficients and constant, or a refusal),
    that an inactive participant never becomes an active one, and that after a reversal it is not listed on the side it was on before"""
    from fractions import Fraction as Fr
    from chempy.chemistry import Equilibrium
    e = Equilibrium({"A": 1, "B": 2}, {"C": 3}, 10.0, inact_reac={"S": 1})
    rev = Equilibrium({"C": 3}, {"A": 1, "B": 2}, 0.1)
    outcomes = []
    for label, f in (("0*e", lambda: 0 * e), ("e*0", lambda: e * 0), ("e-e", lambda: e - e), ("e+rev", lambda: e + rev)):
        try:
            r = f()
        except Exception:
            continue        # refused (the pinned tree: ValueError "The net stoichiometry change of all species are zero.")
        try:
            if not (isinstance(r, Equilibrium) and dict(r.reac) == {} and dict(r.prod) == {} and abs(r.param - 1) <= 1e-12):
                outcomes.append((label, dict(r.reac), dict(r.prod), r.param))
        except Exception as ex:
            outcomes.append((label, repr(r), repr(ex)))
    # name kept from the time when only the refusal was accepted (baseline): now 'refused, or the empty equilibrium with constant 1'
    v.prove("empty_net_stoichiometry_refused", not outcomes, detail=repr(outcomes))
    e1, e2 = Equilibrium({"A": 1}, {"B": 1}, Fr(2)), Equilibrium({"B": 1}, {"C": 1}, Fr(3))
    outcomes = []
    for label, f, (wr, wp, wK) in (("(e1-e1)+e2", lambda: (e1 - e1) + e2, ({"B": 1}, {"C": 1}, Fr(3))),
                                   ("(e1+(-e1))+2*e2", lambda: (e1 + (-e1)) + 2 * e2, ({"B": 2}, {"C": 2}, Fr(9))),
                                   ("e2-0*e1", lambda: e2 - 0 * e1, ({"B": 1}, {"C": 1}, Fr(3))),
                                   ("(e1+e2)-(e1+e2)+e1", lambda: ((e1 + e2) - (e1 + e2)) + e1, ({"A": 1}, {"B": 1}, Fr(2)))):
        try:
            r = f()
        except Exception:
            continue
        try:
            if not (dict(r.reac) == wr and dict(r.prod) == wp and r.param == wK):
                outcomes.append((label, dict(r.reac), dict(r.prod), r.param))
        except Exception as ex:
            outcomes.append((label, repr(r), repr(ex)))
    v.prove("empty_intermediate_refused_or_exact", not outcomes, detail=repr(outcomes))
    bad = []
    for n in (2, -1, -3, 1):
        for label, f in (("n*e", lambda: n * e), ("e*n", lambda: e * n)) + ((("-e", lambda: -e),) if n == -1 else ()):
            try:
                r = f()
            except Exception:
                continue    # refusing operands with inactive parts would be consistent with the quantifier
            try:
                a = abs(n)
                wr, wp = ({"A": a, "B": 2 * a}, {"C": 3 * a}) if n > 0 else ({"C": 3 * a}, {"A": a, "B": 2 * a})
                ok = dict(r.reac) == wr and dict(r.prod) == wp and abs(r.param - 10.0 ** n) <= 1e-9 * 10.0 ** n
                ir, ip = dict(r.inact_reac), dict(r.inact_prod)
                # the spectator of the forward direction is not one of the direction that no longer has it; nothing else appears; if listed, a positive count
                ok = ok and set(ir) <= ({"S"} if n > 0 else set()) and set(ip) <= ({"S"} if n < 0 else set())
                ok = ok and all(isinstance(c, int) and 1 <= c <= a for c in list(ir.values()) + list(ip.values()))
                if not ok:
                    bad.append((label, n, dict(r.reac), dict(r.prod), r.param, ir, ip))
            except Exception as ex:
                bad.append((label, n, repr(ex)))
    # name kept (baseline); the condition no longer fixes that the inactive count is multiplied by |n| (outside the property: unscaled or dropped,
    # as __add__ does, would preserve it too), it still rejects a wrong active part and inactive participants on the wrong side
    v.prove("inactive_parts_scaled_and_moved_with_the_reaction", not bad, detail=repr(bad[:4]))
