"""C15  Structural queries on a reaction system match its reaction graph."""
from collections import OrderedDict

from pyvc.api import harness
from pyvc import spec as SP

META = {
    "explanation": "upper_conc_bounds (element totals, least ratio, charge skipped, inf without elements; no non-negative state with the same totals exceeds it), identify_equilibria, substance_participation, per_reaction_effect_on_substance, categorize_substances, subset, +, +=, ==, the per-substance conversions and the constructor's duplicate/key checks are proved for every coefficient/composition/concentration at fixed key layouts; split() and the key-structure of all queries are covered by the exhaustive bounded enumeration (all systems of <=4 reactions over <=5 substances in every order); a species written both active and inactive on one side of a reaction counts with the sum in the categories, the stoichiometry tables and the forward/backward pairs; split, sequences of +/subset/split, subset on systems that hold the same step twice (the predicate alone decides), concatenate, + and += with a list of reactions and decompose_yields (well-posed inputs, requested yields of exactly zero included) additionally on systems written out by hand (data)",
    "trusted_base": ["numpy object arrays store/return elements and apply operators elementwise (5.2)"],
    "not_decided": ["split() for arbitrary graphs as a proof (bounded: exhaustive small systems + random larger ones; data: written systems)", "decompose_yields for arbitrary input (lstsq; data: well-posed written cases only, rank-deficient input is not under contract)"],
    "assumptions": ["key layouts fixed per harness (shape-bounded)",
                    "every written coefficient is >= 1 (integers in the proofs, positive fractions in the data harness): a key written with coefficient 0 is outside the contract (split and substance_participation count it as present, categorize_substances as absent)"],
}
RS = "chempy.reactionsystem"
NAMES = ["A", "B", "C", "D"]
COMP_KEYS = {"A": (1, 8), "B": (0, 1), "C": (0, 1, 8), "D": ()}


def mk_substances(v):
    from chempy.chemistry import Substance
    comp = {}
    out = OrderedDict()
    for n in NAMES:
        comp[n] = {k: v.int("%s_%d" % (n, k), lo=(-3 if k == 0 else 1), hi=4) for k in COMP_KEYS[n]}
        out[n] = Substance(n, composition=dict(comp[n]))
    return out, comp


@harness("C15", "upper_conc_bounds", functions=[RS + ":ReactionSystem.upper_conc_bounds"], kind="shape-bounded", div_mode="assume", samples=40)
def _(v):
    from chempy.reactionsystem import ReactionSystem
    subst, comp = mk_substances(v)
    conc = {n: v.real("c_" + n, lo=0, hi=10) for n in NAMES}
    rsys = ReactionSystem([], subst, checks=())
    if v.symbolic:
        def per_substance_array(v_, self, cont, dtype="float64", unit=None, raise_on_unk=False):
            """stand-in for as_per_substance_array with its documented interface: the same parameters and defaults, and what it returns for a
            dictionary / sequence of per-substance values without a unit: a 1-d ndarray of length ns in substance order (an object array, so that
            it can hold the symbolic concentrations; .tolist(), .shape, iteration and indexing work as on the real result)"""
            import numpy as np
            vals = [cont[k] for k in self.substances] if isinstance(cont, dict) else list(cont)
            arr = np.empty(len(vals), dtype=object)
            for i, x in enumerate(vals):
                arr[i] = x
            return arr
        v.contract(ReactionSystem.as_per_substance_array, "as_per_substance_array", None, per_substance_array)
    b = v.call(rsys.upper_conc_bounds, conc)
    total = {k: sum(comp[n].get(k, 0) * conc[n] for n in NAMES) for k in (1, 8)}
    v.prove("length_and_order", len(b) == 4)
    for i, n in enumerate(NAMES):
        elems = [k for k in comp[n] if k != 0]
        if not elems:
            v.prove("no_elements_is_inf", b[i] == float("inf"))
            continue
        ratios = [total[k] / comp[n][k] for k in elems]
        v.prove("bound_%s.is_a_ratio" % n, SP.disj([v.eq(b[i], r) for r in ratios]))
        v.prove("bound_%s.is_least" % n, SP.conj([b[i] <= r + (0 if v.symbolic else 1e-12) for r in ratios]))
    if v.symbolic:
        # no non-negative state with the same element totals exceeds the bound
        alt = {n: v.real("alt_" + n, lo=0) for n in NAMES}
        v.assume(SP.conj([sum(comp[n].get(k, 0) * alt[n] for n in NAMES) == total[k] for k in (1, 8)]))
        for i, n in enumerate(NAMES):
            if [k for k in comp[n] if k != 0]:
                v.prove_nl("bound_%s.dominates_every_state_with_same_totals" % n, alt[n] <= b[i])


@harness("C15", "upper_conc_bounds_of_a_system_without_any_element", functions=[RS + ":ReactionSystem.upper_conc_bounds"], kind="data")
def _(v):
    """'the elemental upper bound of each species is the least of (element total)/(atoms per molecule)': a species that holds no element has no
    ratio to take the least of, nothing elemental limits it, its bound is inf (obligation no_elements_is_inf above, there for ONE such species
    next to three with elements).  Here for systems in which NO substance has an element at all -- empty compositions, charge only (charge is
    no element), both mixed -- so that there is not a single element total to form: one inf per substance, in whatever container, and no
    exception; state given as dictionary, list, tuple and array."""
    import numpy as np
    from chempy.chemistry import Reaction, Substance
    from chempy.reactionsystem import ReactionSystem
    inf = float("inf")
    systems = [("empty_compositions", [{}, {}, {}]), ("charge_only", [{0: 1}, {0: -1}, {0: 2}]), ("empty_and_charge_only", [{}, {0: -1}, {0: 1}]), ("a_single_species", [{}])]
    for name, comps in systems:
        keys = ["X", "Y", "Z"][:len(comps)]
        c0 = [1.5, 0.0, 4.0][:len(comps)]
        bad = []
        try:
            rsys = ReactionSystem([Reaction({"X": 1}, {"Y": 1}, 1.0, checks=())] if len(keys) > 1 else [], [Substance(k, composition=dict(c)) for k, c in zip(keys, comps)], checks=())
            for state in (dict(zip(keys, c0)), list(c0), tuple(c0), np.array(c0)):
                try:
                    got = [float(x) for x in rsys.upper_conc_bounds(state)]
                except Exception as ex:
                    got = repr(ex)
                if got != [inf] * len(keys):
                    bad.append((type(state).__name__, got))
        except Exception as ex:      # building the system itself
            bad.append(("constructor", repr(ex)))
        v.prove("every_bound_is_inf." + name, not bad, detail="state given as, bounds: %r" % bad[:2])


LAYOUTS = [(["A", "B"], ["C"], [], []), (["C"], ["A", "B"], [], []), (["A"], ["D"], ["B"], ["B"]), (["C"], ["A", "B"], [], [])]


def mk_rxns(v, layouts=LAYOUTS, names=None):
    from chempy.chemistry import Reaction
    rxns, ds = [], []
    for i, (reac, prod, ireac, iprod) in enumerate(layouts):
        mk = lambda side, ks: {k: v.int("r%d_%s_%s" % (i, side, k), lo=1, hi=2) for k in ks}
        d = [mk("r", reac), mk("p", prod), mk("ir", ireac), mk("ip", iprod)]
        rxns.append(Reaction(dict(d[0]), dict(d[1]), None, dict(d[2]) or None, dict(d[3]) or None, name=(names[i] if names else None), checks=()))
        ds.append(d)
    return rxns, ds


def all_reac(d, k):
    return d[0].get(k, 0) + d[2].get(k, 0)


def all_prod(d, k):
    return d[1].get(k, 0) + d[3].get(k, 0)


def net(d, k):
    return all_prod(d, k) - all_reac(d, k)


def plain_substances():
    from chempy.chemistry import Substance
    return OrderedDict((n, Substance(n)) for n in NAMES)


def _reverse_parts(a, b):
    """b is the backward reaction of a: what Equilibrium.as_reactions() writes for the other direction, all four parts change sides"""
    return SP.conj([SP.conj([a[0].get(k, 0) == b[1].get(k, 0), a[1].get(k, 0) == b[0].get(k, 0), a[2].get(k, 0) == b[3].get(k, 0), a[3].get(k, 0) == b[2].get(k, 0)]) for k in NAMES])


def _equilibria_obligations(v, layouts):
    from chempy.reactionsystem import ReactionSystem
    rxns, ds = mk_rxns(v, layouts)
    rsys = ReactionSystem(rxns, plain_substances(), checks=())
    eq = v.call(rsys.identify_equilibria)
    n = len(rxns)
    for i in range(n):
        for j in range(i + 1, n):
            first = SP.conj([_reverse_parts(ds[i], ds[j])] + [SP.neg(_reverse_parts(ds[i], ds[m])) for m in range(i + 1, j)])
            v.prove("pair_%d_%d_listed_iff_first_reverse_partner" % (i, j), SP.iff((i, j) in eq, first))
    v.prove("only_ordered_pairs", all(a < b_ for a, b_ in eq))
    v.prove("sorted_by_first_index", [a for a, _ in eq] == sorted(a for a, _ in eq))


@harness("C15", "identify_equilibria", functions=[RS + ":ReactionSystem.identify_equilibria"], kind="shape-bounded", samples=60)
def _(v):
    """'forward/backward pairs … contain exactly the reactions their definitions say': reaction j is the backward reaction of i when it is what
    Equilibrium.as_reactions() writes for the other direction, i.e. all four parts change sides -- reac_j == prod_i, prod_j == reac_i,
    inact_reac_j == inact_prod_i, inact_prod_j == inact_reac_i, part by part; a reaction is paired with the first later reaction that is its
    reverse.  (At these layouts no key is active in one reaction and inactive in another, so the definition is not confronted with reactions
    that agree only after active and inactive coefficients are added up.)"""
    _equilibria_obligations(v, LAYOUTS)


@harness("C15", "identify_equilibria_inactive_parts", functions=[RS + ":ReactionSystem.identify_equilibria"], kind="shape-bounded", samples=40)
def _(v):
    """the same definition where the inactive parts decide: A + (B) -> D + (B) against its written reverse D + (B) -> A + (B) (a pair iff all four
    coefficients agree) and against D -> A without the spectator (never a pair: the inactive parts are not the swapped ones)"""
    _equilibria_obligations(v, [(["A"], ["D"], ["B"], ["B"]), (["D"], ["A"], ["B"], ["B"]), (["D"], ["A"], [], [])])


def _reverse_totals(a, b, names=NAMES):
    """what holds for a forward/backward pair under every reading of the definition: per species, everything reaction a writes on its reactant
    side (active + inactive) is what b writes on its product side, and the other way round"""
    return SP.conj([SP.conj([all_reac(a, k) == all_prod(b, k), all_prod(a, k) == all_reac(b, k)]) for k in names])


@harness("C15", "identify_equilibria_species_active_and_inactive_on_one_side", functions=[RS + ":ReactionSystem.identify_equilibria", "chempy.chemistry:Reaction.all_reac_stoich", "chempy.chemistry:Reaction.all_prod_stoich"],
         kind="shape-bounded", samples=60)
def _(v):
    """'forward/backward pairs ... contain exactly the reactions their definitions say' where one species is written twice on the same side, once
    active and once inactive (chempy's way of writing '2 A + B -> C, first order in A': A + (A) + B -> C): against C -> A + B and against its
    written reverse C -> A + (A) + B.  Stated so that it holds whether 'backward reaction' is read part by part (as in identify_equilibria above)
    or by the totals per side: a listed pair has, species by species, the same TOTAL (active + inactive) on swapped sides -- a backward step that
    returns fewer A than the forward step takes is no pair --, and the written reverse is listed unless an earlier reaction already balances
    the totals."""
    from chempy.reactionsystem import ReactionSystem
    rxns, ds = mk_rxns(v, [(["A", "B"], ["C"], ["A"], []), (["C"], ["A", "B"], [], []), (["C"], ["A", "B"], [], ["A"])])
    rsys = ReactionSystem(rxns, plain_substances(), checks=())
    eq = v.call(rsys.identify_equilibria)
    n = len(rxns)
    for i in range(n):
        for j in range(i + 1, n):
            v.prove("pair_%d_%d_listed_only_if_totals_per_side_are_swapped" % (i, j), SP.implies((i, j) in eq, _reverse_totals(ds[i], ds[j])))
            v.prove("pair_%d_%d_listed_if_written_reverse_and_no_earlier_partner" % (i, j),
                    SP.implies(SP.conj([_reverse_parts(ds[i], ds[j])] + [SP.neg(_reverse_totals(ds[i], ds[m])) for m in range(i + 1, j)]), (i, j) in eq))
    v.prove("only_ordered_pairs", all(a < b_ for a, b_ in eq))
    v.prove("each_reaction_opens_at_most_one_pair", len(set(a for a, _ in eq)) == len(eq))


@harness("C15", "participation_and_effect", functions=[RS + ":ReactionSystem.substance_participation", RS + ":ReactionSystem.per_reaction_effect_on_substance", "chempy.chemistry:Reaction.keys"],
         kind="shape-bounded", samples=30)
def _(v):
    from chempy.reactionsystem import ReactionSystem
    rxns, ds = mk_rxns(v)
    rsys = ReactionSystem(rxns, plain_substances(), checks=())
    for k in NAMES:
        exp = [i for i, (r, p, ir, ip) in enumerate(LAYOUTS) if k in r + p + ir + ip]
        v.prove("participation_" + k, v.call(rsys.substance_participation, k) == exp)
        eff = v.call(rsys.per_reaction_effect_on_substance, k)
        v.prove("effect_%s.values" % k, SP.conj([SP.implies(SP.neg(net(d, k) == 0), SP.conj([(i in eff), eff.get(i, 0) == net(d, k)])) for i, d in enumerate(ds)]))
        v.prove("effect_%s.only_nonzero" % k, SP.conj([SP.implies(net(d, k) == 0, i not in eff) for i, d in enumerate(ds)]))


def _categorize_obligations(v, names, lay):
    from chempy.reactionsystem import ReactionSystem
    from chempy.chemistry import Substance
    rxns, ds = mk_rxns(v, lay)
    rsys = ReactionSystem(rxns, OrderedDict((n, Substance(n)) for n in names), checks=())
    cat = v.call(rsys.categorize_substances, checks=())
    for k in names:
        nets = [net(d, k) for d in ds]
        appears = SP.disj([all_prod(d, k) > 0 for d in ds] + [all_reac(d, k) > 0 for d in ds])
        in_r = SP.disj([x < 0 for x in nets])
        in_p = SP.disj([x > 0 for x in nets])
        v.prove(k + ".accumulated_iff_only_net_produced", SP.iff(k in cat["accumulated"], SP.conj([in_p, SP.neg(in_r)])))
        v.prove(k + ".depleted_iff_only_net_consumed", SP.iff(k in cat["depleted"], SP.conj([in_r, SP.neg(in_p)])))
        v.prove(k + ".unaffected_iff_present_with_zero_net", SP.iff(k in cat["unaffected"], SP.conj([SP.neg(in_r), SP.neg(in_p), appears])))
        v.prove(k + ".nonparticipating_iff_absent", SP.iff(k in cat["nonparticipating"], SP.conj([SP.neg(in_r), SP.neg(in_p), SP.neg(appears)])))
    # the four categories of the statement are there (a further category, e.g. for species both produced and consumed, is not excluded by it)
    v.prove("keys", {"accumulated", "depleted", "unaffected", "nonparticipating"} <= set(cat))
    return rsys, ds


@harness("C15", "categorize_substances", functions=[RS + ":ReactionSystem.categorize_substances", RS + ":ReactionSystem._stoichs"], kind="shape-bounded", samples=60)
def _(v):
    _categorize_obligations(v, NAMES + ["E"], [(["A", "B"], ["C"], [], []), (["A"], ["D"], ["B"], ["B"]), (["C"], ["D"], [], [])])


@harness("C15", "categorize_substances_species_active_and_inactive_on_one_side", functions=[RS + ":ReactionSystem.categorize_substances", RS + ":ReactionSystem._stoichs", RS + ":ReactionSystem.all_reac_stoichs",
                                                                                           RS + ":ReactionSystem.all_prod_stoichs", "chempy.chemistry:Reaction.all_reac_stoich", "chempy.chemistry:Reaction.all_prod_stoich"],
         kind="shape-bounded", samples=60)
def _(v):
    """'only ever net-produced, only net-consumed, present with zero net effect': what a reaction does to a species is everything it writes for it
    on the product side minus everything on the reactant side, active AND inactive added up, also when the species stands twice on one side
    (A + Cat + (Cat) -> B + Cat: the catalyst is unaffected only when the coefficients cancel with both counted; B -> C + (C) against C -> B).
    The per-reaction tables the categories are read from (all_reac_stoichs / all_prod_stoichs, rows = reactions, columns = substances in
    substance order) hold these totals."""
    names = NAMES + ["E"]
    rsys, ds = _categorize_obligations(v, names, [(["A", "D"], ["B", "D"], ["D"], []), (["B"], ["C"], [], ["C"]), (["C"], ["B"], [], [])])
    tr, tp = v.call(rsys.all_reac_stoichs), v.call(rsys.all_prod_stoichs)
    v.prove("tables_have_one_row_per_reaction_one_column_per_substance", len(tr) == len(ds) and len(tp) == len(ds) and all(len(row) == len(names) for row in list(tr) + list(tp)))
    for i, d in enumerate(ds):
        v.prove("reactant_side_of_reaction_%d_is_active_plus_inactive" % i, SP.conj([v.eq(tr[i][j], all_reac(d, k)) for j, k in enumerate(names)]))
        v.prove("product_side_of_reaction_%d_is_active_plus_inactive" % i, SP.conj([v.eq(tp[i][j], all_prod(d, k)) for j, k in enumerate(names)]))


@harness("C15", "subset_add_eq", functions=[RS + ":ReactionSystem.subset", RS + ":ReactionSystem.__add__", RS + ":ReactionSystem.__iadd__", RS + ":ReactionSystem.__eq__"], kind="shape-bounded", samples=30)
def _(v):
    """'predicate subsets and sums of systems contain exactly the reactions their definitions say'.  Each reaction carries a distinct name as a tag:
    'reaction i is in the result' means a reaction with that tag which is the original object or has the same four parts and constant (a copy is
    as good as the object itself: the statement speaks of the reactions, not of Python identity)"""
    from chempy.reactionsystem import ReactionSystem
    tags = ["n0", "n1", "n2", "n3"]
    rxns, ds = mk_rxns(v, names=tags)
    rsys = ReactionSystem(rxns, plain_substances(), checks=())
    thr = v.int("threshold", lo=1, hi=3)
    pred = lambda r: r.reac.get("A", 0) + r.prod.get("A", 0) >= thr
    yes, no = v.call(rsys.subset, pred)
    has = lambda coll, i: any(x.name == tags[i] for x in coll)

    def same_content(x, i):
        if x is rxns[i]:
            return True
        parts = [(x.reac, 0), (x.prod, 1), (x.inact_reac, 2), (x.inact_prod, 3)]
        return SP.conj([set(got) == set(ds[i][j]) for got, j in parts] + [v.eq(got.get(k, 0), ds[i][j].get(k, 0)) for got, j in parts for k in NAMES] + [x.param is None])
    # partition of the reactions by the predicate, order kept
    for i, (rxn, d) in enumerate(zip(rxns, ds)):
        p = d[0].get("A", 0) + d[1].get("A", 0) >= thr
        v.prove("r%d_in_yes_iff_pred" % i, SP.iff(has(yes.rxns, i), p))
        v.prove("r%d_in_exactly_one" % i, has(yes.rxns, i) != has(no.rxns, i) and [x.name for x in yes.rxns + no.rxns].count(tags[i]) == 1)
    v.prove("reactions_unchanged", SP.conj([same_content(x, tags.index(x.name)) for x in yes.rxns + no.rxns if x.name in tags]) and all(x.name in tags for x in yes.rxns + no.rxns))
    v.prove("order_kept", [x.name for x in yes.rxns] == [t for t in tags if t in [x.name for x in yes.rxns]] and [x.name for x in no.rxns] == [t for t in tags if t in [x.name for x in no.rxns]])
    # the predicate alone decides: one that reads only the tag takes reaction 1 and leaves 0, 2, 3 -- also for the coefficients at which reaction 3
    # (same layout as 1) has the same four parts as reaction 1 and the two differ in nothing but the tag
    yes_t, no_t = v.call(rsys.subset, lambda r: r.name == "n1")
    v.prove("tag_predicate.partition_whatever_the_coefficients", [x.name for x in yes_t.rxns] == ["n1"] and [x.name for x in no_t.rxns] == ["n0", "n2", "n3"])
    v.prove("tag_predicate.reactions_unchanged", SP.conj([same_content(x, tags.index(x.name)) for x in yes_t.rxns + no_t.rxns if x.name in tags]))
    v.prove("substances_restricted", all(any(k in r.keys() for r in yes.rxns) for k in yes.substances) and
            all((k in yes.substances) for r in yes.rxns for k in r.keys()))
    s = v.call(yes.__add__, no)
    v.prove("sum_has_all_reactions", [x.name for x in s.rxns] == [x.name for x in yes.rxns + no.rxns] and SP.conj([same_content(x, tags.index(x.name)) for x in s.rxns]))
    v.prove("sum_merges_substances", set(s.substances) == set(yes.substances) | set(no.substances))
    v.prove("eq_reflexive", v.call(rsys.__eq__, rsys) is True)
    other = ReactionSystem(list(rxns), plain_substances(), checks=())
    v.prove("eq_same_content", bool(v.call(rsys.__eq__, other)))
    shorter = ReactionSystem(list(rxns[:-1]), plain_substances(), checks=())
    v.prove("neq_different_reactions", not v.call(rsys.__eq__, shorter))
    acc = ReactionSystem(list(rxns[:2]), plain_substances(), checks=())
    v.call(acc.__iadd__, ReactionSystem(list(rxns[2:]), plain_substances(), checks=()))
    v.prove("iadd_appends", [x.name for x in acc.rxns] == tags and SP.conj([same_content(x, i) for i, x in enumerate(acc.rxns)]))


@harness("C15", "conversions", functions=[RS + ":ReactionSystem.as_per_substance_array", RS + ":ReactionSystem.as_per_substance_dict", RS + ":ReactionSystem.as_substance_index"], kind="data")
def _(v):
    """'per-substance arrays and dictionaries convert into each other in substance order' on a four-species system; what is no per-substance
    container (an unknown key when the caller asks for that check, a wrong length) is refused -- with whatever exception"""
    import numpy as np
    from chempy.reactionsystem import ReactionSystem
    rsys = ReactionSystem([], plain_substances(), checks=())
    d = {"C": 3.0, "A": 1.0, "D": 4.0, "B": 2.0}

    def attempt(f, *a, **kw):
        try:
            return f(*a, **kw)
        except Exception as ex:
            return ex
    arr = attempt(rsys.as_per_substance_array, d)
    v.prove("array_in_substance_order", not isinstance(arr, Exception) and list(arr) == [1.0, 2.0, 3.0, 4.0], detail=repr(arr))
    back = attempt(rsys.as_per_substance_dict, np.array([1.0, 2.0, 3.0, 4.0]))
    v.prove("dict_round_trip", not isinstance(back, Exception) and back == {"A": 1.0, "B": 2.0, "C": 3.0, "D": 4.0} and list(back) == NAMES, detail=repr(back))
    idx = attempt(lambda: [rsys.as_substance_index(k) for k in NAMES] + [rsys.as_substance_index(2)])
    v.prove("index", idx == [0, 1, 2, 3, 2], detail=repr(idx))
    v.prove("unknown_key_raises", isinstance(attempt(rsys.as_per_substance_array, dict(d, X=1.0), raise_on_unk=True), Exception))
    v.prove("wrong_size_raises", isinstance(attempt(rsys.as_per_substance_array, [1.0, 2.0]), Exception))


@harness("C15", "constructor_checks", functions=[RS + ":ReactionSystem.check_duplicate", RS + ":ReactionSystem.check_duplicate_names", RS + ":ReactionSystem.check_substance_keys"],
         kind="shape-bounded", samples=40)
def _(v):
    from chempy.reactionsystem import ReactionSystem
    lay = [(["A", "B"], ["C"], [], []), (["A", "B"], ["C"], [], []), (["C"], ["D"], [], [])]
    rxns, ds = mk_rxns(v, lay, names=["n0", "n1", "n2"])
    rsys = ReactionSystem(rxns, plain_substances(), checks=())
    same01 = SP.conj([ds[0][s].get(k, 0) == ds[1][s].get(k, 0) for s in range(4) for k in NAMES])
    v.prove("duplicate_detected_iff_equal_stoichiometry", SP.iff(v.call(rsys.check_duplicate), SP.neg(same01)))
    out = v.run(rsys.check_duplicate, throw=True)
    if out.returned:
        v.prove("no_throw_without_duplicate", SP.neg(same01))
    else:
        v.prove("throws_ValueError_on_duplicate", SP.conj([out.raised(ValueError), same01]), detail=repr(out.exc))
    v.prove("names_unique", v.call(rsys.check_duplicate_names) is True)
    rxns2, _ = mk_rxns(v, lay, names=["n0", None, "n0"])
    r2 = ReactionSystem(rxns2, plain_substances(), checks=())
    v.prove("duplicate_name_detected", v.call(r2.check_duplicate_names) is False)
    v.prove("duplicate_name_throws", v.run(r2.check_duplicate_names, throw=True).raised(ValueError))
    v.prove("keys_known", v.call(rsys.check_substance_keys) is True)
    from chempy.chemistry import Substance
    r3 = ReactionSystem(rxns, OrderedDict((n, Substance(n)) for n in "ABC"), checks=())
    v.prove("unknown_key_detected", v.call(r3.check_substance_keys) is False)
    v.prove("unknown_key_throws", v.run(r3.check_substance_keys, throw=True).raised(ValueError))


@harness("C15", "categorize_substances.fractional_coefficients", functions=["chempy.reactionsystem:ReactionSystem.categorize_substances"], kind="data")
def _(v):
    """coefficients need not be integers (Fraction / float, admitted with checks=() or dont_check={'all_integral'}): the four categories are still
    decided by the SIGN of what each reaction does to the species"""
    from fractions import Fraction as Fr
    from chempy.chemistry import Reaction, Substance
    from chempy.reactionsystem import ReactionSystem
    mk = lambda rxns, names: ReactionSystem(rxns, [Substance(n) for n in names], checks=())

    def cats(rsys):
        # checks=() also for the system categorize_substances builds internally (as the sentence above says); only the four named categories are compared
        try:
            c = rsys.categorize_substances(checks=())
            return {k: set(c[k]) for k in ("accumulated", "depleted", "unaffected", "nonparticipating")}
        except Exception as ex:
            return repr(ex)
    c = cats(mk([Reaction({"H2O2": 1}, {"H2O": 1, "O2": 0.5}, checks=())], ["H2O2", "H2O", "O2", "N2"]))
    v.prove("half_a_product", c == dict(accumulated={"H2O", "O2"}, depleted={"H2O2"}, unaffected=set(), nonparticipating={"N2"}), detail=repr(c))
    c = cats(mk([Reaction({"A": 1, "C": Fr(3, 2)}, {"B": 1, "C": 1}, checks=())], ["A", "B", "C"]))
    v.prove("net_consumption_of_half_a_catalyst", c == dict(accumulated={"B"}, depleted={"A", "C"}, unaffected=set(), nonparticipating=set()), detail=repr(c))
    c = cats(mk([Reaction({"A": Fr(1, 3)}, {"B": Fr(1, 4)}, checks=()), Reaction({"B": 0.25, "D": 1}, {"A": Fr(1, 3), "D": 1.0}, checks=())], ["A", "B", "D"]))
    v.prove("fractions_below_one", c == dict(accumulated=set(), depleted=set(), unaffected={"D"}, nonparticipating=set()), detail=repr(c))


@harness("C15", "definitions_on_written_systems", functions=["chempy.reactionsystem:ReactionSystem.per_substance_varied", "chempy.reactionsystem:ReactionSystem.concatenate", "chempy.reactionsystem:ReactionSystem.__eq__",
                                                           "chempy.reactionsystem:ReactionSystem.__add__", "chempy.reactionsystem:ReactionSystem.__iadd__",
                                                           "chempy.reactionsystem:ReactionSystem.categorize_substances", "chempy.reactionsystem:ReactionSystem.split",
                                                           "chempy.reactionsystem:ReactionSystem.identify_equilibria", "chempy.reactionsystem:ReactionSystem.as_substance_index"], kind="data")
def _(v):
    """queries the symbolic harnesses do not reach, on small systems written out by hand: grids of varied concentrations (axes in substance order,
    whatever the order of the `varied` mapping), sums of systems with duplicates set aside ('identical stoichiometry' = the four parts, or the
    parts named by cmp_attrs; across two and three systems), + and += with declared-but-unused species and with a list of reactions, equality
    of systems (reactions with their constants, the substances with their content and order; both directions and !=), forward/backward pairs
    that differ only in their inactive parts, the system without reactions"""
    from chempy.chemistry import Reaction, Substance
    from chempy.reactionsystem import ReactionSystem
    rs = ReactionSystem([Reaction({"A": 1}, {"B": 1}, checks=())], [Substance(k) for k in ("C", "A", "B")], checks=())
    base = {"A": 2.0, "B": 3.0, "C": 5.0}
    try:
        arr, keys = rs.per_substance_varied(base, {"B": [30.0, 31.0], "C": [50.0, 51.0, 52.0]})      # mapping order B, C; substance order C, A, B
        ok = tuple(keys) == ("C", "B") and arr.shape == (3, 2, 3)      # the keys in substance order; tuple or list is not part of the statement
        if ok:
            for i, c in enumerate([50.0, 51.0, 52.0]):
                for j, b in enumerate([30.0, 31.0]):
                    ok = ok and list(arr[i, j, :]) == [c, 2.0, b]
        det = "%r %r" % (keys, getattr(arr, "shape", None))
    except Exception as ex:
        ok, det = False, repr(ex)
    v.prove("grid_axes_follow_substance_order_each_point_is_the_base_with_its_levels", ok, detail=det)
    try:
        arr1, keys1 = rs.per_substance_varied(base)
        ok, det = len(keys1) == 0 and list(arr1) == [5.0, 2.0, 3.0], "%r %r" % (arr1, keys1)
    except Exception as ex:
        ok, det = False, repr(ex)
    v.prove("nothing_varied", ok, detail=det)
    # reactions are compared by their four parts and constant (how a reaction is printed belongs to C12/C20)
    sig = lambda r: (dict(r.reac), dict(r.prod), dict(r.inact_reac), dict(r.inact_prod), r.param)
    sigs = lambda rsys: [sig(r) for r in rsys.rxns]
    R = lambda reac, prod, k, ir=None, ip=None: Reaction(reac, prod, k, inact_reac=ir, inact_prod=ip, checks=())
    S = lambda reac, prod, k, ir=None, ip=None: (reac, prod, ir or {}, ip or {}, k)      # the same written as a signature
    mk = lambda rxns, names: ReactionSystem(rxns, [Substance(k) for k in names], checks=())

    def concat(systems, **kw):
        try:
            tot, dup = ReactionSystem.concatenate(systems, **kw)
            return sigs(tot), sigs(dup), list(tot.substances), list(dup.substances)
        except Exception as ex:
            return repr(ex), None, [], []
    # two systems: the later copy of A -> B (other constant) is set aside, B -> C joins the sum after the first system's reactions
    tot, dup, tsub, dsub = concat([mk([R({"A": 1}, {"B": 1}, 1.0)], "AB"), mk([R({"B": 1}, {"C": 1}, 2.0), R({"A": 1}, {"B": 1}, 9.0)], "ABC")])
    v.prove("sum_has_each_stoichiometry_once_duplicates_set_aside", tot == [S({"A": 1}, {"B": 1}, 1.0), S({"B": 1}, {"C": 1}, 2.0)] and dup == [S({"A": 1}, {"B": 1}, 9.0)]
            and set(tsub) == {"A", "B", "C"}, detail="%r %r" % (tot, dup))
    v.prove("sum_keeps_the_first_systems_substance_order_and_the_set_aside_system_knows_its_species", tsub[:2] == ["A", "B"] and {"A", "B"} <= set(dsub), detail="%r %r" % (tsub, dsub))
    # three systems: the third repeats a stoichiometry the SECOND one contributed (not one of the first system) and brings one new reaction
    tot, dup, tsub, dsub = concat([mk([R({"A": 1}, {"B": 1}, 1.0)], "AB"), mk([R({"B": 1}, {"C": 1}, 2.0)], "BC"), mk([R({"B": 1}, {"C": 1}, 3.0), R({"C": 1}, {"D": 1}, 4.0)], "BCD")])
    v.prove("sum_of_three.duplicate_of_a_reaction_from_the_second_system_set_aside", tot == [S({"A": 1}, {"B": 1}, 1.0), S({"B": 1}, {"C": 1}, 2.0), S({"C": 1}, {"D": 1}, 4.0)]
            and dup == [S({"B": 1}, {"C": 1}, 3.0)] and set(tsub) == {"A", "B", "C", "D"} and {"B", "C"} <= set(dsub), detail="%r %r %r %r" % (tot, dup, tsub, dsub))
    # same active parts, but a spectator on the reactant side: another stoichiometry, so it stays in the sum ...
    pair = lambda: [mk([R({"A": 1}, {"B": 1}, 1.0)], "AB"), mk([R({"A": 1}, {"B": 1}, 5.0, {"S": 1})], "ABS")]
    tot, dup, tsub, dsub = concat(pair())
    v.prove("sum.differs_only_in_an_inactive_part_is_no_duplicate", tot == [S({"A": 1}, {"B": 1}, 1.0), S({"A": 1}, {"B": 1}, 5.0, {"S": 1})] and dup == [] and set(tsub) == {"A", "B", "S"},
            detail="%r %r %r" % (tot, dup, tsub))
    # ... unless the caller asks to compare the active parts only
    tot, dup, tsub, dsub = concat(pair(), cmp_attrs=("reac", "prod"))
    v.prove("sum.cmp_attrs_restricts_what_identical_means", tot == [S({"A": 1}, {"B": 1}, 1.0)] and dup == [S({"A": 1}, {"B": 1}, 5.0, {"S": 1})] and {"A", "B"} <= set(tsub) and {"A", "B", "S"} <= set(dsub),
            detail="%r %r %r %r" % (tot, dup, tsub, dsub))
    # + and += keep every declared species of both operands, also one that no reaction uses, the left operand's first, each once
    left = lambda: mk([R({"A": 1}, {"B": 1}, 1.0)], ["A", "B", "N2"])
    right = lambda: mk([R({"B": 1}, {"C": 1}, 2.0)], ["B", "C", "Ar"])
    try:
        l0 = left()
        s_add = l0 + right()
        s_iadd = left()
        s_iadd += right()
        got = [(sigs(x), list(x.substances)) for x in (s_add, s_iadd)] + [(sigs(l0), list(l0.substances))]
    except Exception as ex:
        got = repr(ex)
    want = ([S({"A": 1}, {"B": 1}, 1.0), S({"B": 1}, {"C": 1}, 2.0)], ["A", "B", "N2", "C", "Ar"])
    v.prove("add_and_iadd_keep_unused_species_and_the_left_order", got == [want, want, ([S({"A": 1}, {"B": 1}, 1.0)], ["A", "B", "N2"])], detail=repr(got))
    # + and += with a list of reactions: the reactions are appended (+ leaves the left operand alone); anything that is not a reaction is refused
    extra = R({"C": 1}, {"A": 1}, 3.0)
    try:
        l0, l1 = left(), left()
        s_add = l0 + [extra]
        l1 += [extra]
        got = [sigs(s_add), sigs(l1), sigs(l0), list(s_add.substances)[:3], list(l1.substances)[:3]]
    except Exception as ex:
        got = repr(ex)
    both = [S({"A": 1}, {"B": 1}, 1.0), S({"C": 1}, {"A": 1}, 3.0)]
    v.prove("add_and_iadd_take_a_list_of_reactions", got == [both, both, [S({"A": 1}, {"B": 1}, 1.0)], ["A", "B", "N2"], ["A", "B", "N2"]], detail=repr(got))
    took = []
    for bad in ([1], ["A -> B"], [extra, None]):
        for op in ("add", "iadd"):
            l0 = left()
            try:
                if op == "add":
                    res = l0 + bad
                else:
                    l0 += bad
                    res = l0
                took.append((op, repr(bad)[:20], len(res.rxns)))
            except Exception:
                if sigs(l0) != [S({"A": 1}, {"B": 1}, 1.0)]:      # a refused operand must not leave half of itself behind
                    took.append((op, repr(bad)[:20], "refused, but the system now has", sigs(l0)))
    v.prove("add_and_iadd_refuse_what_is_not_a_reaction", not took, detail=repr(took[:2]))
    a = mk([R({"A": 1}, {"B": 1}, 1.0), R({"B": 1}, {"C": 2}, 2.0)], "ABC")
    same = mk([R({"A": 1}, {"B": 1}, 1.0), R({"B": 1}, {"C": 2}, 2.0)], "ABC")

    def rel(p, q):
        """'==' / '!=' when ==, its mirror image and != all say so, else what they said"""
        try:
            r = (bool(p == q), bool(q == p), bool(p != q))
        except Exception as ex:
            return repr(ex)
        return {(True, True, False): "==", (False, False, True): "!="}.get(r, r)
    v.prove("equal_content_distinct_objects", rel(a, same) == "==", detail=repr(rel(a, same)))
    comp = lambda n: [Substance("A", composition={1: n}), Substance("B"), Substance("C")]
    differs = [("a coefficient", mk([R({"A": 1}, {"B": 1}, 1.0), R({"B": 1}, {"C": 3}, 2.0)], "ABC")),
               ("reaction order", mk([R({"B": 1}, {"C": 2}, 2.0), R({"A": 1}, {"B": 1}, 1.0)], "ABC")),
               ("fewer reactions", mk([R({"A": 1}, {"B": 1}, 1.0)], "ABC")),
               ("another substance", mk([R({"A": 1}, {"B": 1}, 1.0), R({"B": 1}, {"C": 2}, 2.0)], "ABCD")),
               ("a rate constant", mk([R({"A": 1}, {"B": 1}, 1.0), R({"B": 1}, {"C": 2}, 2.5)], "ABC")),
               ("an inactive part", mk([R({"A": 1}, {"B": 1}, 1.0, {"C": 1}), R({"B": 1}, {"C": 2}, 2.0)], "ABC")),
               # per-substance arrays are read in substance order, so two systems that order their species differently are not interchangeable
               ("substance order", mk([R({"A": 1}, {"B": 1}, 1.0), R({"B": 1}, {"C": 2}, 2.0)], "BAC"))]
    wrong = [(what, rel(a, d)) for what, d in differs if rel(a, d) != "!="]
    # same keys, but what a key stands for differs (composition of A)
    x, y = ReactionSystem([R({"A": 1}, {"B": 1}, 1.0)], comp(1), checks=()), ReactionSystem([R({"A": 1}, {"B": 1}, 1.0)], comp(2), checks=())
    if rel(x, y) != "!=" or rel(x, ReactionSystem([R({"A": 1}, {"B": 1}, 1.0)], comp(1), checks=())) != "==":
        wrong.append(("the composition of a substance", rel(x, y)))
    v.prove("any_difference_makes_them_unequal", not wrong, detail="not '!=' although they differ in: %r" % wrong)
    fw = Reaction({"A": 1}, {"B": 1}, inact_reac={"S": 1}, checks=())
    bw_swapped = Reaction({"B": 1}, {"A": 1}, inact_prod={"S": 1}, checks=())
    bw_not = Reaction({"B": 1}, {"A": 1}, inact_reac={"S": 1}, checks=())
    try:
        got = [[tuple(p) for p in mk(pair_, "ABS").identify_equilibria()] for pair_ in ([fw, bw_swapped], [fw, bw_not])]
    except Exception as ex:
        got = repr(ex)
    v.prove("reverse_pair_needs_the_inactive_parts_swapped_too", got == [[(0, 1)], []], detail=repr(got))
    # no reactions at all: every declared species is 'absent from all reactions', and there is no component to split off
    try:
        c = mk([], "AB").categorize_substances(checks=())
        got = ({k: set(c[k]) for k in ("accumulated", "depleted", "unaffected", "nonparticipating")}, len(mk([], "AB").split()))
    except Exception as ex:
        got = repr(ex)
    v.prove("system_without_reactions", got == (dict(accumulated=set(), depleted=set(), unaffected=set(), nonparticipating={"A", "B"}), 0), detail=repr(got))
    try:
        idx = [rs.as_substance_index(k) for k in ("C", "A", "B")]
    except Exception as ex:
        idx = repr(ex)
    v.prove("index_of_a_key_is_its_position", idx == [0, 1, 2], detail=repr(idx))


@harness("C15", "per_substance_array_size", functions=["chempy.reactionsystem:ReactionSystem.as_per_substance_array", "chempy.reactionsystem:ReactionSystem.as_per_substance_dict",
                                                     "chempy.reactionsystem:ReactionSystem.upper_conc_bounds"], kind="data")
def _(v):
    """'per-substance arrays … convert into each other in substance order': a container whose length is not the number of substances is no
    per-substance array and is refused (with whatever exception; what must not happen is an answer) whatever its type -- float arrays, integer
    arrays, lists, tuples -- so that the elemental bounds are never computed from a truncated state; a right-sized one comes back with the same
    numbers, also as a (points x substances) block, and gives the same elemental bounds as the dictionary"""
    import numpy as np
    from chempy.reactionsystem import ReactionSystem
    rs = ReactionSystem.from_string("2 H2O2 -> 2 H2O + O2\nH2O -> H+ + OH-")
    n = rs.ns
    order = list(rs.substances)
    accepted = []
    for cont in (np.arange(n - 1, dtype=float), np.arange(n + 1, dtype=float), np.arange(n - 1), list(range(n + 2)), tuple(float(i) for i in range(n - 2)), np.zeros(0)):
        for fn in (rs.as_per_substance_array, rs.upper_conc_bounds):
            try:
                accepted.append((type(cont).__name__, len(cont), fn.__name__, repr(fn(cont))[:60]))
            except Exception:
                pass
    v.prove("wrong_size_refused", not accepted, detail=repr(accepted[:3]))
    vals = [7.5, 0.25, 3.0, 11.0, 2.0][:n]      # not monotone: a reordering cannot pass for the identity
    ivals = [7, 0, 3, 11, 2][:n]
    bad = []
    for c, want in ((np.array(vals), vals), (np.array(ivals), ivals), (list(vals), vals), (tuple(ivals), ivals)):
        try:
            got = list(rs.as_per_substance_array(c))
        except Exception as ex:
            got = repr(ex)
        if got != [float(x) for x in want]:
            bad.append((type(c).__name__, got))
    v.prove("right_size_same_numbers", n == 5 and not bad, detail=repr(bad[:2]))
    # the other direction: a sequence that is too short or too long is no per-substance sequence either (zip would silently drop the rest)
    took = []
    for seq in ([1.0], list(range(n - 1)), list(range(n + 1)), np.arange(n + 3, dtype=float), ()):
        try:
            took.append((len(seq), rs.as_per_substance_dict(seq)))
        except Exception:
            pass
    v.prove("dict_from_a_wrong_sized_sequence_refused", not took, detail=repr(took[:2]))
    try:
        dd = rs.as_per_substance_dict(vals)
        ok, det = dd == dict(zip(order, vals)) and list(rs.as_per_substance_array(dd)) == vals, repr(dd)
    except Exception as ex:
        ok, det = False, repr(ex)
    v.prove("dict_from_a_right_sized_sequence", ok, detail=det)
    # several states at once: a (points x substances) block, the substance is the LAST axis (what per_substance_varied returns)
    block = np.array([vals, [10 * x + 1 for x in vals], [0.5 * x for x in reversed(vals)]])      # 3 points, n substances, 3 != n
    try:
        got = rs.as_per_substance_array(block)
        ok, det = got.shape == (3, n) and got.tolist() == block.tolist(), repr(got)[:120]
    except Exception as ex:
        ok, det = False, repr(ex)
    v.prove("block_of_states_comes_back_unchanged", ok, detail=det)
    # ... as a dictionary: every key gets ITS column (all points of that substance) -- or the block is refused; never the rows handed out to the first keys
    try:
        dd = rs.as_per_substance_dict(block)
        ok, det = list(dd) == order and all(list(np.ravel(dd[k])) == block[:, i].tolist() for i, k in enumerate(order)), repr(dd)[:160]
    except Exception as ex:
        ok, det = True, "refused: %r" % ex
    v.prove("dict_from_a_block_of_states_has_each_substances_column_or_is_refused", ok, detail=det)
    # a dictionary of sequences (3 points per substance): the substance axis of the array is the last one -- or the dictionary is refused
    dseq = {k: block[:, i].tolist() for i, k in enumerate(order)}
    try:
        got = np.asarray(rs.as_per_substance_array(dseq))
        ok, det = got.shape == (3, n) and got.tolist() == block.tolist(), repr(got)[:160]
    except Exception as ex:
        ok, det = True, "refused: %r" % ex
    v.prove("array_from_a_dict_of_sequences_has_the_substance_last_or_is_refused", ok, detail=det)
    # the elemental bounds from a right-sized list / array are those from the dictionary, and both are the least (element total)/(atoms per
    # molecule), worked out here from the formulas (H = 1, O = 8; charge not an element)
    atoms = {"H2O2": {1: 2, 8: 2}, "H2O": {1: 2, 8: 1}, "O2": {8: 2}, "H+": {1: 1}, "OH-": {1: 1, 8: 1}}
    conc = dict(zip(order, vals))
    total = {e: sum(atoms[k].get(e, 0) * conc[k] for k in order) for e in (1, 8)} if set(order) == set(atoms) else {}
    want = [min(total[e] / m for e, m in atoms[k].items()) for k in order] if total else None
    try:
        got = [[float(x) for x in rs.upper_conc_bounds(c)] for c in (conc, list(vals), np.array(vals), tuple(vals))]
    except Exception as ex:
        got = repr(ex)
    v.prove("bounds_from_a_sequence_are_those_from_the_dict", want is not None and not isinstance(got, str) and all(len(g) == n and all(abs(a - b) <= 1e-12 * b for a, b in zip(g, want)) for g in got),
            detail="%r, expected %r" % (got, want))


@harness("C15", "split_and_sequences", functions=["chempy.reactionsystem:ReactionSystem.split", "chempy.reactionsystem:ReactionSystem.subset", "chempy.reactionsystem:ReactionSystem.__add__"], kind="data")
def _(v):
    """'splitting a system returns sub-systems whose reaction lists partition the original reactions, whose substance sets are pairwise disjoint
    and each connected through shared species, one per connected component' on two systems whose components are read off by hand, and the
    quantifier's 'sequences of add/subset/split': the components of a sum of systems without common species are those of the operands, and
    taking a system apart with a predicate and adding the halves again (in either order) does not change its components.  Reactions are told
    apart by their constants (1..8, each used once)."""
    from chempy.chemistry import Reaction, Substance
    from chempy.reactionsystem import ReactionSystem
    R = lambda reac, prod, k, ir=None: Reaction(reac, prod, k, inact_reac=ir, checks=())
    mk = lambda rxns, names: ReactionSystem(rxns, [Substance(k) for k in names], checks=())
    # a: 1: A -> B and 3: 2 B -> E hang together through B; 2: C -> D, 4: F -> G and 5: D + (G) -> C hang together through D/C and the
    #    spectator G (an inactive species is a shared species as well); H is declared but in no reaction.  Declared in the order H G F E D C B A.
    mk_a = lambda: mk([R({"A": 1}, {"B": 1}, 1.0), R({"C": 1}, {"D": 1}, 2.0), R({"B": 2}, {"E": 1}, 3.0), R({"F": 1}, {"G": 1}, 4.0), R({"D": 1}, {"C": 1}, 5.0, {"G": 1})], "HGFEDCBA")
    comp_a = [((1.0, 3.0), ("E", "B", "A")), ((2.0, 4.0, 5.0), ("G", "F", "D", "C"))]
    # b: 6: P -> Q and 8: Q -> R + P; 7: X -> Y on its own; Z in no reaction
    mk_b = lambda: mk([R({"P": 1}, {"Q": 1}, 6.0), R({"X": 1}, {"Y": 1}, 7.0), R({"Q": 1}, {"R": 1, "P": 1}, 8.0)], "PQRXYZ")
    comp_b = [((6.0, 8.0), ("P", "Q", "R")), ((7.0,), ("X", "Y"))]

    def parts(rsys, ordered=True):
        """the sub-systems as (constants of the reactions, substance keys), sorted; without `ordered` the keys as a sorted tuple"""
        try:
            return sorted((tuple(sorted(r.param for r in p.rxns)), tuple(p.substances) if ordered else tuple(sorted(p.substances))) for p in rsys.split())
        except Exception as ex:
            return repr(ex)
    unordered = lambda comps: sorted((ks, tuple(sorted(subst))) for ks, subst in comps)
    got = parts(mk_a())
    v.prove("components_of_a_written_system.a", got == sorted(comp_a), detail=repr(got))       # substances of a part in the parent's order
    got = parts(mk_b())
    v.prove("components_of_a_written_system.b", got == sorted(comp_b), detail=repr(got))
    # c: three pairs A-B, C-D, E-F that only the last two reactions tie together (E-C, then F-A): the chain B-A-F-E-C-D is ONE component, whatever
    #    order the links are discovered in
    got = parts(mk([R({"A": 1}, {"B": 1}, 1.0), R({"C": 1}, {"D": 1}, 2.0), R({"E": 1}, {"F": 1}, 3.0), R({"E": 1}, {"C": 1}, 4.0), R({"F": 1}, {"A": 1}, 5.0)], "ABCDEF"))
    v.prove("components_of_a_written_system.c_links_found_late", got == [((1.0, 2.0, 3.0, 4.0, 5.0), ("A", "B", "C", "D", "E", "F"))], detail=repr(got))
    # d: the same three pairs tied together the other way round (E-D, then B-D): again one component
    got = parts(mk([R({"A": 1}, {"B": 1}, 1.0), R({"C": 1}, {"D": 1}, 2.0), R({"E": 1}, {"F": 1}, 3.0), R({"E": 1}, {"D": 1}, 4.0), R({"B": 1}, {"D": 1}, 5.0)], "ABCDEF"))
    v.prove("components_of_a_written_system.d_links_found_late", got == [((1.0, 2.0, 3.0, 4.0, 5.0), ("A", "B", "C", "D", "E", "F"))], detail=repr(got))
    try:
        a = mk_a()
        ps = a.split()
        same_objects_or_equal = all(any(r is o or r == o for o in a.rxns) for p in ps for r in p.rxns)
        untouched = [r.param for r in a.rxns] == [1.0, 2.0, 3.0, 4.0, 5.0] and list(a.substances) == list("HGFEDCBA")
        ok, det = same_objects_or_equal and untouched and sum(len(p.rxns) for p in ps) == 5, ""
    except Exception as ex:
        ok, det = False, repr(ex)
    v.prove("split_hands_out_the_systems_own_reactions_and_leaves_it_alone", ok, detail=det)
    try:
        got = parts(mk_a() + mk_b(), ordered=False), parts(mk_b() + mk_a(), ordered=False)
    except Exception as ex:
        got = repr(ex)
    v.prove("components_of_a_sum_of_disjoint_systems_are_those_of_the_operands", got == (unordered(comp_a + comp_b),) * 2, detail=repr(got))
    bad = []
    for what, pred in (("constants 2 and 3", lambda r: r.param in (2.0, 3.0)), ("uses G", lambda r: "G" in r.keys()), ("all", lambda r: True), ("first order", lambda r: sum(r.reac.values()) == 1)):
        try:
            yes, no = mk_a().subset(pred)
            got = parts(yes + no, ordered=False), parts(no + yes, ordered=False)
        except Exception as ex:
            got = repr(ex)
        if got != (unordered(comp_a),) * 2:
            bad.append((what, got))
    v.prove("subset_then_add_then_split_gives_the_components_back", not bad, detail=repr(bad[:1]))
    # a half on its own: taking 5: D + (G) -> C away separates 2: C -> D from 4: F -> G
    try:
        yes, no = mk_a().subset(lambda r: r.param == 5.0)
        got = parts(yes, ordered=False), parts(no, ordered=False)
    except Exception as ex:
        got = repr(ex)
    v.prove("components_of_the_halves", got == ([((5.0,), ("C", "D", "G"))], [((1.0, 3.0), ("A", "B", "E")), ((2.0,), ("C", "D")), ((4.0,), ("F", "G"))]), detail=repr(got))


@harness("C15", "subset_decided_by_the_predicate_alone", functions=["chempy.reactionsystem:ReactionSystem.subset", "chempy.reactionsystem:ReactionSystem.__add__", "chempy.reactionsystem:ReactionSystem.concatenate"], kind="data")
def _(v):
    """'predicate subsets and sums of systems contain exactly the reactions their definitions say': subset(pred) hands every reaction of the system
    to exactly one of the two results -- the first gets those with pred(r) true, the second those with pred(r) false, each in the system's order
    -- and the predicate is the ONLY thing that decides, whatever the reactions look like.  In particular for a system that holds the same
    elementary step twice (same four parts and constant, told apart by name / ref / data only; + and += build such systems, they do not re-run
    the duplicate check) or the same stoichiometry with two constants: a predicate may separate the twins, and none of them may get lost or be
    counted twice.  The substances of each half are the species of its reactions (compared as sets).  Reactions are identified by their
    names."""
    from chempy.chemistry import Reaction, Substance
    from chempy.reactionsystem import ReactionSystem
    R = lambda reac, prod, k, name, ref=None, data=None, ir=None: Reaction(reac, prod, k, inact_reac=ir, name=name, ref=ref, data=data, checks=())
    # two models that share the step A -> B (k = 3): m1 = {a1: A -> B, b1: B -> C}, m2 = {a2: A -> B, c2: C -> D, a3: A -> B with k = 4}; E unused
    m1 = lambda: ReactionSystem([R({"A": 1}, {"B": 1}, 3.0, "a1", "model 1", {"T": 298}), R({"B": 1}, {"C": 1}, 5.0, "b1", "model 1")], [Substance(k) for k in "ABC"], checks=())
    m2 = lambda: ReactionSystem([R({"A": 1}, {"B": 1}, 3.0, "a2", "model 2", {"T": 310}), R({"C": 1}, {"D": 1}, 7.0, "c2", "model 2"), R({"A": 1}, {"B": 1}, 4.0, "a3", "model 2")],
                                [Substance(k) for k in "EABCD"], checks=())
    species = {"a1": "AB", "b1": "BC", "a2": "AB", "c2": "CD", "a3": "AB"}      # read off the reactions above

    def halves(rsys, pred):
        try:
            before = [r.name for r in rsys.rxns], list(rsys.substances)
            yes, no = rsys.subset(pred)
            if ([r.name for r in rsys.rxns], list(rsys.substances)) != before:
                return "the system itself was changed"
            return [([r.name for r in part.rxns], "".join(sorted(part.substances))) for part in (yes, no)]
        except Exception as ex:
            return repr(ex)

    def want(order, chosen):
        return [(names, "".join(sorted(set("".join(species[n] for n in names))))) for names in ([n for n in order if n in chosen], [n for n in order if n not in chosen])]
    try:
        total = m1() + m2()
        order, subst_order = [r.name for r in total.rxns], "".join(total.substances)
    except Exception as ex:
        total, order, subst_order = None, repr(ex), ""
    v.prove("sum_of_two_models_keeps_the_shared_step_twice", order == ["a1", "b1", "a2", "c2", "a3"] and sorted(subst_order) == list("ABCDE") and subst_order[:3] == "ABC", detail="%r %r" % (order, subst_order))
    if total is not None and isinstance(order, list):
        preds = [("name is a1 (the twin a2 stays behind)", lambda r: r.name == "a1", {"a1"}),
                 ("name is a2 (the twin a1 stays behind)", lambda r: r.name == "a2", {"a2"}),
                 ("from model 1", lambda r: r.ref == "model 1", {"a1", "b1"}),
                 ("from model 2", lambda r: r.ref == "model 2", {"a2", "c2", "a3"}),
                 ("measured at 310 K", lambda r: (r.data or {}).get("T") == 310, {"a2"}),
                 ("constant 3 (both twins, not the third A -> B)", lambda r: r.param == 3.0, {"a1", "a2"}),
                 ("constant 4 (same stoichiometry as the twins)", lambda r: r.param == 4.0, {"a3"}),
                 ("uses C", lambda r: "C" in r.keys(), {"b1", "c2"}),
                 ("every reaction", lambda r: True, set(order)),
                 ("no reaction", lambda r: False, set())]
        bad = []
        for what, pred, chosen in preds:
            got = halves(total, pred)
            if got != want(order, chosen):
                bad.append((what, got))
        v.prove("every_reaction_in_exactly_one_half_by_the_predicate", not bad, detail="predicate, (reactions, substances) of the two halves: %r" % bad[:2])
        # the halves put together again are the system's reactions (as a multiset: nothing lost, nothing doubled), in either order of the sum
        bad = []
        for what, pred, chosen in preds[:5]:
            try:
                yes, no = total.subset(pred)
                got = sorted(r.name for r in (yes + no).rxns), sorted(r.name for r in (no + yes).rxns)
            except Exception as ex:
                got = repr(ex)
            if got != (sorted(order),) * 2:
                bad.append((what, got))
        v.prove("halves_added_again_have_every_reaction_once", not bad, detail=repr(bad[:2]))
    # a system that lists the very same reaction object twice (rs += rs.rxns[:1]) and a copy of it under another name
    try:
        base = m1()
        first = base.rxns[0]
        thrice = ReactionSystem([first, base.rxns[1], first, R({"A": 1}, {"B": 1}, 3.0, "again")], [Substance(k) for k in "ABC"], checks=())
        got = halves(thrice, lambda r: r.name == "again"), halves(thrice, lambda r: r.name == "b1")
    except Exception as ex:
        got = repr(ex)
    v.prove("same_reaction_listed_twice_stays_twice", got == ([(["again"], "AB"), (["a1", "b1", "a1"], "ABC")], [(["b1"], "BC"), (["a1", "a1", "again"], "AB")]), detail=repr(got))
    # concatenate (which takes the sum apart with a predicate): the sum of the two models has each stoichiometry once, the first of each; the two
    # later A -> B (a2 with the same constant, a3 with another) are set aside -- nothing is in both results, nothing in neither
    try:
        tot, dup = ReactionSystem.concatenate([m1(), m2()])
        got = [r.name for r in tot.rxns], [r.name for r in dup.rxns]
    except Exception as ex:
        got = repr(ex)
    v.prove("concatenate_of_the_two_models", got == (["a1", "b1", "c2"], ["a2", "a3"]), detail=repr(got))


@harness("C15", "decompose_yields_well_posed", functions=["chempy.util.stoich:decompose_yields"], kind="data")
def _(v):
    """decompose_yields (anchor of C15; only well-posed input is under contract, see META): the returned k reproduces every yield,
    sum_j k_j * net_j[key] == y[key], for a square and for an over-determined consistent case (k worked out by hand), also when some of the requested yields are exactly zero
    (a species that must NOT be formed constrains k like any other); yields that no k reproduces (independent reactions, more keys than reactions,
    off by 0.5, or a zero yield the other yields contradict) and a yield key that is in no reaction are refused"""
    from chempy.chemistry import Reaction
    from chempy.util.stoich import decompose_yields
    # X -> 2 P + Q and X -> P + 3 Q with k = (0.5, 2): P = 1 + 2 = 3, Q = 0.5 + 6 = 6.5, X = -2.5 (not symmetric: the transposed matrix gives other numbers)
    r1, r2 = Reaction({"X": 1}, {"P": 2, "Q": 1}), Reaction({"X": 1}, {"P": 1, "Q": 3})
    # the docstring's system: H2O -> H2 + O and H2O + (H2O) -> H2 + H2O2 with k = (2, 1): H2 = 3, O = 2, H2O2 = 1, H2O = -2 - 2 = -4
    h2a, h2b = Reaction({"H2O": 1}, {"H2": 1, "O": 1}), Reaction({"H2O": 1}, {"H2": 1, "H2O2": 1}, inact_reac={"H2O": 1})
    net = {id(r1): {"X": -1, "P": 2, "Q": 1}, id(r2): {"X": -1, "P": 1, "Q": 3}, id(h2a): {"H2O": -1, "H2": 1, "O": 1}, id(h2b): {"H2O": -2, "H2": 1, "H2O2": 1}}      # written by hand, inactive included
    cases = [("square", OrderedDict([("P", 3.0), ("Q", 6.5)]), [r1, r2], [0.5, 2.0]),
             ("overdetermined", OrderedDict([("P", 3.0), ("Q", 6.5), ("X", -2.5)]), [r1, r2], [0.5, 2.0]),
             ("docstring", OrderedDict([("H2", 3), ("O", 2), ("H2O2", 1)]), [h2a, h2b], [2.0, 1.0]),
             ("docstring_with_the_water_consumed", OrderedDict([("H2O", -4), ("H2O2", 1), ("O", 2), ("H2", 3)]), [h2a, h2b], [2.0, 1.0])]
    for name, y, rxns, k_hand in cases:
        try:
            k = [float(x) for x in decompose_yields(y, rxns)]
            resid = max(abs(sum(kj * net[id(r)].get(key, 0) for kj, r in zip(k, rxns)) - val) for key, val in y.items())
            ok, det = len(k) == len(rxns) and resid <= 1e-6 and all(abs(a - b) <= 1e-6 for a, b in zip(k, k_hand)), "k = %r, largest residual %r" % (k, resid)
        except Exception as ex:
            ok, det = False, repr(ex)
        v.prove("reproduces_the_yields." + name, ok, detail=det)
    # a requested yield of exactly zero is a constraint like any other ('reproduces EVERY yield'): W -> A + B and W -> A + C with 2 A and no B
    # leaves k = (0, 2) (B = k1 = 0, A = k1 + k2 = 2); zero written as float or int, first or last key, alone with other zeros (k = 0), and
    # in the docstring's system: 1 H2, no O, 1 H2O2 is channel b alone, k = (0, 1), H2O = -2
    ch1, ch2 = Reaction({"W": 1}, {"A": 1, "B": 1}), Reaction({"W": 1}, {"A": 1, "C": 1})
    net.update({id(ch1): {"W": -1, "A": 1, "B": 1}, id(ch2): {"W": -1, "A": 1, "C": 1}})
    zero_cases = [("zero_float_last", OrderedDict([("A", 2.0), ("B", 0.0)]), [ch1, ch2], [0.0, 2.0]),
                  ("zero_int_first", OrderedDict([("B", 0), ("A", 2)]), [ch1, ch2], [0.0, 2.0]),
                  ("zero_for_the_other_channel", OrderedDict([("A", 1.5), ("C", 0.0)]), [ch1, ch2], [1.5, 0.0]),
                  ("zero_overdetermined", OrderedDict([("A", 2.0), ("B", 0.0), ("C", 2.0), ("W", -2.0)]), [ch1, ch2], [0.0, 2.0]),
                  ("all_zero", OrderedDict([("A", 0.0), ("B", 0.0)]), [ch1, ch2], [0.0, 0.0]),
                  ("docstring_system_without_atomic_oxygen", OrderedDict([("O", 0), ("H2", 1), ("H2O2", 1), ("H2O", -2)]), [h2a, h2b], [0.0, 1.0])]
    for name, y, rxns, k_hand in zero_cases:
        try:
            k = [float(x) for x in decompose_yields(y, rxns)]
            resid = max(abs(sum(kj * net[id(r)].get(key, 0) for kj, r in zip(k, rxns)) - val) for key, val in y.items())
            ok, det = len(k) == len(rxns) and resid <= 1e-6 and all(abs(a - b) <= 1e-6 for a, b in zip(k, k_hand)), "k = %r, largest residual %r" % (k, resid)
        except Exception as ex:
            ok, det = False, repr(ex)
        v.prove("reproduces_the_yields_a_zero_yield_included." + name, ok, detail=det)
    took = []
    for name, y, rxns in (("3 H2 with no O and 1 H2O2 (k1 + k2 = 3, k1 = 0, k2 = 1)", OrderedDict([("H2", 3.0), ("O", 0.0), ("H2O2", 1.0)]), [h2a, h2b]),
                          ("2 A with no B and 1 C (k1 + k2 = 2, k1 = 0, k2 = 1)", OrderedDict([("A", 2.0), ("B", 0.0), ("C", 1.0)]), [ch1, ch2]),
                          ("X off by 0.5", OrderedDict([("P", 3.0), ("Q", 6.5), ("X", -2.0)]), [r1, r2]),
                          ("H2O2 off by 0.5", OrderedDict([("H2", 3), ("O", 2), ("H2O2", 1.5)]), [h2a, h2b]),
                          ("a key in no reaction", OrderedDict([("H2", 3), ("OH", 1)]), [h2a, h2b])):
        try:
            took.append((name, [float(x) for x in decompose_yields(y, rxns)]))
        except Exception:
            pass
    v.prove("yields_that_cannot_be_reproduced_are_refused", not took, detail=repr(took))
