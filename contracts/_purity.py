"""Shared helper for data obligations about side effects: a function evaluated on mutable inputs (numpy arrays, quantities, dicts, lists) must
leave them as they were, and evaluating it a second time on the same objects must give the same result (no state kept, no aliasing of inputs
into results)."""
import copy
import types


def _copy(x):
    """deep copy of data, leaving modules / functions / classes (backends, callbacks) shared"""
    if isinstance(x, (types.ModuleType, types.FunctionType, types.BuiltinFunctionType, type)):
        return x
    if isinstance(x, dict):
        return type(x)((k, _copy(val)) for k, val in x.items()) if type(x) in (dict,) else copy.deepcopy(x)
    if isinstance(x, list):
        return [_copy(e) for e in x]
    if isinstance(x, tuple):
        return tuple(_copy(e) for e in x)
    return copy.deepcopy(x)


def deep_equal(a, b):
    import numpy as np
    if type(a).__name__ in ("Quantity", "UncertainQuantity") or type(b).__name__ in ("Quantity", "UncertainQuantity"):
        try:
            return str(getattr(a, "dimensionality", "")) == str(getattr(b, "dimensionality", "")) and bool(np.all(np.asarray(getattr(a, "magnitude", a)) == np.asarray(getattr(b, "magnitude", b))))
        except Exception:
            return False
    if isinstance(a, np.ndarray) or isinstance(b, np.ndarray):
        try:
            a_, b_ = np.asarray(a), np.asarray(b)
            return a_.shape == b_.shape and bool(np.all(a_ == b_))
        except Exception:
            return False
    if isinstance(a, dict) and isinstance(b, dict):
        return list(a.keys()) == list(b.keys()) and all(deep_equal(a[k], b[k]) for k in a)
    if isinstance(a, (list, tuple)) and isinstance(b, (list, tuple)):
        return len(a) == len(b) and all(deep_equal(x, y) for x, y in zip(a, b))
    try:
        return bool(a == b)
    except Exception:
        return a is b


def prove_pure(v, name, f, make_args, materialise=None):
    """make_args() -> (args, kwargs) built afresh; f is called twice on the SAME objects"""
    args, kw = make_args()
    ref = _copy((args, kw))
    mat = materialise or (lambda r: r)
    r1 = _copy(mat(f(*args, **kw)))
    untouched = deep_equal((args, kw), ref)
    r2 = mat(f(*args, **kw))
    v.prove(name + ".inputs_not_modified", untouched, detail="inputs after the call: %r" % ((args, kw),))
    v.prove(name + ".second_evaluation_gives_the_same_result", deep_equal(r1, r2), detail="first %r second %r" % (r1, r2))
    fresh_args, fresh_kw = make_args()
    r3 = mat(f(*fresh_args, **fresh_kw))
    v.prove(name + ".same_result_on_fresh_inputs", deep_equal(r1, r3), detail="first %r fresh %r" % (r1, r3))
    return r1
