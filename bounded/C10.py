# -*- coding: utf-8 -*-
"""Bounded stand-ins for C10 (kinetic results do not depend on the units that rate constants,
concentrations, time or the base-unit registry use; unit checks of Reaction / Equilibrium).

ORACLE: bounded/_unitsoracle.py (hand-written SI scale / dimension table).  A random reaction
system is generated as plain SI numbers (mol/m3, s, m3/mol/s ...); the "hand computation" is
sum_r nu_ri * k_r * prod_j c_j**reac_rj on those numbers (and scipy's LSODA on that right-hand
side for the integrated check).  The same system is then *presented* to chempy with every
constant / concentration / time expressed in randomly chosen compatible units and evaluated in
three base-unit registries; what comes back is converted to SI with the table only.

Tolerances: rates 1e-9 relative to the sum of absolute contributions of each species (a few
dozen float operations give ~1e-14); integrated concentrations 1e-6 relative to the largest
concentration (integrator tolerances rtol 1e-10).
"""
import json
import math
import random
import warnings

import numpy as np

from . import _unitsoracle as O

CONC_UNITS = {  # name -> spec ; the property's list is M, mM, uM, mol/m3, mol/cm3 (the last two are extras)
    "M": [("molar", 1)], "mM": [("millimolar", 1)], "uM": [("micromolar", 1)],
    "mol/m3": [("mol", 1), ("metre", -3)], "mol/cm3": [("mol", 1), ("cm", -3)],
    "mmol/L": [("mmol", 1), ("litre", -1)], "umol/dm3": [("umol", 1), ("dm", -3)],
}
TIME_UNITS = ["s", "minute", "hour", "ms"]
CONC_DIMS = (-3, 0, 0, 0, 0, 0, 1)


def _exc(e):
    return "%s: %s" % (type(e).__name__, str(e)[:200])


def _pow_spec(spec, e):
    return [(a, x * e) for a, x in spec if x * e]


def _k_spec(conc_name, time_attr, order):
    return _pow_spec(CONC_UNITS[conc_name], 1 - order) + [(time_attr, -1)]


def _qty(mag, spec):
    """mag * unit(spec) as a quantities object (always a Quantity, also for an empty spec)"""
    import quantities as pq
    spec = [(a, e) for a, e in spec if e]
    return mag * (O.build(spec) if spec else pq.dimensionless)


# =========================================================================================
# 1. Reaction / Equilibrium unit checks (exhaustive grid)
# =========================================================================================

REACS = [  # (reac, prod, inact_reac)  orders 0..3, species on both sides, inactive reactants
    ({}, {"A": 1}, None),
    ({"A": 1}, {"B": 1}, None),
    ({"A": 1}, {"A": 1, "B": 1}, {"S": 2}),       # inactive reactants do not count towards the order
    ({"A": 2}, {"B": 1}, None),
    ({"A": 1, "B": 1}, {"C": 2}, None),
    ({"A": 1, "B": 1}, {"A": 1, "C": 1}, None),   # A on both sides
    ({"A": 3}, {"B": 1}, None),
    ({"A": 2, "B": 1}, {"C": 1, "D": 1}, {"S": 1}),
    ({"A": 1, "B": 1, "C": 1}, {"D": 1}, None),
]
WRONG = [("s", 1), ("s", -1), ("molar", 1), ("molar", -1), ("kg", 1), ("K", 1), ("metre", 1), ("metre", -3), ("mol", 1), ("A", 1)]


def enum_accept():
    cases = []
    for ri in range(len(REACS)):
        for cn in sorted(CONC_UNITS):
            for ta in TIME_UNITS:
                cases.append({"ri": ri, "conc": cn, "time": ta})
    return cases


def _mk_param(kind, mag, spec):
    from chempy.units import UncertainQuantity
    q = _qty(mag, spec)
    if kind == "uncertain":
        return UncertainQuantity(mag, q.units, 0.1 * abs(mag))
    return q


def check_accept(c):
    from chempy import Reaction
    reac, prod, inact = REACS[c["ri"]]
    order = sum(reac.values())
    spec = _k_spec(c["conc"], c["time"], order)
    errs = []
    tag = "Reaction(%r, %r, inact_reac=%r)" % (reac, prod, inact)
    for kind in ("quantity", "uncertain"):
        # compatible: must be accepted
        try:
            r = Reaction(dict(reac), dict(prod), _mk_param(kind, 2.5, spec), inact_reac=inact)
            if r.check_consistent_units() is not True or r.check_consistent_units(throw=True) is not True:
                errs.append("%s with %s constant 2.5*%s: check_consistent_units() is not True" % (tag, kind, O.spec_str(spec)))
        except Exception as e:
            errs.append("%s rejected a %s constant of dimension conc**%d/time (2.5*%s): %s" % (tag, kind, 1 - order, O.spec_str(spec), _exc(e)))
        # one wrong dimension: must be rejected
        for wa, we in WRONG:
            bad = spec + [(wa, we)]
            if O.spec_scale_dims(bad)[1] == O.spec_scale_dims(spec)[1]:
                continue
            try:
                Reaction(dict(reac), dict(prod), _mk_param(kind, 2.5, bad), inact_reac=inact)
                errs.append("%s accepted a %s constant of wrong dimension: 2.5*%s" % (tag, kind, O.spec_str(bad)))
            except Exception:
                pass
            try:
                r = Reaction(dict(reac), dict(prod), _mk_param(kind, 2.5, bad), inact_reac=inact, dont_check={"consistent_units"})
                if r.check_consistent_units() is not False:
                    errs.append("%s: check_consistent_units() of a %s constant 2.5*%s is %r, expected False"
                                % (tag, kind, O.spec_str(bad), r.check_consistent_units()))
            except Exception as e:
                errs.append("%s with dont_check={'consistent_units'} raised %s" % (tag, _exc(e)))
    # a plain number is always accepted (user not using units)
    try:
        Reaction(dict(reac), dict(prod), 2.5, inact_reac=inact)
    except Exception as e:
        errs.append("%s rejected a plain number: %s" % (tag, _exc(e)))
    return errs


EQS = [  # (reac, prod): delta = sum(prod) - sum(reac) in -2..2
    ({"A": 1}, {"B": 1}), ({"A": 1}, {"B": 1, "C": 1}), ({"A": 1, "B": 1}, {"C": 1}), ({"A": 2, "B": 1}, {"C": 1}),
    ({"A": 1}, {"B": 2, "C": 1}), ({"A": 2}, {"A": 1, "B": 1}), ({"A": 1, "B": 2}, {"C": 2, "D": 1}),
]


def enum_eq():
    cases = []
    for ei in range(len(EQS)):
        for cn in sorted(CONC_UNITS):
            for wrong_delta in (-3, -2, -1, 0, 1, 2, 3):
                cases.append({"ei": ei, "conc": cn, "exp": wrong_delta})
    return cases


def check_eq(c):
    """an equilibrium never accepts a constant whose dimension differs from conc**(prod-reac)"""
    from chempy import Equilibrium
    reac, prod = EQS[c["ei"]]
    delta = sum(prod.values()) - sum(reac.values())
    errs = []
    specs = []
    if c["exp"] != delta:
        specs.append(_pow_spec(CONC_UNITS[c["conc"]], c["exp"]))
    for wa, we in WRONG:
        specs.append(_pow_spec(CONC_UNITS[c["conc"]], delta) + [(wa, we)])
    want = tuple(x * delta for x in CONC_DIMS)
    for spec in specs:
        if O.spec_scale_dims(spec)[1] == want:
            continue
        for kind in ("quantity", "uncertain"):
            try:
                Equilibrium(dict(reac), dict(prod), _mk_param(kind, 3.0, spec))
                errs.append("Equilibrium(%r, %r) accepted a %s constant 3*%s (needs conc**%d)" % (reac, prod, kind, O.spec_str(spec), delta))
            except Exception:
                pass
            try:
                e = Equilibrium(dict(reac), dict(prod), _mk_param(kind, 3.0, spec), dont_check={"consistent_units"})
                if e.check_consistent_units() is not False:
                    errs.append("Equilibrium(%r, %r).check_consistent_units() with %s constant 3*%s is %r, expected False"
                                % (reac, prod, kind, O.spec_str(spec), e.check_consistent_units()))
            except Exception as ex:
                errs.append("Equilibrium(..., dont_check) raised %s" % _exc(ex))
    return errs


# =========================================================================================
# 2. registry / unit independence of the ODE right-hand side and of integration
# =========================================================================================

G_UNITS = {"mol/J": [("mol", 1), ("joule", -1)], "umol/J": [("umol", 1), ("joule", -1)], "per100eV": [("per100eV", 1)]}
DOSE_UNITS = {"Gy/s": [("gray", 1), ("s", -1)], "kGy/h": [("kilogray", 1), ("hour", -1)], "J/g/min": [("joule", 1), ("g", -1), ("minute", -1)]}
DENS_UNITS = {"kg/m3": [("kg", 1), ("metre", -3)], "g/cm3": [("g", 1), ("cm", -3)], "kg/dm3": [("kg", 1), ("dm", -3)], "mg/litre": [("mg", 1), ("litre", -1)]}
TEMP_UNITS = ["K", "K", "kK", "mK"]  # for Ea/R; the temperature itself is always given in kelvin


def _rand_rxn(rng, subs, kind):
    order = rng.choice([0, 1, 1, 2, 2, 3]) if kind != "rad" else 1
    reac = {}
    for _ in range(order):
        s = rng.choice(subs)
        reac[s] = reac.get(s, 0) + 1
    for _ in range(50):
        prod = {}
        for _p in range(rng.choice([1, 1, 2])):
            s = rng.choice(subs)
            prod[s] = prod.get(s, 0) + rng.choice([1, 1, 2])
        if any(prod.get(s, 0) != reac.get(s, 0) for s in subs):
            return reac, prod
    return reac, {subs[0]: reac.get(subs[0], 0) + 1}


def gen_indep(rng, force_mode=None):
    ns = rng.randint(2, 4)
    subs = list("ABCD")[:ns]
    mode = force_mode or rng.choice(["quantity", "quantity", "named", "named", "mixed", "mixed_named"])
    nr = rng.randint(1, 4)
    t_si = round(rng.uniform(1, 50), 3)
    c_si = {s: round(rng.uniform(0.2, 8), 4) for s in subs}
    if rng.random() < 0.2:
        c_si[rng.choice(subs)] = 0.0
    rxns = []
    for i in range(nr):
        kind = "ma"
        if mode in ("mixed", "mixed_named"):
            kind = rng.choice(["ma", "arr", "rad"])
        reac, prod = _rand_rxn(rng, subs, kind)
        order = sum(reac.values())
        r = {"reac": reac, "prod": prod, "kind": kind}
        # physical size: characteristic rate ~ (0.05..1) * c / t
        r["k_si"] = float("%.6g" % (rng.uniform(0.05, 1.0) / t_si * 2.0 ** (1 - order)))
        if kind == "arr":
            r["Ea_K"] = round(rng.uniform(200, 3000), 1)
            r["k_si"] = float("%.6g" % (r["k_si"] * math.exp(r["Ea_K"] / 300.0)))
        if kind == "rad":
            r["G_si"] = float("%.6g" % rng.uniform(1e-8, 5e-7))
        rxns.append(r)
    if not any(r["kind"] != "rad" and r["reac"] for r in rxns):
        # a right-hand side without any concentration in it is rejected by pyodesys' SymbolicSys with or
        # without units (AttributeError: 'float' object has no attribute 'free_symbols'): not a unit matter,
        # so at least one reaction of order >= 1 is always present
        reac, prod = {subs[0]: 1}, {subs[1]: 1}
        rxns.append({"reac": reac, "prod": prod, "kind": "ma", "k_si": float("%.6g" % (rng.uniform(0.05, 1.0) / t_si))})
    case = {"subs": subs, "mode": mode, "rxns": rxns, "c_si": c_si, "t_si": t_si,
            "T_K": round(rng.uniform(280, 400), 2),
            "doserate_si": round(rng.uniform(0.5, 50), 3), "density_si": round(rng.uniform(700, 1500), 1)}
    pres = []
    for _ in range(2):
        pres.append({
            "k": [[rng.choice(sorted(CONC_UNITS)), rng.choice(TIME_UNITS)] for _r in rxns],
            "Ea": [rng.choice(TEMP_UNITS) for _r in rxns],
            "G": [rng.choice(sorted(G_UNITS)) for _r in rxns],
            "c": {s: rng.choice(sorted(CONC_UNITS)) for s in subs},
            "t": rng.choice(TIME_UNITS),
            "doserate": rng.choice(sorted(DOSE_UNITS)), "density": rng.choice(sorted(DENS_UNITS)),
        })
    case["pres"] = pres
    case["regs"] = [O.registry_spec("SI"), O.registry_spec("cgs"), O.registry_spec("random", rng)]
    # keep the time unit of the random registry moderate for the integrator
    case["out"] = [{"conc": rng.choice([None] + sorted(CONC_UNITS)), "time": rng.choice([None] + TIME_UNITS)} for _ in range(3)]
    # integrate only systems whose SI reference solution exists and stays moderate (autocatalytic
    # systems such as 2A + B -> 4A blow up in finite time; their right-hand side is still checked)
    case["integrate"] = _reference_solution(case) is not None
    return case


def gen_alt(rng):
    return gen_indep(rng, force_mode="named")


def _hand(case):
    """SI right-hand side: (function c->dcdt, per-species sum of |contributions| at c0)"""
    subs = case["subs"]
    idx = {s: i for i, s in enumerate(subs)}
    T = case["T_K"]
    terms = []
    for r in case["rxns"]:
        if r["kind"] == "rad":
            keff, expo = r["G_si"] * case["doserate_si"] * case["density_si"], {}
        elif r["kind"] == "arr":
            keff, expo = r["k_si"] * math.exp(-r["Ea_K"] / T), r["reac"]
        else:
            keff, expo = r["k_si"], r["reac"]
        net = [r["prod"].get(s, 0) - r["reac"].get(s, 0) for s in subs]
        terms.append((keff, [(idx[s], n) for s, n in expo.items()], net))

    def rhs(c):
        out = [0.0] * len(subs)
        mag = [0.0] * len(subs)
        for keff, expo, net in terms:
            rate = keff
            for i, n in expo:
                rate *= c[i] ** n
            for i, n in enumerate(net):
                out[i] += n * rate
                mag[i] += abs(n * rate)
        return out, mag

    return rhs


class _TooManySteps(Exception):
    pass


def _reference_solution(case):
    """end point of the SI reference trajectory, or None when the system is not integrable with moderate
    effort (finite-time blow-up of autocatalytic systems, > 50000 right-hand-side evaluations, values beyond
    20 x the largest initial concentration or negative)"""
    from scipy.integrate import solve_ivp
    rhs = _hand(case)
    c0 = [case["c_si"][s] for s in case["subs"]]
    cap = 20 * max(c0)
    count = [0]

    def fun(t, y):
        count[0] += 1
        if count[0] > 50000:
            raise _TooManySteps()
        return rhs(y)[0]

    def too_big(t, y):
        return cap - float(np.max(np.abs(y)))
    too_big.terminal = True

    with warnings.catch_warnings():
        warnings.simplefilter("ignore")
        try:
            sol = solve_ivp(fun, (0.0, case["t_si"]), c0, method="LSODA", rtol=1e-11, atol=1e-13, t_eval=[case["t_si"]], events=too_big)
        except _TooManySteps:
            return None
    if not sol.success or sol.status != 0 or sol.y.shape[1] != 1 or not np.all(np.isfinite(sol.y)):
        return None
    if np.max(np.abs(sol.y)) > cap or np.min(sol.y) < -1e-9:
        return None
    return sol.y[:, -1]


def _build_system(case, pres):
    from chempy import Reaction, ReactionSystem, Substance
    from chempy.kinetics.rates import MassAction, Arrhenius, Radiolytic
    named = case["mode"] in ("named", "mixed_named")   # every constant is a free, named parameter
    rxns, params = [], {}
    for i, r in enumerate(case["rxns"]):
        order = sum(r["reac"].values())
        cn, ta = pres["k"][i]
        kspec = _k_spec(cn, ta, order)
        kscale = O.spec_scale_dims(kspec)[0]
        if r["kind"] == "ma":
            kq = _qty(r["k_si"] / kscale, kspec)
            if named:
                param = "k%d" % i
                params[param] = kq
            else:
                param = kq
        elif r["kind"] == "arr":
            ea_u = pres["Ea"][i]
            aq, eq = _qty(r["k_si"] / kscale, kspec), (r["Ea_K"] / O.TABLE[ea_u][0]) * O.getu(ea_u)
            if named:
                param = MassAction(Arrhenius(unique_keys=("A%d" % i, "Ea%d" % i)))
                params["A%d" % i], params["Ea%d" % i] = aq, eq
            else:
                param = MassAction(Arrhenius([aq, eq]))
        else:
            gspec = G_UNITS[pres["G"][i]]
            gq = _qty(r["G_si"] / O.spec_scale_dims(gspec)[0], gspec)
            if named:
                param = Radiolytic(unique_keys=("G%d" % i,))
                params["G%d" % i] = gq
            else:
                param = Radiolytic([gq])
        rxns.append(Reaction(dict(r["reac"]), dict(r["prod"]), param))
    kinds = set(r["kind"] for r in case["rxns"])
    if "arr" in kinds:
        params["temperature"] = case["T_K"] * O.getu("K")
    if "rad" in kinds:
        ds, ns = DOSE_UNITS[pres["doserate"]], DENS_UNITS[pres["density"]]
        params["doserate"] = _qty(case["doserate_si"] / O.spec_scale_dims(ds)[0], ds)
        params["density"] = _qty(case["density_si"] / O.spec_scale_dims(ns)[0], ns)
    rsys = ReactionSystem(rxns, [Substance(s) for s in case["subs"]])
    c0 = {}
    for s in case["subs"]:
        cs = CONC_UNITS[pres["c"][s]]
        c0[s] = _qty(case["c_si"][s] / O.spec_scale_dims(cs)[0], cs)
    t = (case["t_si"] / O.TABLE[pres["t"]][0]) * O.getu(pres["t"])
    return rsys, c0, t, params


def _param_expect(case, name):
    """(SI value, dims) of a named parameter"""
    if name == "temperature":
        return case["T_K"], (0, 0, 0, 0, 1, 0, 0)
    if name == "doserate":
        return case["doserate_si"], (2, 0, -3, 0, 0, 0, 0)
    if name == "density":
        return case["density_si"], (-3, 1, 0, 0, 0, 0, 0)
    if name.startswith("Ea"):
        return case["rxns"][int(name[2:])]["Ea_K"], (0, 0, 0, 0, 1, 0, 0)
    if name.startswith("G"):
        return case["rxns"][int(name[1:])]["G_si"], (-2, -1, 2, 0, 0, 0, 1)
    if name[0] in "kA":
        r = case["rxns"][int(name[1:])]
        order = sum(r["reac"].values())
        return r["k_si"], (3 * (order - 1), 0, -1, 0, 0, 0, 1 - order)
    raise KeyError(name)


def check_indep(case):
    from chempy.kinetics import ode as _ode
    from chempy.kinetics.ode import get_odesys
    subs = case["subs"]
    rhs = _hand(case)
    c0_si = [case["c_si"][s] for s in subs]
    f_si, f_mag = rhs(c0_si)
    ref_end = _reference_solution(case) if case.get("integrate") else None
    if case.get("integrate") and ref_end is None:
        raise RuntimeError("stand-in bug: reference solution unavailable for a case marked integrable")
    cmax = max(max(c0_si), float(np.max(np.abs(ref_end))) if ref_end is not None else 0.0)
    errs = []
    phys_f = []
    tols = []
    for j, rspec in enumerate(case["regs"]):
        pres = case["pres"][j % 2]
        # per100eV depends on the CODATA revision of eV and N_A (8th digit): compare to 2e-6 there
        loose = any(r["kind"] == "rad" and pres["G"][i] == "per100eV" for i, r in enumerate(case["rxns"]))
        rtol_f, tol_int = (2e-6, 1e-5) if loose else (1e-9, 1e-6)
        tols.append(rtol_f)
        tag = "registry %d %s presentation %d" % (j, json.dumps(rspec, sort_keys=True), j % 2)
        reg = O.build_registry(rspec)
        conc_sc = O.registry_scale(rspec, CONC_DIMS)
        time_sc = O.TABLE[rspec["time"]][0]
        try:
            rsys, c0, t, params = _build_system(case, pres)
            kw = {}
            out = case["out"][j]
            if out["conc"]:
                kw["output_conc_unit"] = O.build(CONC_UNITS[out["conc"]])
            if out["time"]:
                kw["output_time_unit"] = O.getu(out["time"])
            with warnings.catch_warnings():
                warnings.simplefilter("ignore")
                odesys, extra = get_odesys(rsys, unit_registry=reg, include_params=(case["mode"] not in ("named", "mixed_named")), **kw)
                x, y, p = odesys.to_arrays(t, c0, params)
                f = np.asarray(odesys.f_cb(x, y, p), dtype=float)
        except O.Unknown:
            raise
        except Exception as e:
            errs.append("%s: get_odesys/to_arrays/f_cb raised %s" % (tag, _exc(e)))
            phys_f.append(None)
            continue
        # dedimensionalised inputs
        x = np.atleast_1d(np.asarray(x, dtype=float))
        if not O.close(x[-1], case["t_si"] / time_sc, 1e-9):
            errs.append("%s: to_arrays time = %r, expected %r" % (tag, x[-1], case["t_si"] / time_sc))
        yy = np.asarray(y, dtype=float).reshape(-1, len(subs))[0]
        if not O.close(yy, np.array(c0_si) / conc_sc, 1e-9):
            errs.append("%s: to_arrays concentrations = %r, expected %r" % (tag, yy, np.array(c0_si) / conc_sc))
        # parameter units reported alongside
        names = list(odesys.param_names)
        p_units = extra["p_units"]
        pp = np.asarray(p, dtype=float).reshape(-1, len(names))[0] if len(names) else []
        if len(p_units) != len(names):
            errs.append("%s: %d p_units for %d parameters" % (tag, len(p_units), len(names)))
        else:
            for nm, pu, pv in zip(names, p_units, pp):
                val, dims = _param_expect(case, nm)
                sc = O.registry_scale(rspec, dims)
                pph = O.phys(pu)
                if pph[1] != dims or not O.close(pph[0], sc, 1e-9):
                    errs.append("%s: p_units[%s] has SI scale %r dims %r, expected %r %r" % (tag, nm, pph[0], pph[1], sc, dims))
                if not O.close(pv, val / sc, rtol_f):
                    errs.append("%s: dedimensionalised parameter %s = %r, expected %r" % (tag, nm, pv, val / sc))
        # physical rates
        frow = f.reshape(-1, len(subs))[0] * (conc_sc / time_sc)
        phys_f.append(frow)
        for i, s in enumerate(subs):
            if abs(frow[i] - f_si[i]) > rtol_f * f_mag[i] + 1e-300:
                errs.append("%s: d[%s]/dt = %r mol/m3/s, hand computation %r (sum of |terms| %r)" % (tag, s, frow[i], f_si[i], f_mag[i]))
        # integration with quantities in and out
        if case.get("integrate"):
            try:
                tq = np.array([0.0, 0.5, 1.0]) * t
                with warnings.catch_warnings():
                    warnings.simplefilter("ignore")
                    res = odesys.integrate(tq, c0, params, integrator="scipy", rtol=1e-10,
                                           atol=1e-12 * max(c0_si) / conc_sc, nsteps=20000)
                xo, yo = res.xout, res.yout
                px, py = O.phys(xo), O.phys(yo)
                if px[1] != (0, 0, 1, 0, 0, 0, 0) or not O.close(px[0][-1], case["t_si"], 1e-9) or abs(px[0][0]) > 1e-12:
                    errs.append("%s: integrate returned times %r s (dims %r), expected end %r" % (tag, px[0], px[1], case["t_si"]))
                if py[1] != CONC_DIMS:
                    errs.append("%s: integrate returned concentrations of dims %r" % (tag, py[1]))
                else:
                    if not O.close(py[0][0], c0_si, 1e-9, atol=1e-12 * cmax):
                        errs.append("%s: integrate: first output row %r mol/m3, initial concentrations %r" % (tag, py[0][0], c0_si))
                    if not O.close(py[0][-1], ref_end, 0.0, atol=tol_int * cmax):
                        errs.append("%s: integrate: final concentrations %r mol/m3, reference solution %r" % (tag, py[0][-1], list(ref_end)))
                # output rescaling: expressed in the requested (else the registry's) unit
                want_c = O.spec_scale_dims(CONC_UNITS[out["conc"]])[0] if out["conc"] else conc_sc
                want_t = O.TABLE[out["time"]][0] if out["time"] else time_sc
                if not O.close(O.phys(yo.units)[0], want_c, 1e-9):
                    errs.append("%s: output concentrations expressed in a unit of SI scale %r, expected %r (output_conc_unit=%r)"
                                % (tag, O.phys(yo.units)[0], want_c, out["conc"]))
                if not O.close(O.phys(xo.units)[0], want_t, 1e-9):
                    errs.append("%s: output times expressed in a unit of SI scale %r, expected %r (output_time_unit=%r)"
                                % (tag, O.phys(xo.units)[0], want_t, out["time"]))
            except O.Unknown:
                raise
            except Exception as e:
                errs.append("%s: integrate with quantities raised %s" % (tag, _exc(e)))
    # pairwise agreement (metamorphic relation proper)
    for a in range(len(phys_f)):
        for b in range(a + 1, len(phys_f)):
            if phys_f[a] is None or phys_f[b] is None:
                continue
            for i, s in enumerate(subs):
                if abs(phys_f[a][i] - phys_f[b][i]) > 2 * max(tols[a], tols[b]) * f_mag[i] + 1e-300:
                    errs.append("registries %d and %d disagree on d[%s]/dt: %r vs %r mol/m3/s" % (a, b, s, phys_f[a][i], phys_f[b][i]))
    return errs


def alt_tags(case):
    """region tag: some species' rate is `k + other terms` with k the bare constant of a zero-order
    reaction of stoichiometric coefficient one (the shape for which the builder's validate() adds the
    other terms *into the caller's own quantity*)"""
    subs = case["subs"]
    hit = False
    for s in subs:
        nets = [r["prod"].get(s, 0) - r["reac"].get(s, 0) for r in case["rxns"]]
        bare = [i for i, r in enumerate(case["rxns"]) if not r["reac"] and nets[i] == 1]
        if bare and sum(1 for n in nets if n) >= 2:
            hit = True
    return {"bare_zero_order_term_in_sum": hit}


def check_alt(case):
    """the alternative builder: create_odesys(rsys, unit_registry=reg) -> validate / unit_aware_solve"""
    from chempy.kinetics import ode as _ode
    create = getattr(_ode, "create_odesys", None) or getattr(_ode, "_create_odesys")
    subs = case["subs"]
    rhs = _hand(case)
    c0_si = [case["c_si"][s] for s in subs]
    f_si, f_mag = rhs(c0_si)
    ref_end = _reference_solution(case) if case.get("integrate") else None
    if case.get("integrate") and ref_end is None:
        raise RuntimeError("stand-in bug: reference solution unavailable for a case marked integrable")
    cmax = max(max(c0_si), float(np.max(np.abs(ref_end))) if ref_end is not None else 0.0)
    errs = []
    for j, rspec in enumerate(case["regs"]):
        pres = case["pres"][j % 2]
        tag = "registry %d %s presentation %d" % (j, json.dumps(rspec, sort_keys=True), j % 2)
        reg = O.build_registry(rspec)
        conc_sc = O.registry_scale(rspec, CONC_DIMS)
        time_sc = O.TABLE[rspec["time"]][0]
        try:
            # (a) validate: rates with units == hand computation; inputs left untouched
            rsys, c0, t, params = _build_system(case, pres)
            before = {k: O.phys(v)[0] for k, v in list(params.items()) + list(c0.items())}
            with warnings.catch_warnings():
                warnings.simplefilter("ignore")
                odesys, extra = create(rsys, unit_registry=reg)
                val = extra["validate"](dict(c0, **params))
            for i, s in enumerate(subs):
                ph = O.phys(val["rates"][s])
                if ph[1] != (-3, 0, -1, 0, 0, 0, 1):
                    errs.append("%s: create_odesys validate: rate of %s has dims %r" % (tag, s, ph[1]))
                elif abs(ph[0] - f_si[i]) > 1e-9 * f_mag[i] + 1e-300:
                    errs.append("%s: create_odesys validate: rate of %s = %r mol/m3/s, hand computation %r" % (tag, s, ph[0], f_si[i]))
            for k, v in list(params.items()) + list(c0.items()):
                if not O.close(O.phys(v)[0], before[k], 1e-12):
                    errs.append("%s: create_odesys validate changed the caller's quantity %s from %r to %r (SI)" % (tag, k, before[k], O.phys(v)[0]))
            # (b) a rate constant of one wrong dimension must be refused by validate
            rsys, c0, t, params = _build_system(case, pres)
            knames = sorted(k for k in params if k.startswith("k"))
            for kn in knames[:2]:
                bad = dict(params)
                bad[kn] = params[kn] * O.getu("s")
                try:
                    with warnings.catch_warnings():
                        warnings.simplefilter("ignore")
                        extra["validate"](dict(c0, **bad))
                    errs.append("%s: create_odesys validate accepted %s = %r (wrong dimension)" % (tag, kn, bad[kn]))
                except Exception:
                    pass
            # (c) unit_aware_solve with quantities in and out
            if case.get("integrate"):
                rsys, c0, t, params = _build_system(case, pres)
                with warnings.catch_warnings():
                    warnings.simplefilter("ignore")
                    res, dd = extra["unit_aware_solve"](np.array([0.0, 0.5, 1.0]) * t, dict(c0), dict(params), integrator="scipy",
                                                        rtol=1e-10, atol=1e-12 * max(c0_si) / conc_sc, nsteps=20000)
                px, py = O.phys(res.xout), O.phys(res.yout)
                if px[1] != (0, 0, 1, 0, 0, 0, 0) or not O.close(px[0][-1], case["t_si"], 1e-9):
                    errs.append("%s: unit_aware_solve times %r s" % (tag, px[0]))
                order = [list(odesys.names).index(s) for s in subs]
                if py[1] != CONC_DIMS or not O.close(py[0][0][order], c0_si, 1e-9, atol=1e-12 * cmax):
                    errs.append("%s: unit_aware_solve first row %r mol/m3 (dims %r), initial %r" % (tag, py[0][0], py[1], c0_si))
                elif not O.close(py[0][-1][order], ref_end, 0.0, atol=1e-6 * cmax):
                    errs.append("%s: unit_aware_solve final concentrations %r mol/m3, reference solution %r" % (tag, list(py[0][-1][order]), list(ref_end)))
                for nm, pu in dd["param_units"].items():
                    v, dims = _param_expect(case, nm)
                    ph = O.phys(pu)
                    if ph[1] != dims or not O.close(ph[0], O.registry_scale(rspec, dims), 1e-9):
                        errs.append("%s: unit_aware_solve param_units[%s] SI scale %r dims %r, expected %r %r"
                                    % (tag, nm, ph[0], ph[1], O.registry_scale(rspec, dims), dims))
                if not O.close(O.phys(dd["unit_conc"])[0], conc_sc, 1e-9) or not O.close(O.phys(dd["unit_time"])[0], time_sc, 1e-9):
                    errs.append("%s: unit_aware_solve reports unit_conc/unit_time of wrong scale" % tag)
        except O.Unknown:
            raise
        except Exception as e:
            errs.append("%s: create_odesys path raised %s" % (tag, _exc(e)))
    return errs


def key_indep(case):
    return json.dumps([case["rxns"], case["pres"], case["regs"], case["mode"]], sort_keys=True)


# =========================================================================================
# driver
# =========================================================================================

STANDINS = {
    "reaction_constant_units": (
        None, enum_accept, check_accept, None, None,
        "exhaustive grid: 9 reactions of order 0..3 (species on both sides, inactive reactants) x 7 concentration units "
        "(M, mM, uM, mol/m3, mol/cm3, mmol/L, umol/dm3) x 4 time units (s, min, h, ms) x {Quantity, UncertainQuantity}: constant "
        "conc**(1-order)/time is accepted (constructor and check_consistent_units), the same constant times one power of "
        "s, 1/s, M, 1/M, kg, K, m, m**-3, mol or A is rejected (constructor raises; check returns False); plain numbers accepted",
        "252 grid points x 2 quantity classes x 11 constants"),
    "equilibrium_constant_units": (
        None, enum_eq, check_eq, None, None,
        "exhaustive grid: 7 equilibria (prod-reac in -2..2) x 7 concentration units x exponents -3..3 != prod-reac and 10 one-off "
        "dimensions x {Quantity, UncertainQuantity}: never accepted",
        "343 grid points x 2 classes x <= 11 constants"),
    "registry_independence": (
        gen_indep, None, check_indep, 64, 5000,
        "seeded: 2-4 substances, 1-4 reactions of order 0..3 (later reactions reuse species, species on both sides) generated as SI "
        "numbers; constants as quantities / named parameters (include_params=False) / Arrhenius and Radiolytic expressions with values or "
        "with named (unique_keys) arguments; two "
        "independent presentations (units of every constant, concentration, time, dose rate, density) x three registries (SI, cgs-like, "
        "random prefixed incl. temperature and mass): to_arrays values, extra['p_units'], f_cb x conc/time == hand computation "
        "(1e-9 of sum |terms|), pairwise agreement, integrate() with quantities (first row == c0, end == LSODA reference to 1e-6, "
        "output expressed in output_conc_unit/output_time_unit or the registry unit)",
        "orders 0..3, <= 5 reactions, <= 4 substances, 3 registries x 2 presentations per system"),
    "alt_builder": (
        gen_alt, None, check_alt, 40, 3000,
        "seeded: the same generator restricted to named mass-action constants, driven through the alternative builder "
        "create_odesys(rsys, unit_registry=reg): validate() returns rates whose SI value equals the hand computation (1e-9 of sum |terms|) "
        "and leaves the quantities it was given untouched, refuses a constant times one second, unit_aware_solve() starts at c0, ends at "
        "the LSODA reference (1e-6) and reports param_units/unit_conc/unit_time of the registry's scale; three registries x two "
        "presentations.  Violations carry the tag bare_zero_order_term_in_sum (see alt_tags)",
        "as above"),
}
TAGS = {"alt_builder": alt_tags}


def _run_one(job):
    name, seed, idx, case = job
    gen, enum, chk = STANDINS[name][:3]
    if case is None:
        case = json.loads(json.dumps(gen(random.Random(O.subseed(seed, name, idx)))))
    return name, idx, case, chk(case)


def _run_chunk(jobs):
    return [_run_one(j) for j in jobs]


def run(tier, seed):
    jobs = []
    for name, (gen, enum, chk, nq, nt, rule, bound) in STANDINS.items():
        if enum is not None:
            jobs += [(name, seed, i, c) for i, c in enumerate(enum())]
        else:
            jobs += [(name, seed, i, None) for i in range(nq if tier == "quick" else nt)]
    # heavy (ODE) jobs one per chunk position, light grid jobs spread evenly
    nchunks = 64 if tier == "quick" else 1024
    chunks = [jobs[i::nchunks] for i in range(nchunks)]
    results = [r for ch in O.pmap(_run_chunk, [c for c in chunks if c], 16) for r in ch]
    results.sort(key=lambda r: (r[0], r[1]))
    out = []
    for name, (gen, enum, chk, nq, nt, rule, bound) in STANDINS.items():
        rs = [r for r in results if r[0] == name]
        keys = set(key_indep(r[2]) if name in ("registry_independence", "alt_builder") else json.dumps(r[2], sort_keys=True) for r in rs)
        viol = [dict({"inputs": case, "index": idx, "detail": "; ".join(errs[:3]) + (" (+%d more)" % (len(errs) - 3) if len(errs) > 3 else "")},
                     **(TAGS[name](case) if name in TAGS else {}))
                for _, idx, case, errs in rs if errs]
        out.append({"name": name, "rule": rule, "bound": bound, "evaluations": len(rs), "distinct": len(keys),
                    "exhaustive": enum is not None, "samples": [r[2] for r in rs[:2]], "violations": viol[:25]})
    return {"standins": out}


def replay(case):
    errs = STANDINS[case["name"]][2](case["inputs"])
    return (not errs), ("holds" if not errs else "; ".join(errs[:3]))
