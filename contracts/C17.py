"""C17  Closed-form integrated rate laws solve their rate equations from the given start."""
import math

from pyvc.api import harness
from pyvc import spec as SP

META = {
    "explanation": "each closed form is executed symbolically with an abstract backend, differentiated, and the ODE residual / initial value are decided by the exact field normaliser (ring) or z3; real-domain side conditions by nlsat on atomised terms",
    "trusted_base": ["assumed contract 5.3: exp/sqrt/tanh of math, numpy, sympy are the same real functions with exp(a+b)=exp(a)exp(b), sqrt(x)^2=x, tanh'=1-tanh^2"],
    "not_decided": ["equality of the floating point results of math/numpy/sympy (sampled in the bounded stand-in)"],
    "assumptions": ["time t >= 0, all rate constants, concentrations, feed parameters > 0; major > minor where the closed form divides by their difference"],
}

MOD = "chempy.kinetics.integrated"


def _bk(fn, be):
    import inspect
    return {"backend": be} if "backend" in inspect.signature(fn).parameters else {}


def P(v, names, hi=8):
    # the proofs quantify over ALL positive parameters; the box is only where the native samples are drawn
    if v.symbolic:
        return [v.real(n, pos=True) for n in names]
    return [v.real(n, lo=0.01, hi=hi, pos=True) for n in names]


def Tm(v, name="t"):
    """a time t >= 0 (symbolic: any; sampled: up to 5)"""
    return v.real(name, lo=0) if v.symbolic else v.real(name, lo=0, hi=5)


def _ode(name, argnames, rhs, init, nres=1, extra_req=None, tier="quick"):
    fnq = "%s:%s" % (MOD, name)

    @harness("C17", name + ".ode", functions=[fnq], div_mode="assume", samples=6, tier=tier)
    def h_ode(v):
        from chempy.kinetics import integrated
        fn = getattr(integrated, name)
        t = Tm(v)
        ps = P(v, argnames)
        if extra_req:
            v.assume(extra_req(*ps))
        be = v.backend()
        d, x = v.deriv(lambda tt: v.call(fn, tt, *ps, **_bk(fn, be)), t)
        if nres == 1:
            v.prove_identity("ode", d, rhs(x, *ps), rel=1e-7, abs_=1e-9)
        else:
            r = rhs(x, *ps)
            for i in range(nres):
                v.prove_identity("ode%d" % i, d[i], r[i], rel=1e-7, abs_=1e-9)

    @harness("C17", name + ".init", functions=[fnq], div_mode="assume", samples=6)
    def h_init(v):
        from chempy.kinetics import integrated
        fn = getattr(integrated, name)
        ps = P(v, argnames)
        if extra_req:
            v.assume(extra_req(*ps))
        be = v.backend()
        x0 = v.call(fn, 0, *ps, **_bk(fn, be))
        i0 = init(*ps)
        if nres == 1:
            v.prove_identity("init", x0, i0)
        else:
            for i in range(nres):
                v.prove_identity("init%d" % i, x0[i], i0[i])

    @harness("C17", name + ".defined", functions=[fnq], div_mode="oblige", samples=0)
    def h_def(v):
        from chempy.kinetics import integrated
        fn = getattr(integrated, name)
        t = Tm(v)
        ps = P(v, argnames)
        if extra_req:
            v.assume(extra_req(*ps))
        be = v.backend()
        v.call(fn, t, *ps, **_bk(fn, be))
        v.prove("reached", True)

    @harness("C17", name + ".backends", functions=[fnq, "chempy._util:get_backend"], div_mode="assume", samples=6)
    def h_be(v):
        from chempy.kinetics import integrated
        fn = getattr(integrated, name)
        t = Tm(v)
        ps = P(v, argnames)
        if extra_req:
            v.assume(extra_req(*ps))
        if v.symbolic:
            import numpy, sympy
            for modname, mod in (("math", math), ("numpy", numpy), ("sympy", sympy)):
                names = [n for n in ("exp", "log", "sqrt", "tanh", "cos", "sin", "atanh", "arctanh", "log10") if hasattr(mod, n)]
                out = v.run(fn, t, *ps, **_bk(fn, v.backend(names)))
                v.prove("evaluates_with_" + modname, out.returned, detail=repr(out.exc))
        else:
            import numpy
            vals = {}
            for modname, be in (("math", math), ("numpy", numpy), ("sympy", "sympy"), ("default", None)):
                out = v.run(fn, float(t), *[float(p) for p in ps], **_bk(fn, be)) if modname != "default" else v.run(fn, float(t), *[float(p) for p in ps])
                v.prove("evaluates_with_" + modname, out.returned, detail=repr(out.exc))
                if out.returned:
                    val = out.value if isinstance(out.value, tuple) else (out.value,)
                    vals[modname] = [float(c) for c in val]
            ref = vals.get("numpy")
            for k, val in vals.items():
                v.prove("same_value_" + k, ref is not None and all(SP.approx_eq(a, b, 1e-9, 1e-12) for a, b in zip(val, ref)), detail="%s vs numpy %s" % (val, ref))
    return h_ode


# mechanisms (right-hand sides and initial values written from the property statement / docstrings)
_ode("dimerization_irrev", ["kf", "initial_C"], lambda C, kf, C0: -2 * kf * C * C, lambda kf, C0: C0)
_ode("pseudo_irrev", ["kf", "prod", "major", "minor"],
     lambda x, kf, P0, Y, Z: kf * Y * (Z - (x - P0)), lambda kf, P0, Y, Z: P0)
_ode("pseudo_rev", ["kf", "kb", "prod", "major", "minor"],
     lambda x, kf, kb, P0, Y, Z: kf * Y * (Z - (x - P0)) - kb * x, lambda kf, kb, P0, Y, Z: P0)
_ode("binary_irrev", ["kf", "prod", "major", "minor"],
     lambda x, kf, P0, Y, Z: kf * (Y - (x - P0)) * (Z - (x - P0)), lambda kf, P0, Y, Z: P0,
     extra_req=lambda kf, P0, Y, Z: Y > Z)
_ode("binary_rev", ["kf", "kb", "prod", "major", "minor"],
     lambda x, kf, kb, P0, Y, Z: kf * (Y - (x - P0)) * (Z - (x - P0)) - kb * x, lambda kf, kb, P0, Y, Z: P0)
_ode("unary_irrev_cstr", ["k", "r", "p", "fr", "fp", "fv"],
     lambda AB, k, r, p, fr, fp, fv: (fv * (fr - AB[0]) - k * AB[0], fv * (fp - AB[1]) + k * AB[0]),
     lambda k, r, p, fr, fp, fv: (r, p), nres=2)
_ode("binary_irrev_cstr", ["k", "r", "p", "fr", "fp", "fv"],
     lambda AB, k, r, p, fr, fp, fv: (fv * (fr - AB[0]) - 2 * k * AB[0] * AB[0], fv * (fp - AB[1]) + 1 * k * AB[0] * AB[0]),
     lambda k, r, p, fr, fp, fv: (r, p), nres=2)


@harness("C17", "binary_irrev_cstr.n", functions=[MOD + ":binary_irrev_cstr"], div_mode="assume", samples=6)
def _(v):
    """general stoichiometric factor n of the product"""
    from chempy.kinetics.integrated import binary_irrev_cstr as fn
    t = Tm(v)
    k, r, p, fr, fp, fv = P(v, ["k", "r", "p", "fr", "fp", "fv"])
    n = v.real("n", lo=1, hi=4)
    be = v.backend()
    d, x = v.deriv(lambda tt: v.call(fn, tt, k, r, p, fr, fp, fv, n, backend=be), t)
    v.prove_identity("odeB", d[1], fv * (fp - x[1]) + n * k * x[0] * x[0], rel=1e-7, abs_=1e-9)
    x0 = v.call(fn, 0, k, r, p, fr, fp, fv, n, backend=be)
    v.prove_identity("initB", x0[1], p)


@harness("C17", "get_backend", functions=["chempy._util:get_backend"], kind="data")
def _(v):
    import numpy, sympy
    from chempy._util import get_backend
    v.prove("none_is_numpy", get_backend(None) is numpy)
    v.prove("string_imports", get_backend("sympy") is sympy and get_backend("math") is math)
    v.prove("module_passthrough", get_backend(math) is math)


@harness("C17", "array_time_axis_not_modified", functions=["chempy.kinetics.integrated:dimerization_irrev", "chempy.kinetics.integrated:pseudo_irrev", "chempy.kinetics.integrated:pseudo_rev",
                                                           "chempy.kinetics.integrated:binary_irrev", "chempy.kinetics.integrated:binary_rev", "chempy.kinetics.integrated:unary_irrev_cstr",
                                                           "chempy.kinetics.integrated:binary_irrev_cstr"], kind="data")
def _(v):
    """the closed forms are evaluated on numpy time axes in practice: the caller's array is left as it was, a second evaluation on the same
    axis gives the same curve, and the curve starts at the given initial state (also with the rarely used t0)"""
    import numpy as np
    from chempy.kinetics import integrated as I
    from contracts._purity import prove_pure
    t = lambda lo=0.0: (lambda: np.linspace(lo, lo + 2.0, 5))
    r = prove_pure(v, "dimerization_irrev.t0", I.dimerization_irrev, lambda: ((t(1.0)(), 0.4, 3.0), {"t0": 1.0}))
    v.prove("dimerization_irrev.t0.starts_at_the_initial_concentration", abs(float(r[0]) - 3.0) < 1e-12 and abs(float(r[-1]) - 1 / (1 / 3.0 + 2 * 0.4 * 2.0)) < 1e-12)
    prove_pure(v, "dimerization_irrev", I.dimerization_irrev, lambda: ((t()(), 0.4, 3.0), {}))
    prove_pure(v, "pseudo_irrev", I.pseudo_irrev, lambda: ((t()(), 0.3, 0.1, 2.0, 0.5), {"backend": np}))
    prove_pure(v, "pseudo_rev", I.pseudo_rev, lambda: ((t()(), 0.3, 0.2, 0.1, 2.0, 0.5), {"backend": np}))
    prove_pure(v, "binary_irrev", I.binary_irrev, lambda: ((t()(), 0.3, 0.1, 2.0, 0.5), {"backend": np}))
    prove_pure(v, "binary_rev", I.binary_rev, lambda: ((t()(), 0.3, 0.2, 0.1, 2.0, 0.5), {"backend": np}))
    prove_pure(v, "unary_irrev_cstr", I.unary_irrev_cstr, lambda: ((t()(), 0.3, 1.5, 0.2, 2.5, 0.4, 0.7), {"backend": np}))
    prove_pure(v, "binary_irrev_cstr", I.binary_irrev_cstr, lambda: ((t()(), 0.3, 1.5, 0.2, 2.5, 0.4, 0.7), {"n": 2, "backend": np}))


@harness("C17", "second_opinion_from_sympy", functions=[MOD + ":dimerization_irrev", MOD + ":pseudo_irrev", MOD + ":pseudo_rev", MOD + ":binary_irrev", MOD + ":binary_rev", MOD + ":unary_irrev_cstr",
                                                       MOD + ":binary_irrev_cstr"], kind="data")
def _(v):
    """an independent decision of the same two clauses: the closed forms are evaluated by the REAL code with sympy symbols (the documented symbolic
    use), differentiated by sympy (not by this verifier's own derivative) and the residual of the rate equations of chempy's OWN mass-action
    model (ReactionSystem.rates, cstr feed terms included) is evaluated with 60 significant digits at seeded parameter points; start values likewise"""
    import random
    import sympy
    from chempy.kinetics import integrated as I
    from chempy.chemistry import Reaction, Substance
    from chempy.reactionsystem import ReactionSystem
    t = sympy.Symbol("t", positive=True)
    rng = random.Random(17)

    def rates_of(text_rxns, conc, extra=None, cstr=None):
        rs = ReactionSystem([Reaction(r, p, k, checks=()) for r, p, k in text_rxns], [Substance(s) for s in sorted(conc)], checks=())
        return rs.rates(dict(conc, **(extra or {})), cstr_fr_fc=cstr)

    def check(label, build, npoints=6):
        worst, bad = 0, []
        for _ in range(npoints):
            try:
                expr_res, expr_init, params = build()
            except Exception as exc:
                bad.append(("evaluation with sympy symbols raised", repr(exc)[:200]))
                break
            for e in expr_res:
                for tt in (sympy.Rational(1, 7), sympy.Rational(13, 10), 4):
                    val = abs(sympy.N(e.subs(t, tt), 60))
                    scale = 1 + max(abs(sympy.N(x, 30)) for x in params)
                    if val > sympy.Float("1e-40") * scale:
                        bad.append((str(params)[:80], str(tt), str(val)[:12]))
            for e in expr_init:
                if abs(sympy.N(e, 60)) > sympy.Float("1e-50"):
                    bad.append(("init", str(params)[:80], str(sympy.N(e, 8))))
        v.prove(label + ".rate_equation_and_start_value", not bad, detail=repr(bad[:3]))
    R = lambda lo, hi: sympy.Rational(rng.randint(int(lo * 1000), int(hi * 1000)), 1000)

    def dimer():
        kf, C0 = R(0.01, 8), R(0.01, 8)
        C = I.dimerization_irrev(t, kf, C0)
        rate = rates_of([({"A": 2}, {"B": 1}, kf)], {"A": C, "B": 0})["A"]
        return [sympy.diff(C, t) - rate], [C.subs(t, 0) - C0], (kf, C0)
    check("dimerization_irrev", dimer)

    def binary(fn, rev, pseudo=False):
        def build():
            kf, kb, P0, Z = R(0.01, 8), R(0.01, 8), R(0, 3), R(0.1, 4)
            Y = Z + R(0.1, 4)                                  # documented: `major` is the excess reactant
            args = (kf, kb, P0, Y, Z) if rev else (kf, P0, Y, Z)
            x = fn(t, *args, backend=sympy)
            yy, zz = (Y if pseudo else Y - (x - P0)), Z - (x - P0)      # pseudo first order: the excess reactant is not consumed
            rxns = [({"Y": 1, "Z": 1}, {"P": 1}, kf)] + ([({"P": 1}, {"Y": 1, "Z": 1}, kb)] if rev else [])
            rate = rates_of(rxns, {"Y": yy, "Z": zz, "P": x})["P"]
            return [sympy.diff(x, t) - rate], [x.subs(t, 0) - P0], args
        return build
    check("pseudo_irrev", binary(I.pseudo_irrev, False, pseudo=True))
    check("pseudo_rev", binary(I.pseudo_rev, True, pseudo=True))
    check("binary_irrev", binary(I.binary_irrev, False))
    check("binary_rev", binary(I.binary_rev, True))

    def cstr(fn, order, n=1):
        def build():
            k, r, p, fr, fp, fv = R(0.01, 4), R(0.01, 4), R(0, 4), R(0.01, 4), R(0, 4), R(0.01, 2)
            A, B = fn(t, k, r, p, fr, fp, fv, backend=sympy) if order == 1 else fn(t, k, r, p, fr, fp, fv, n, backend=sympy)
            rates = rates_of([({"A": order}, {"B": n}, k)], {"A": A, "B": B}, {"fv": fv, "fcA": fr, "fcB": fp}, cstr=("fv", {"A": "fcA", "B": "fcB"}))
            return [sympy.diff(A, t) - rates["A"], sympy.diff(B, t) - rates["B"]], [A.subs(t, 0) - r, B.subs(t, 0) - p], (k, r, p, fr, fp, fv)
        return build
    check("unary_irrev_cstr", cstr(I.unary_irrev_cstr, 1))
    check("binary_irrev_cstr", cstr(I.binary_irrev_cstr, 2, 1))
    check("binary_irrev_cstr_n3", cstr(I.binary_irrev_cstr, 2, 3), npoints=3)


@harness("C17", "dimerization_irrev.start_time", functions=[MOD + ":dimerization_irrev"], div_mode="assume", samples=10)
def _(v):
    """the optional start time t0 and the (unused) P0: the curve solves dC/dt = -2 kf C^2 and passes through initial_C at t = t0, whatever P0 is"""
    from chempy.kinetics.integrated import dimerization_irrev as fn
    t0 = v.real("t0", lo=-5, hi=5)
    t = v.real("t", lo=-5, hi=10)
    v.assume(t >= t0)
    kf, C0 = P(v, ["kf", "initial_C"])
    P0 = v.real("P0", lo=0.1, hi=9)
    d, x = v.deriv(lambda tt: v.call(fn, tt, kf, C0, P0, t0), t)
    v.prove_identity("ode", d, -2 * kf * x * x, rel=1e-7, abs_=1e-9)
    v.prove_identity("passes_through_initial_C_at_t0", v.call(fn, t0, kf, C0, P0, t0), C0)
    v.prove_identity("independent_of_P0", v.call(fn, t, kf, C0, P0, t0), v.call(fn, t, kf, C0, 1, t0))


@harness("C17", "numeric_backends_over_the_whole_time_axis", functions=[MOD + ":dimerization_irrev", MOD + ":pseudo_irrev", MOD + ":pseudo_rev", MOD + ":binary_irrev", MOD + ":binary_rev",
                                                                       MOD + ":unary_irrev_cstr", MOD + ":binary_irrev_cstr"], kind="data")
def _(v):
    """'can be evaluated with each numeric or symbolic backend … and give the same values' along the whole positive time axis, not only where the
    exponentials are moderate: from t = 1e-9 to long after completion (rate constant x time up to 1e7, far beyond exp's float range 709) the numpy
    and math backends return finite numbers that agree with the sympy backend's 50-digit value (relative 1e-9 plus the rounding of sums of
    terms of the concentrations' size, 1e-12 x the largest concentration among the arguments)"""
    import math
    import warnings
    import numpy as np
    import sympy
    from chempy.kinetics import integrated as I
    # (label, function, arguments, takes a backend, largest concentration among the arguments -- the scale of rounding errors of sums --,
    #  relative tolerance: 1e-9 (+ 1e-12 x scale), or 1e-6 (+ 1e-7 x scale) where the formula is ill-conditioned in floats -- equimolar reactants with a
    #  negligible back reaction, 1 - exp(-tiny) -- there the obligation is 'a finite number near the value', not accuracy)
    cases = [("dimerization_irrev", I.dimerization_irrev, (2.0, 1.5), False, 1.5, 1e-9),
             ("pseudo_irrev", I.pseudo_irrev, (2.0, 0.1, 3.0, 0.5), True, 3.0, 1e-9), ("pseudo_rev", I.pseudo_rev, (2.0, 1.0, 0.1, 3.0, 0.5), True, 3.0, 1e-9),
             ("binary_irrev", I.binary_irrev, (2.0, 0.1, 3.0, 0.5), True, 3.0, 1e-9), ("binary_irrev_fast", I.binary_irrev, (1e10, 0.0, 1.3e-6, 3e-7), True, 1.3e-6, 1e-9),
             ("binary_rev", I.binary_rev, (2.0, 1.0, 0.1, 3.0, 0.5), True, 3.0, 1e-9),
             ("binary_rev_equimolar_tight", I.binary_rev, (1e10, 1e-13, 0.0, 1e-6, 1e-6), True, 1e-6, 1e-6),
             ("binary_rev_nearly_equimolar", I.binary_rev, (1.0, 1e-17, 0.0, 1.000000001, 1.0), True, 1.0, 1e-6),
             ("binary_rev_nearly_equimolar_with_product", I.binary_rev, (1.0, 1e-18, 0.5, 2.000000001, 2.0), True, 2.0, 1e-6),
             ("unary_irrev_cstr", I.unary_irrev_cstr, (2.0, 1.0, 0.1, 3.0, 0.5, 1.0), True, 3.0, 1e-9), ("binary_irrev_cstr", I.binary_irrev_cstr, (2.0, 1.0, 0.1, 3.0, 0.5, 1.0), True, 3.0, 1e-9),
             ("binary_irrev_cstr_slow_feed", I.binary_irrev_cstr, (0.5, 0.2, 0.0, 1.0, 0.25, 40.0, 3), True, 1.0, 1e-9)]
    times = (1e-9, 1e-3, 0.3, 7.0, 100.0, 400.0, 1000.0, 1e5, 1e7)
    ts = sympy.Symbol("t", positive=True)
    for label, fn, args, has_backend, cscale, rtol_ in cases:
        bad = []
        try:
            ex = fn(ts, *[sympy.nsimplify(a, rational=True) for a in args], **({"backend": sympy} if has_backend else {}))
        except Exception as exc:
            v.prove(label + ".finite_and_equal_to_the_symbolic_value", False, detail="symbolic backend: " + repr(exc)[:200])
            continue
        ex = ex if isinstance(ex, tuple) else (ex,)
        for tt in times:
            want = [sympy.N(e.subs(ts, sympy.nsimplify(tt, rational=True)), 50) for e in ex]
            for be in (("numpy", "math") if has_backend else (None,)):
                try:
                    with warnings.catch_warnings():
                        warnings.simplefilter("ignore")
                        got = fn(tt, *args, **({"backend": be} if has_backend else {}))
                except Exception as exc:
                    bad.append((be, tt, repr(exc)[:60])); continue
                got = got if isinstance(got, tuple) else (got,)
                for g, w in zip(got, want):
                    if not (math.isfinite(float(g)) and abs(float(g) - float(w)) <= rtol_ * abs(float(w)) + (1e-12 if rtol_ < 1e-8 else 1e-7) * cscale):
                        bad.append((be, tt, float(g), float(w)))
        v.prove(label + ".finite_and_equal_to_the_symbolic_value", not bad, detail=repr(bad[:3]))
