"""C12  Reaction text is read exactly as written and printing/parsing are inverse."""
import itertools

from pyvc.api import harness
from pyvc import spec as SP
from pyvc.sym import Sym

META = {
    "explanation": "printing structure (coefficient omitted iff 1, zero-coefficient entries dropped, ' + ' joins in stored order, inactive groups, the class's arrow, parameter and name parts) is proved for symbolic coefficients in the str/latex/unicode/html printers; _parse_multiplicity is proved to invert the printed term layout (str(n) + ' ' + key and n + ' * ' + key for every n >= 0, repeated species summed, allowed-key check); to_reaction's placement of the four parsed maps, parameter routes and missing-arrow rejection are proved modularly; _is_inactive_group is checked exhaustively on all strings over a 4-letter alphabet up to length 7; copy()/== proved on symbolic coefficients",
    "trusted_base": ["A9 model of re.split(' \\\\* | ', s) on concatenations whose symbolic pieces contain no space", "eval() of parameter text is external (results unconstrained)", "z3/cvc5 string theories"],
    "not_decided": ["split(join(...)) = id over unbounded term lists and full text round trips: bounded stand-in (print/parse round trip on generated reactions and systems)"],
    "assumptions": ["species keys are concrete per harness; coefficients are symbolic",
                    "print -> parse of a SYSTEM gives an equal object when the species keys are handed to the parser again (ReactionSystem.__eq__ also compares the substances mapping: its order and its spectators are not in the text); from the text alone the obligation is: the same reactions over exactly the written species"],
}
PA = "chempy.util.parsing"
ST = "chempy.printing.string"


class _Raised(object):
    """what _try hands back when the code under test raised: equal to nothing, so every comparison with an expected value fails"""
    def __init__(self, ex):
        self.ex = ex

    def __repr__(self):
        return "raised %s" % repr(self.ex)[:160]


def _try(f):
    """value of f() or a _Raised: data harnesses turn exceptions of the code under test into failed obligations, not into checker errors"""
    try:
        return f()
    except Exception as ex:
        return _Raised(ex)


def _mk(v, cls, reac_keys, prod_keys, ireac=(), iprod=(), param=None, lo=0):
    mk = lambda tag, ks: {k: v.int("%s_%s" % (tag, k.replace("+", "p").replace("-", "m").replace("(", "").replace(")", "")), lo=lo, hi=12) for k in ks}
    d = [mk("r", reac_keys), mk("p", prod_keys), mk("ir", ireac), mk("ip", iprod)]
    return cls(dict(d[0]), dict(d[1]), param, dict(d[2]) or None, dict(d[3]) or None, checks=()), d


def _term(n, key):
    """expected text of one term"""
    import z3
    from pyvc.spec import ite
    if not isinstance(n, Sym):
        return "" if n == 0 else (key if n == 1 else "%d %s" % (n, key))
    return None


def _side(v, d, keys_sorted, sep=" + "):
    """expected text of one side for symbolic coefficients: entries with coefficient 0 dropped, 1 omitted"""
    import z3
    parts = []
    for k in keys_sorted:
        n = d[k]
        if isinstance(n, Sym):
            txt = z3.If(n.e == 1, z3.StringVal(k), z3.Concat(z3.IntToStr(n.e), z3.StringVal(" " + k)))
            parts.append((n.e != 0, txt))
        else:
            if n != 0:
                parts.append((z3.BoolVal(True), z3.StringVal(k if n == 1 else "%d %s" % (n, k))))
    # join the present ones with the separator
    res = z3.StringVal("")
    any_before = z3.BoolVal(False)
    for present, txt in parts:
        res = z3.If(present, z3.If(any_before, z3.Concat(res, z3.StringVal(sep), txt), txt), res)
        any_before = z3.Or(any_before, present)
    return res, any_before


def _print_harness(printer_mod, printer_cls, fmt_name, arrows):
    @harness("C12", "print_structure." + fmt_name, functions=[ST + ":StrPrinter._Reaction_parts", ST + ":StrPrinter._Reaction_str", ST + ":StrPrinter._print_Reaction",
                                                               "%s:%s" % (printer_mod, printer_cls)], kind="shape-bounded", samples=0, max_paths=1500)
    def _(v):
        import importlib
        import z3
        from chempy.chemistry import Reaction, Equilibrium
        P = getattr(importlib.import_module(printer_mod), printer_cls)
        cls = v.choice("cls", [Reaction, Equilibrium])
        rxn, d = _mk(v, cls, ["H2O", "Na+"], ["OH-"], ireac=["A"], iprod=[])
        p = P()
        parts = v.call(p._Reaction_parts, rxn)
        r_exp, r_any = _side(v, d[0], sorted(d[0]))
        p_exp, p_any = _side(v, d[1], sorted(d[1]))
        ir_exp, ir_any = _side(v, d[2], sorted(d[2]))
        arrow = arrows[cls.__name__]
        v.prove("reactant_side", Sym(r_exp) == parts[0])
        v.prove("product_side", Sym(p_exp) == parts[3])
        v.prove("arrow_of_class", parts[2] == arrow)
        v.prove("inactive_reactants_grouped", Sym(z3.If(ir_any, z3.Concat(z3.StringVal(" + ( "), ir_exp, z3.StringVal(")")), z3.StringVal(""))) == parts[1])
        v.prove("no_inactive_products", parts[4] == "")
        whole = v.call(p._print_Reaction, rxn, with_param=False, with_name=False)
        v.prove("whole_line", Sym(z3.Concat(to_e(parts[0]), to_e(parts[1]), z3.StringVal(" " + arrow + " "), to_e(parts[3]), to_e(parts[4]))) == whole)
    return _


def to_e(x):
    import z3
    return x.e if isinstance(x, Sym) else z3.StringVal(x)


_print_harness("chempy.printing.string", "StrPrinter", "str", {"Reaction": "->", "Equilibrium": "="})
_print_harness("chempy.printing.pretty", "UnicodePrinter", "unicode", {"Reaction": "→", "Equilibrium": "⇌"})
_print_harness("chempy.printing.web", "HTMLPrinter", "html", {"Reaction": "&rarr;", "Equilibrium": "&harr;"})
_print_harness("chempy.printing.tex", "LatexPrinter", "latex", {"Reaction": r"\rightarrow", "Equilibrium": r"\rightleftharpoons"})


@harness("C12", "print_names_and_system", functions=[ST + ":StrPrinter._print_Reaction", ST + ":StrPrinter._print_ReactionSystem"], kind="data")
def _(v):
    """the '; parameter' part follows the stoichiometry, the name (if printed at all) follows the parameter; a system is one reaction per line in
    the stored order. Literal texts are demanded only where the documented notation fixes them (no names); HOW a name is written after the
    parameter is left open here, because the present form '; first' is the text the pinned obligations print_parse_round_trip.with_names.named_*
    (F-C12b) call wrong: the parser's notation for it is  ; name='first'  - a repair must not turn these obligations red"""
    from chempy.chemistry import Reaction
    from chempy.reactionsystem import ReactionSystem
    from chempy.printing.string import StrPrinter
    try:
        r1 = Reaction({"A": 2}, {"B": 1}, 3.5, name="first", checks=())
        r1n = Reaction({"A": 2}, {"B": 1}, 3.5, checks=())
        r2 = Reaction({"B": 1}, {"C": 1}, None, checks=())
        p = StrPrinter()
        t1, t1_noname = p.doprint(r1), StrPrinter(dict(with_name=False)).doprint(r1)
        # hand-written: stoichiometry '2 A -> B', then '; ' + parameter; the name part, whatever its notation, is a further '; ' part mentioning the name
        ok1 = t1_noname == "2 A -> B; 3.5" and p.doprint(r1n) == "2 A -> B; 3.5" and t1.startswith("2 A -> B; 3.5; ") and "first" in t1[len("2 A -> B; 3.5; "):] and "\n" not in t1
        ok_np, det1 = p.doprint(r2) == "B -> C", repr((t1, t1_noname))
        plain = p.doprint(ReactionSystem([r1n, r2], "A B C", checks=()))
        txt = p.doprint(ReactionSystem([r1, r2], "A B C", name="sys", checks=()))
        rxn_lines = [ln for ln in txt.split("\n") if " -> " in ln]
        other = [ln for ln in txt.split("\n") if ln.strip() and " -> " not in ln]
        ok2 = (plain == "2 A -> B; 3.5\nB -> C\n"                                      # no names anywhere: the text is fixed by the notation
               and rxn_lines == [t1, "B -> C"] and txt.endswith("\n")                   # each line is the text of its reaction, in the stored order
               and all("sys" in ln for ln in other))                                    # nothing else but (possibly) the name of the system
        det2 = repr((plain, txt))
    except Exception as ex:   # of the code under test: a failed obligation, not a checker error
        ok1 = ok_np = ok2 = False
        det1 = det2 = repr(ex)[:200]
    v.prove("param_and_name", ok1, detail=det1)
    v.prove("no_param_no_name", ok_np, detail=det1)
    v.prove("system_lines_in_order", ok2, detail=det2)


def _pm(layout):
    # samples > 0: besides the symbolic run the real function is run natively on sampled n1, n2, n3 against the same obligations, so that a wrong
    # reading is still found on sampled inputs when the code splits the term in a way the engine has no symbolic model of (the symbolic run is then
    # reported as unsupported = undecided), and a counter-model of the symbolic run is replayed on the real code
    @harness("C12", "_parse_multiplicity." + layout, functions=[PA + ":_parse_multiplicity"], kind="shape-bounded", samples=25, max_paths=500)
    def _(v):
        import z3
        from chempy.util import parsing
        _parse_multiplicity = getattr(parsing, "_parse_multiplicity", None)
        if _parse_multiplicity is None:
            # the helper these obligations are written for does not exist under that name (inlined / renamed): nothing is generated, which is
            # reported as undecided; the clause is still decided on concrete lines by the data harnesses and the bounded stand-ins
            v.note("no chempy.util.parsing._parse_multiplicity on this tree: symbolic obligations of the term reader not generated")
            return
        n1, n2, n3 = v.int("n1", lo=0, hi=1000), v.int("n2", lo=0, hi=1000), v.int("n3", lo=0, hi=1000)
        # the text of one term: str(n) + ' ' + key or str(n) + ' * ' + key (in the native sampled mode n is a plain int)
        s = lambda n, key, star=False: (Sym(z3.Concat(z3.IntToStr(n.e), z3.StringVal((" * " if star else " ") + key))) if isinstance(n, Sym)
                                        else "%d%s%s" % (n, " * " if star else " ", key))
        if layout == "space":
            strings = [s(n1, "H2O"), "Na+", s(n2, "(NH4)2SO4")]
            exp = {"H2O": n1, "Na+": 1, "(NH4)2SO4": n2}
        elif layout == "star":
            strings = [s(n1, "H2O", True), s(n2, "OH-", True)]
            exp = {"H2O": n1, "OH-": n2}
        else:   # repeated species are summed
            strings = [s(n1, "A"), "A", s(n2, "B", True), s(n3, "A"), "B"]
            exp = {"A": n1 + 1 + n3, "B": n2 + 1}
        r = v.call(_parse_multiplicity, strings)
        v.prove("keys_exactly_the_written_species", set(r.keys()) == set(exp))
        v.prove("coefficients_as_written_and_summed", SP.conj([r[k] == exp[k] for k in exp]))
        ok = v.run(_parse_multiplicity, strings, list(exp))
        v.prove("allowed_keys_accepts_known", ok.returned)
        bad = v.run(_parse_multiplicity, strings, [k for k in exp][1:])
        v.prove("allowed_keys_rejects_unknown", bad.raised(ValueError))
    return _


for _l in ("space", "star", "repeated"):
    _pm(_l)


@harness("C12", "_parse_multiplicity.concrete_forms", functions=[PA + ":_parse_multiplicity"], kind="data")
def _(v):
    from chempy.util import parsing
    from chempy.chemistry import Reaction
    # the private term reader if it is there; otherwise (inlined / renamed) the same term lists are read through the public surface as the
    # reactant side of a line
    pm = getattr(parsing, "_parse_multiplicity", None) or (lambda strings: dict(Reaction.from_string(" + ".join(strings) + " -> ZZ", checks=()).reac))
    got = _try(lambda: (pm(["2.5 A", "1e1 B"]), type(pm(["2.5 A"])["A"])))
    v.prove("decimal_coefficient_is_float", got == ({"A": 2.5, "B": 10.0}, float), detail=repr(got))
    got = _try(lambda: (pm(["3 A"]), type(pm(["3 A"])["A"])))
    v.prove("integer_coefficient_is_int", got == ({"A": 3}, int), detail=repr(got))
    got = _try(lambda: pm(["", "A"]))
    v.prove("empty_strings_skipped", got == {"A": 1}, detail=repr(got))
    got = _try(lambda: pm(["2 A B"]))
    v.prove("three_tokens_rejected", isinstance(got, _Raised) and isinstance(got.ex, ValueError), detail=repr(got))


@harness("C12", "_is_inactive_group.exhaustive", functions=[PA + ":_is_inactive_group"], kind="data")
def _(v):
    from chempy.util import parsing
    from chempy.chemistry import Reaction
    f = getattr(parsing, "_is_inactive_group", None)
    if f is None:
        # the private predicate is an aid: without it (inlined / renamed) the exhaustive enumeration has nothing to be run on (its two obligations are
        # then not generated = undecided); the clause itself - a key that merely begins with a bracket is active, a term enclosed by one matching pair
        # is an inactive group - is decided on the public surface with the same four terms (hand-written readings)
        got = _try(lambda: [(lambda r: (dict(r.reac), dict(r.inact_reac)))(Reaction.from_string(t + " + A -> Z", checks=())) for t in ("(NH4)2SO4", "(CH3)3N(aq)", "(2 H2O)", "((NH4)2SO4)")])
        v.prove("bracket_initial_keys_are_active", got == [({"(NH4)2SO4": 1, "A": 1}, {}), ({"(CH3)3N(aq)": 1, "A": 1}, {}), ({"A": 1}, {"H2O": 2}), ({"A": 1}, {"(NH4)2SO4": 1})], detail=repr(got))
        return

    def spec(t):   # enclosed by ONE matching pair: first '(' is closed exactly by the last character
        if len(t) < 2 or t[0] != "(" or t[-1] != ")":
            return False
        depth = 0
        for i, ch in enumerate(t):
            if ch == "(":
                depth += 1
            elif ch == ")":
                depth -= 1
                if depth == 0:
                    return i == len(t) - 1
                if depth < 0:
                    return False
        return False
    bad = []
    n = 0
    for L in range(0, 8):
        for tup in itertools.product("()a ", repeat=L):
            t = "".join(tup)
            n += 1
            got = _try(lambda: bool(f(t)))   # (an exception of the predicate is a wrong answer, not a checker error)
            if got is not spec(t):
                bad.append(t)
    v.prove("all_strings_up_to_length_7", not bad, "first %s" % bad[:5])
    v.prove("count", n == sum(4 ** L for L in range(8)))
    got = _try(lambda: [bool(f(t)) for t in ("(NH4)2SO4", "(CH3)3N(aq)", "(2 H2O)", "((NH4)2SO4)")])
    v.prove("bracket_initial_keys_are_active", got == [False, False, True, True], detail=repr(got))


@harness("C12", "to_reaction.placement", functions=[PA + ":to_reaction", "chempy.chemistry:Reaction.from_string"], kind="shape-bounded", samples=0)
def _(v):
    """which text goes to which of the four maps, modular over _parse_multiplicity (proved above)"""
    from chempy.util import parsing
    from chempy.chemistry import Reaction, Equilibrium
    seen = []

    def pm(v_, strings, substance_keys=None):
        seen.append((tuple(strings), substance_keys))
        return {"PM:" + "|".join(strings): 1}
    if getattr(parsing, "_parse_multiplicity", None) is not None:
        v.contract(parsing._parse_multiplicity, "_parse_multiplicity", None, pm)
    cls = v.choice("cls", [Reaction, Equilibrium])
    arrow = "->" if cls is Reaction else "="
    line = "2 A + (B) + (NH4)2SO4 %s  C + (3 D) + (E); None" % arrow
    r = v.call(cls.from_string, line, None, False, checks=())
    # the stand-in's answers show which texts went to which map. The modular form is a proof aid: when the helper is not called at all (inlined or
    # renamed) the stand-in is never asked and the interpreter has read the line with the code as it is - the expectation is then the hand-written
    # reading of that same line
    if seen:
        want = [{"PM:2 A|(NH4)2SO4": 1}, {"PM:B": 1}, {"PM:C": 1}, {"PM:3 D|E": 1}]
    else:
        want = [{"A": 2, "(NH4)2SO4": 1}, {"B": 1}, {"C": 1}, {"D": 3, "E": 1}]
    v.prove("active_reactants", dict(r.reac) == want[0], detail=repr(r.reac))
    v.prove("inactive_reactants", dict(r.inact_reac) == want[1], detail=repr(r.inact_reac))
    v.prove("active_products", dict(r.prod) == want[2], detail=repr(r.prod))
    v.prove("inactive_products", dict(r.inact_prod) == want[3], detail=repr(r.inact_prod))
    v.prove("allowed_keys_forwarded", all(sk is None for _, sk in seen))
    other = "=" if arrow == "->" else "->"
    out = v.run(cls.from_string, "A %s B" % other, None, False, checks=())
    v.prove("missing_arrow_token_rejected", out.raised(ValueError))
    # allowed keys given as ONE STRING stand for the blank-separated keys in it - never for the characters / substrings of the string (F-C12c). The
    # property says that an unknown key is rejected when allowed keys are given, not WHERE the membership test sits (in the helper, or in the caller
    # after the helper has parsed), so the two obligations are stated on the outcome with the REAL helper (the stand-in above lives in the interpreter
    # only; these are native calls) instead of on what reaches the helper. Expected readings are hand-written: (reac, prod, inact_reac, inact_prod)
    def outcome(text, keys):
        got = _try(lambda: (lambda r: (dict(r.reac), dict(r.prod), dict(r.inact_reac), dict(r.inact_prod)))(cls.from_string(text.replace("->", arrow), keys, False, checks=())))
        return "refused" if isinstance(got, _Raised) and isinstance(got.ex, ValueError) else got

    def decided(cases):
        got = [(text, keys, outcome(text, keys)) for text, keys, _ in cases]
        return [g[2] for g in got] == [want for _, _, want in cases], repr([g for g, c in zip(got, cases) if g[2] != c[2]][:3])
    # several keys in the string: each of them is accepted; a key that is only a piece of one of them, or of the whole string, is refused on any
    # side and in an inactive group ('B C' is a substring of 'AB CD' but cannot be written as a key at all: keys have no blanks)
    ok, det = decided([("A -> B", "A B", ({"A": 1}, {"B": 1}, {}, {})), ("2 AB + (CD) -> 3 * CD", "AB CD", ({"AB": 2}, {"CD": 3}, {"CD": 1}, {})),
                       ("B -> CD", "AB CD", "refused"), ("AB -> C", "AB CD", "refused"), ("AB -> CD + (D)", "AB CD", "refused"), ("AB + (2 A) -> CD", "AB CD", "refused")])
    v.prove("string_of_keys_is_split", ok, detail=det)
    # a string without a blank is ONE key
    ok, det = decided([("A -> A", "A", ({"A": 1}, {"A": 1}, {}, {})), ("AB -> 2 AB + (AB)", "AB", ({"AB": 1}, {"AB": 2}, {}, {"AB": 1})),
                       ("A -> B", "AB", "refused"), ("AB -> B", "AB", "refused"), ("A -> AB", "AB", "refused"), ("AB -> AB + (B)", "AB", "refused"), ("AB + (2 A) -> AB", "AB", "refused")])
    v.prove("string_with_a_single_key_is_a_list_of_one_key", ok, detail=det)


@harness("C12", "to_reaction.parameters", functions=[PA + ":to_reaction"], kind="data")
def _(v):
    """'then ; parameter and ; keyword=value parts': a quoted parameter is a named (symbolic) mass-action constant, a number is that number, the
    keyword parts reach the object, no parameter part means no parameter"""
    from chempy.chemistry import Reaction
    from chempy.kinetics.rates import MassAction
    # docstring of Reaction.from_string: "A -> 2 B; 'k'" has the rate k*[A] with k looked up by its name among the variables - stated through the
    # rates for two values of the constant, not through the attributes of the expression object
    def sym():
        r = Reaction.from_string("A -> B; 'k1'", checks=())
        return isinstance(r.param, MassAction), [r.rate({"A": 3, "B": 5, "k1": k}) for k in (7, 11)]
    got = _try(sym)
    v.prove("quoted_name_is_symbolic_mass_action", got == (True, [{"A": -3 * 7, "B": 3 * 7}, {"A": -3 * 11, "B": 3 * 11}]), detail=repr(got))
    got = _try(lambda: (lambda r: (r.param, r.name, r.ref))(Reaction.from_string("A -> B; 2.5e3; name='x', ref='y'", checks=())))
    v.prove("numeric_param_and_keywords", got == (2500.0, "x", "y"), detail=repr(got))
    got = _try(lambda: Reaction.from_string("A -> B", checks=()).param)
    v.prove("no_param", got is None, detail=repr(got))
    got = _try(lambda: Reaction.from_string("A -> B; 3*4", globals_=False, checks=()).param)
    v.prove("globals_false_never_evals", got is None, detail=repr(got))


@harness("C12", "copy_and_eq", functions=["chempy.chemistry:Reaction.copy", "chempy.chemistry:Reaction.__eq__", "chempy.chemistry:Reaction._init_stoich"], kind="shape-bounded", samples=20)
def _(v):
    from chempy.chemistry import Reaction, Equilibrium
    rxn, d = _mk(v, Reaction, ["B", "A"], ["C"], ireac=["X"], iprod=["Y"], param=v.real("k", lo=0, hi=9), lo=1)
    c = v.call(rxn.copy)
    v.prove("copy_is_new_object", c is not rxn)
    v.prove("copy_equals_original", bool(v.call(rxn.__eq__, c)))
    v.prove("stored_sorted", list(rxn.reac) == ["A", "B"])
    other, d2 = _mk(v, Reaction, ["B", "A"], ["C"], ireac=["X"], iprod=["Y"], param=v.real("k", lo=0, hi=9), lo=1)
    other.prod["C"] = other.prod["C"] + 1
    v.prove("different_coefficient_not_equal", not v.call(rxn.__eq__, other))
    v.prove("set_means_unit_coefficients", Reaction._init_stoich({"A", "B"}) == {"A": 1, "B": 1})


@harness("C12", "print_structure.decimal_coefficients", functions=[ST + ":StrPrinter._Reaction_parts"], kind="shape-bounded", samples=0)
def _(v):
    """coefficient text is omitted iff the coefficient equals 1 - also for decimal coefficients below 1"""
    import z3
    from chempy.chemistry import Reaction
    from chempy.printing.string import StrPrinter
    a = v.real("a", lo=0.01, hi=5)
    v.assume(SP.neg(a == 1))
    rxn = Reaction({"H2O2": 1}, {"O2": a, "H2O": 1}, None, checks=())
    parts = v.call(StrPrinter()._Reaction_parts, rxn)
    S = z3.Function("real2str", z3.RealSort(), z3.StringSort())
    v.prove("fractional_coefficient_is_printed", parts[3] == Sym(z3.Concat(z3.StringVal("H2O + "), S(a.e), z3.StringVal(" O2"))))


@harness("C12", "print_structure.half_round_trip", functions=[ST + ":StrPrinter._Reaction_parts", PA + ":_parse_multiplicity"], kind="data")
def _(v):
    """print -> parse for decimal coefficients: the species and coefficients that were put in come back (hand-written maps), as a Reaction"""
    from chempy.chemistry import Reaction
    ok = []
    for c in (0.5, 0.25, 1.5, 2.5, 0.1):
        try:
            r = Reaction({"H2O2": 1}, {"O2": c, "H2O": 1}, checks=())
            back = Reaction.from_string(str(r), checks=())
            ok.append((dict(back.reac), dict(back.prod), type(back)) == ({"H2O2": 1}, {"O2": c, "H2O": 1}, Reaction) and bool(back == r))
        except Exception as ex:
            ok.append(repr(ex)[:80])
    v.prove("decimal_coefficients_round_trip", all(o is True for o in ok), str(ok))


@harness("C12", "print_parse_round_trip.with_names", functions=["chempy.printing.string:StrPrinter._print_Reaction", "chempy.printing.string:StrPrinter._print_ReactionSystem",
                                                                "chempy.chemistry:Reaction.from_string", "chempy.reactionsystem:ReactionSystem.from_string"], kind="data")
def _(v):
    """'printing a reaction, equilibrium or system ... and parsing the text back yields an equal object' for objects that carry a NAME (the
    documented notation for it is  ; name='...' ), and for whole systems. 'Equal' is taken with everything == does not look at: the class of
    what comes back (Reaction == Equilibrium and ReactionSystem == EqSystem are True for equal content), the name of the object and - for a
    system - the classes and names of its member reactions (Reaction.__eq__ ignores the name)"""
    from chempy.chemistry import Reaction, Equilibrium, Substance
    from chempy.reactionsystem import ReactionSystem

    def back(cls, obj, *args, **kw):
        try:
            r = cls.from_string(str(obj) if not isinstance(obj, ReactionSystem) else obj.string(), *args, **kw)
            same = [r == obj, type(r) is type(obj), getattr(r, "name", None) == getattr(obj, "name", None)]
            if isinstance(obj, ReactionSystem):
                same += [[type(x) for x in r.rxns] == [type(x) for x in obj.rxns], [x.name for x in r.rxns] == [x.name for x in obj.rxns]]
            return all(same), "%s: equal/class/name[/member classes/member names] = %r" % (str(obj)[:60], same)
        except Exception as ex:
            return False, "%s: %r" % (str(obj)[:60], ex)

    def build(f):   # construction of the object to be printed is not what is under test here, but it is chempy code: a failure fails the obligation
        try:
            return f(), ""
        except Exception as ex:
            return None, "construction: %r" % (ex,)

    def rt(name, cls, make, *args, **kw):
        obj, det = build(make)
        ok = False
        if obj is not None:
            ok, det = back(cls, obj, *args, **kw)
        v.prove(name, ok, detail=det)
    rt("named_reaction_with_parameter", Reaction, lambda: Reaction.from_string("A -> B; 2.5; name='x'"))
    # without a parameter the bare name stands in the parameter slot: a name that happens to evaluate ('1', the unit 'second') is then not refused but
    # read as the parameter, silently giving a different object - all three names must come back (F-C12b)
    oks = []
    for nm in ("first", "1", "second"):
        obj, det = build(lambda: Reaction({"A": 2}, {"B": 1}, name=nm))
        oks.append(back(Reaction, obj) if obj is not None else (False, det))
    v.prove("named_reaction_without_parameter", all(ok for ok, _ in oks), detail="; ".join(d for ok, d in oks if not ok)[:300])
    rt("named_equilibrium", Equilibrium, lambda: Equilibrium({"A": 1}, {"B": 1}, 3.0, name="eq1"))
    # a named system whose reactions carry names too (documented notation of the parser); what the names of the MEMBERS become is compared as well
    rt("named_system", ReactionSystem, lambda: ReactionSystem.from_string("H2O -> H+ + OH-; 2; name='first'\nH+ + OH- -> H2O; 3; name='second'", name="mysys"))
    rt("unnamed_system", ReactionSystem, lambda: ReactionSystem.from_string("H2O -> H+ + OH-; 2\nH+ + OH- -> H2O; 3"))
    # usage of the class docstring: the species are GIVEN (key string, in the user's order, possibly with a spectator that no reaction mentions).
    # Neither that order nor a spectator is in the text, so the whole object comes back only when the keys are handed to the parser again ...
    docs = lambda: ReactionSystem.from_string("H2O -> H+ + OH-; 2\nH+ + OH- -> H2O; 3", "H2O H+ OH-")
    spect = lambda: ReactionSystem.from_string("A -> B; 2", "A B C", substance_factory=Substance)
    oks = []
    for make, args, kw in ((docs, (["H2O", "H+", "OH-"],), {}), (docs, ("H2O H+ OH-",), {}), (spect, ("A B C",), dict(substance_factory=Substance)), (spect, (["A", "B", "C"],), dict(substance_factory=Substance))):
        obj, det = build(make)
        oks.append(back(ReactionSystem, obj, *args, **kw) if obj is not None else (False, det))
    v.prove("system_given_with_keys_reads_back_against_its_keys", all(ok for ok, _ in oks), detail="; ".join(d for ok, d in oks if not ok)[:300])
    # ... and from the text alone: the same reactions (class, order, parameters, names) over exactly the species that are written
    oks = []
    for make, kw, written in ((docs, {}, {"H2O", "H+", "OH-"}), (spect, dict(substance_factory=Substance), {"A", "B"})):
        try:
            obj = make()
            r = ReactionSystem.from_string(obj.string(), **kw)
            same = [type(r) is type(obj), r.rxns == obj.rxns, [type(x) for x in r.rxns] == [type(x) for x in obj.rxns], [x.name for x in r.rxns] == [x.name for x in obj.rxns],
                    set(r.substances) == written and len(r.substances) == len(written)]
            oks.append((all(same), "%r: %r" % (obj.string(), same)))
        except Exception as ex:
            oks.append((False, repr(ex)[:160]))
    v.prove("system_text_alone_gives_the_same_reactions_over_the_written_species", all(ok for ok, _ in oks), detail="; ".join(d for ok, d in oks if not ok)[:300])


@harness("C12", "unknown_keys_are_refused", functions=["chempy.chemistry:Reaction.from_string", PA + ":_parse_multiplicity", "chempy.reactionsystem:ReactionSystem.from_string"], kind="data")
def _(v):
    """'an unknown key is rejected when an allowed-key list is given', whatever the form the allowed keys take (list, tuple, blank- or tab-separated
    string, a string holding a single key, set, frozenset, dict, dict view, numpy array of str, and the OrderedDict of Substance objects a system
    forwards) and wherever the unknown key stands (either side, inactive group, 'n *' term); the same forms accept a line made of known keys"""
    from collections import OrderedDict
    import numpy as np
    from chempy.chemistry import Reaction, Equilibrium, Substance
    from chempy.reactionsystem import ReactionSystem
    accepted = []
    cases = [("H2O2 -> H2O + O", "H2O2"), ("H2O2 -> H2O + O", ["H2O2"]), ("H2O2 -> H2O + O", ("H2O2", "H2O")), ("H -> O", "H2O\tO2"), ("H2O -> H + OH", "H2O OH"),
             ("A + B -> C + (D)", "A B C"), ("A + (2 X) -> C", ["A", "C"]), ("2 * Q -> A", "A")]
    forms = lambda ks: [set(ks), frozenset(ks), dict.fromkeys(ks), OrderedDict((k, None) for k in ks).keys(), np.array(ks)]
    for keys in forms(["H2O2"]):
        cases += [("H2O2 -> H2O + O", keys), ("H2O2 -> H2O2 + (O)", keys), ("H2O2 + (2 H2O) -> H2O2", keys)]
    for keys in forms(["A", "C"]):
        cases += [("A -> C + X", keys), ("A + (2 X) -> C", keys), ("A -> C + (X)", keys), ("2 * Q -> A", keys)]
    for text, keys in cases:
        for cls, arrow in ((Reaction, "->"), (Equilibrium, "=")):
            try:
                accepted.append((str(cls.from_string(text.replace("->", arrow), keys, checks=())), keys))
            except ValueError:
                pass
            except Exception as ex:   # any other exception is a crash on a legal form of the allowed keys, not a refusal of the key
                accepted.append((text, keys, repr(ex)[:80]))
    # the mapping of Substance objects (what ReactionSystem.from_string hands to every line) and a set, at system level
    subst = OrderedDict([("A", Substance("A")), ("C", Substance("C"))])
    for text in ("A -> C + X", "A -> C\nA + (2 X) -> C", "A -> C\nC -> A + (X)"):
        for keys in (subst, {"A", "C"}, ["A", "C"], "A C"):
            try:
                accepted.append(([str(r) for r in ReactionSystem.from_string(text, keys, substance_factory=Substance, checks=()).rxns], keys))
            except ValueError:
                pass
            except Exception as ex:
                accepted.append((text, keys, repr(ex)[:80]))
    v.prove("every_form_of_the_allowed_keys", not accepted, detail=repr(accepted[:4]))
    # ... and none of the forms refuses (or crashes on) known keys: hand-written reading of 'H2O2 -> H2O + O' and of a line with an inactive group
    wrong = []
    for keys in ["H2O2 H2O O", "O\tH2O\nH2O2", ["O", "H2O", "H2O2"], ("H2O", "O", "H2O2")] + forms(["O", "H2O", "H2O2"]) + [OrderedDict((k, Substance(k)) for k in ("H2O2", "H2O", "O"))]:
        for text, want in (("H2O2 -> H2O + O", ({"H2O2": 1}, {"H2O": 1, "O": 1}, {}, {})), ("2 H2O2 + (O) -> 2 * H2O + (2 O)", ({"H2O2": 2}, {"H2O": 2}, {"O": 1}, {"O": 2}))):
            got = _try(lambda: (lambda r: (dict(r.reac), dict(r.prod), dict(r.inact_reac), dict(r.inact_prod)))(Reaction.from_string(text, keys, checks=())))
            if got != want:
                wrong.append((text, keys, got))
    v.prove("known_keys_are_accepted", not wrong, detail=repr(wrong[:3]))


@harness("C12", "system_from_text", functions=["chempy.reactionsystem:ReactionSystem.from_string", "chempy.equilibria:EqSystem.from_string"], kind="data")
def _(v):
    """'multi-line systems with comments': one reaction per non-blank, non-comment line, in order, exactly as written (hand-written expectations);
    a `substances` argument is the allowed-key list for every line; comment LINES (the documented form: a line prefixed by a comment token) and
    keyword parts are not species; the reactions are of the class of the system; the documented arguments comment_tokens, rxn_parse_kwargs and
    missing_substances_from_keys do what their documentation says"""
    from chempy.chemistry import Substance, Reaction, Equilibrium
    from chempy.reactionsystem import ReactionSystem
    from chempy.equilibria import EqSystem
    RS = lambda t, *a, **k: ReactionSystem.from_string(t, *a, substance_factory=Substance, **k)
    summary = lambda rs: [(dict(r.reac), dict(r.prod), dict(r.inact_reac), dict(r.inact_prod), r.param, r.name) for r in rs.rxns]
    text = "\n".join(["# a comment line", "", "2 HNO2 -> H2O + NO + NO2; 3", "   ", "   # indented comment", "2 NO2 -> N2O4; 4; name='dimerisation'", "#NO2 -> NO; 7",
                      "NO + (2 H2O) -> NO2 + (H2O); 5e-3", "3 * NO2 + [Fe(CN)6]-3 -> (NH4)2SO4 + 2 NO2; 1.5"])
    rs = _try(lambda: RS(text, checks=()))
    got = _try(lambda: summary(rs))
    want = [({"HNO2": 2}, {"H2O": 1, "NO": 1, "NO2": 1}, {}, {}, 3, None), ({"NO2": 2}, {"N2O4": 1}, {}, {}, 4, "dimerisation"),
            ({"NO": 1}, {"NO2": 1}, {"H2O": 2}, {"H2O": 1}, 5e-3, None), ({"NO2": 3, "[Fe(CN)6]-3": 1}, {"(NH4)2SO4": 1, "NO2": 2}, {}, {}, 1.5, None)]
    v.prove("one_reaction_per_line_in_order_as_written", got == want, detail=repr(got))
    subs = _try(lambda: list(rs.substances))
    v.prove("substances_are_the_species_mentioned", not isinstance(subs, _Raised) and set(subs) == {"HNO2", "H2O", "NO", "NO2", "N2O4", "[Fe(CN)6]-3", "(NH4)2SO4"} and len(subs) == 7, detail=repr(subs))
    # a comment at the END of a reaction line is not the documented notation (comment_tokens: "lines ... ignored when prefixed"); today '#' there is
    # skipped by eval() of the parameter text. Either reading is fine - refused, or the line as written without the comment - but never another reaction
    got = [_try(lambda: summary(RS(t))) for t in ("2 HNO2 -> H2O + NO + NO2; 3  # trailing comment", "A -> B  # c")]
    ok = [isinstance(g, _Raised) or g == w for g, w in zip(got, ([want[0]], [({"A": 1}, {"B": 1}, {}, {}, None, None)]))]
    v.prove("trailing_comment_is_dropped_or_refused_never_misread", all(ok), detail=repr(got))
    keys = "HNO2 H2O NO NO2 N2O4"
    got = _try(lambda: (lambda ok: (summary(ok), list(ok.substances)))(RS("2 HNO2 -> H2O + NO + NO2; 3\n2 NO2 -> N2O4; 4", keys)))
    v.prove("allowed_keys_accepted", got == ([want[0], ({"NO2": 2}, {"N2O4": 1}, {}, {}, 4, None)], keys.split()), detail=repr(got))
    refused = []
    for bad_text in ("2 HNO2 -> H2O + NO + NO2; 3\n2 NO2 -> N2O5; 4", "2 HNO3 -> H2O + NO + NO2; 3\n2 NO2 -> N2O4; 4", "2 HNO2 -> H2O + NO + NO2; 3\n2 NO2 -> (Xe) + N2O4; 4"):
        try:
            RS(bad_text, keys, checks=())
            refused.append(False)
        except ValueError:
            refused.append(True)
        except Exception as ex:
            refused.append(repr(ex)[:80])
    v.prove("unknown_key_on_any_line_is_refused", all(r is True for r in refused), detail=repr(refused))
    # == cannot tell a Reaction from an Equilibrium (nor the two kinds of system): the classes are compared explicitly
    got = _try(lambda: (lambda es: ([(dict(r.reac), dict(r.prod), r.param) for r in es.rxns], [type(r) for r in es.rxns], type(es)))(EqSystem.from_string("H2O = H+ + OH-; 1e-14\nNH4+ = NH3 + H+; 5.6e-10")))
    v.prove("equilibria_use_the_equals_arrow", got == ([({"H2O": 1}, {"H+": 1, "OH-": 1}, 1e-14), ({"NH4+": 1}, {"H+": 1, "NH3": 1}, 5.6e-10)], [Equilibrium, Equilibrium], EqSystem), detail=repr(got))
    got = (_try(lambda: [type(r) for r in rs.rxns]), type(rs))
    v.prove("reactions_are_of_the_class_of_the_system", got == ([Reaction] * 4, ReactionSystem), detail=repr(got))
    got = [_try(lambda: summary(ReactionSystem.from_string("A -> B\nB = C", substance_factory=Substance))), _try(lambda: summary(EqSystem.from_string("A = B\nB -> C", substance_factory=Substance))),
           _try(lambda: summary(ReactionSystem.from_string("A = B", substance_factory=Substance))), _try(lambda: summary(EqSystem.from_string("A -> B", substance_factory=Substance)))]
    v.prove("line_with_the_arrow_of_the_other_class_is_refused", all(isinstance(g, _Raised) and isinstance(g.ex, ValueError) for g in got), detail=repr(got))
    # comment_tokens: "Tokens which causes lines to be ignored when prefixed by any of them" - the given tokens, not a built-in '#'
    got = [_try(lambda: summary(RS("// x\nA -> B\n  -- B -> C; 4", comment_tokens=("//", "--")))), _try(lambda: summary(RS("# x\nA -> B", comment_tokens=("//",))))]
    v.prove("comment_tokens_are_the_given_ones", got[0] == [({"A": 1}, {"B": 1}, {}, {}, None, None)] and isinstance(got[1], _Raised), detail=repr(got))
    # rxn_parse_kwargs: "passed on to the Reaction baseclass' method from_string": globals_ is what the parameter text is evaluated in (k = 7 -> 2*k = 14),
    # and globals_=False means no evaluation at all
    got = [_try(lambda: [r.param for r in RS("A -> B; 2*k\nB -> C; k + 1", rxn_parse_kwargs=dict(globals_={"k": 7})).rxns]), _try(lambda: [r.param for r in RS("A -> B; 3*4", rxn_parse_kwargs=dict(globals_=False)).rxns]),
           _try(lambda: [r.param for r in RS("A -> B; 3*4").rxns])]
    v.prove("rxn_parse_kwargs_reach_every_line", got == [[14, 8], [None], [12]], detail=repr(got))
    # missing_substances_from_keys: the given substances are then not the allowed-key list; the species of the text are added to them
    got = [_try(lambda: (lambda r: (summary(r), set(r.substances)))(RS("A -> B + (C)", "A", missing_substances_from_keys=True))), _try(lambda: summary(RS("A -> B + (C)", "A")))]
    v.prove("missing_substances_from_keys_lifts_the_key_check", got[0] == ([({"A": 1}, {"B": 1}, {}, {"C": 1}, None, None)], {"A", "B", "C"}) and isinstance(got[1], _Raised) and isinstance(got[1].ex, ValueError), detail=repr(got))


@harness("C12", "system_text_uses_the_species_keys", functions=["chempy.reactionsystem:ReactionSystem.string", "chempy.printing.string:StrPrinter._print_ReactionSystem"], kind="data")
def _(v):
    """the text of a system is written with the species KEYS (what the reactions refer to and what the parser reads back against the key list), also
    when the Substance objects carry different display names; fractional coefficients are printed, not dropped"""
    from collections import OrderedDict
    from chempy.chemistry import Reaction, Substance
    from chempy.reactionsystem import ReactionSystem
    subs = OrderedDict([("H2O2", Substance("hydrogen peroxide")), ("H2O", Substance("water")), ("O2", Substance("oxygen"))])
    txt = _try(lambda: ReactionSystem([Reaction({"H2O2": 2}, {"H2O": 2, "O2": 1}, 3.0)], subs, checks=()).string())
    v.prove("keys_not_display_names", not isinstance(txt, _Raised) and txt.strip() == "2 H2O2 -> 2 H2O + O2; 3", detail=repr(txt))
    try:
        back = ReactionSystem.from_string(txt, list(subs), substance_factory=Substance)
        ok = [(dict(r.reac), dict(r.prod)) for r in back.rxns] == [({"H2O2": 2}, {"H2O": 2, "O2": 1})]
    except Exception as ex:
        ok = repr(ex)
    v.prove("reads_back_against_the_key_list", ok is True, detail=repr(ok))
    got = _try(lambda: (lambda half: (str(half), half.unicode({}), half.latex({}), half.html({})))(Reaction({"H2O2": 1}, {"H2O": 1, "O2": 0.5}, checks=())))
    v.prove("coefficient_below_one_is_printed", not isinstance(got, _Raised) and got[0] == "H2O2 -> H2O + 0.5 O2" and got[1] == "H2O2 → H2O + 0.5 O2" and "0.5 O" in got[2] and "0.5 O" in got[3], detail=repr(got))


@harness("C12", "keys_containing_the_arrow", functions=["chempy.util.parsing:to_reaction", "chempy.chemistry:Reaction.from_string", "chempy.chemistry:Equilibrium.from_string"], kind="data")
def _(v):
    """'for every species key without spaces': a key may contain the characters of the arrow itself ('CH2=CH2' in an equilibrium line, 'a->b' in
    a reaction line); the arrow of the line is the one delimited by blanks, and every written species lands on its written side. A line with
    more than one arrow is not the documented notation and is refused, never cut off after the second side"""
    from chempy.chemistry import Reaction, Equilibrium
    bad = []
    for cls, text, reac, prod in ((Equilibrium, "CH2=CH2 + H2 = C2H6; 3", {"CH2=CH2": 1, "H2": 1}, {"C2H6": 1}), (Equilibrium, "2 CH2=CH2 = C4H8", {"CH2=CH2": 2}, {"C4H8": 1}),
                                  (Equilibrium, "C2H6 = H2 + CH2=CH2", {"C2H6": 1}, {"H2": 1, "CH2=CH2": 1}), (Reaction, "a->b + 2 c -> d", {"a->b": 1, "c": 2}, {"d": 1}),
                                  (Reaction, "A- -> B-", {"A-": 1}, {"B-": 1}), (Reaction, "A->B -> C", {"A->B": 1}, {"C": 1}), (Equilibrium, "A = B=C", {"A": 1}, {"B=C": 1}),
                                  (Reaction, "A->B", {"A": 1}, {"B": 1}), (Equilibrium, "A=B", {"A": 1}, {"B": 1})):
        # the last two write the arrow WITHOUT blanks: not the documented notation (and what makes 'A->B -> C' ambiguous). A parser may read them
        # (then as A -> B) or insist on the blank-delimited arrow and refuse them with ValueError - but never hand back anything else
        may_refuse = " " not in text
        try:
            r = cls.from_string(text)
            if dict(r.reac) != reac or dict(r.prod) != prod or type(r) is not cls:
                bad.append((text, dict(r.reac), dict(r.prod)))
        except Exception as ex:
            if not (may_refuse and isinstance(ex, ValueError)):
                bad.append((text, repr(ex)[:80]))
    v.prove("every_written_species_on_its_written_side", not bad, detail=repr(bad[:3]))
    # ... and such a key survives print -> parse, also next to an empty side (the printed text then ends with the arrow)
    lost = []
    for obj in (Equilibrium({"CH2=CH2": 1, "H2": 1}, {"CH3CH3": 1}, 5.0), Equilibrium({"CH2=CH2": 1}, {}, checks=()), Reaction({"a->b": 1}, {}, 2.0), Reaction({}, {"a->b": 2}, 2.0)):
        try:
            back = type(obj).from_string(str(obj), checks=())
            if not (back == obj and type(back) is type(obj) and dict(back.reac) == dict(obj.reac) and dict(back.prod) == dict(obj.prod)):
                lost.append((str(obj), dict(back.reac), dict(back.prod)))
        except Exception as ex:
            lost.append((str(obj), repr(ex)[:80]))
    v.prove("print_parse_with_an_arrow_in_the_key", not lost, detail=repr(lost[:3]))
    accepted = []
    for cls, text in ((Reaction, "A -> B -> C"), (Equilibrium, "A = B = C"), (Reaction, "A -> B + C -> D; 3")):
        try:
            r = cls.from_string(text)
            accepted.append((text, dict(r.reac), dict(r.prod)))
        except ValueError:
            pass
        except Exception as ex:
            accepted.append((text, repr(ex)[:80]))
    v.prove("more_than_one_arrow_refused", not accepted, detail=repr(accepted[:3]))


@harness("C12", "keys_beginning_with_a_star_and_system_text_switches", functions=["chempy.util.parsing:_parse_multiplicity", "chempy.reactionsystem:ReactionSystem.string"], kind="data")
def _(v):
    """(a) 'for every species key without spaces': keys that begin with the multiplication sign of the 'n * X' notation (surface sites '*',
    '*CO') keep their star with an explicit coefficient in front, and survive print -> parse; (b) the two switches of ReactionSystem.string
    act independently: with_name=False drops the names and keeps the parameters (the only form of a named system that parses back),
    with_param=False drops the parameters and keeps the names"""
    from chempy.chemistry import Reaction, Substance
    from chempy.reactionsystem import ReactionSystem
    try:
        r = Reaction.from_string("2 *CO + * -> 2 * *COH + 3 *; 3")
        ok = dict(r.reac) == {"*CO": 2, "*": 1} and dict(r.prod) == {"*COH": 2, "*": 3}
        back = Reaction.from_string(str(r))
        ok2, det = back == r and type(back) is Reaction and dict(back.reac) == dict(r.reac) and dict(back.prod) == dict(r.prod) and back.param == 3, "%r %r %r" % (dict(r.reac), dict(r.prod), str(r))
    except Exception as ex:
        ok, ok2, det = False, False, repr(ex)[:200]
    v.prove("star_keys_with_explicit_coefficients", ok, detail=det)
    v.prove("star_keys_print_parse", ok2, detail=det)
    # (b) the names are 'first'/'second', the parameters 3/4. Literal texts are demanded where no name is printed (fixed by the documented notation);
    # HOW a name is written is left open (F-C12b: today '; first', which the parser cannot read back, see print_parse_round_trip.with_names.named_*):
    # a line with its name begins with the text of the same line without it and mentions the name; no parameter where the parameters are switched off
    try:
        rs = ReactionSystem.from_string("A -> B; 3; name='first'\nB -> C; 4; name='second'", substance_factory=Substance)
        texts = {k: rs.string(**kw) for k, kw in (("default", {}), ("no_name", dict(with_name=False)), ("no_param", dict(with_param=False)), ("neither", dict(with_param=False, with_name=False)))}
        lines = {k: t.split("\n") for k, t in texts.items()}
        named = lambda ls, stems: (len(ls) == 3 and ls[2] == "" and all(l.startswith(st + "; ") and nm in l[len(st) + 2:] for l, st, nm in zip(ls, stems, ("first", "second"))))
        sw = {"no_name": texts["no_name"] == "A -> B; 3\nB -> C; 4\n", "neither": texts["neither"] == "A -> B\nB -> C\n",
              "default": named(lines["default"], ("A -> B; 3", "B -> C; 4")),
              "no_param": named(lines["no_param"], ("A -> B", "B -> C")) and not any(ch in texts["no_param"] for ch in "34")}
        det = repr({k: texts[k] for k, ok in sw.items() if not ok})
    except Exception as ex:
        sw, det, texts = {"raised": False}, repr(ex)[:200], {}
    v.prove("system_text_switches_are_independent", all(sw.values()), detail=det)
    # the two name-free texts parse back: same reactions in order, same parameters (none for 'neither'), the class of the system, and NO names
    try:
        got = {k: (lambda b: (type(b), [(type(r), dict(r.reac), dict(r.prod), r.param, r.name) for r in b.rxns]))(ReactionSystem.from_string(texts[k], substance_factory=Substance)) for k in ("no_name", "neither")}
        ok3 = got == {"no_name": (ReactionSystem, [(Reaction, {"A": 1}, {"B": 1}, 3, None), (Reaction, {"B": 1}, {"C": 1}, 4, None)]),
                      "neither": (ReactionSystem, [(Reaction, {"A": 1}, {"B": 1}, None, None), (Reaction, {"B": 1}, {"C": 1}, None, None)])}
    except Exception as ex:
        ok3, got = False, repr(ex)[:200]
    v.prove("text_without_names_parses_back", ok3, detail=repr(got))


@harness("C12", "keys_containing_a_comment_token", functions=["chempy.reactionsystem:ReactionSystem.from_string", "chempy.equilibria:EqSystem.from_string", "chempy.reactionsystem:ReactionSystem.string"], kind="data")
def _(v):
    """'for every species key without spaces ... multi-line systems with comments': a comment is a LINE prefixed by a comment token; inside a
    reaction line the characters of a comment token are ordinary characters of a space-free key (triple bonds 'C#C', 'N#N', 'HC#N', a key
    'a//b' when '//' is the token), on either side, in an inactive group, behind 'n *', with or without a parameter part. Every written species
    lands on its written side with its written coefficient, nothing after it is dropped, the allowed-key list is tested against the WHOLE key,
    the system parser reads each line as the one-line parser does, and such a system survives print -> parse. (Keys that BEGIN with a token
    are left out: at the head of a line they are indistinguishable from a comment.)"""
    from chempy.chemistry import Reaction, Equilibrium, Substance
    from chempy.reactionsystem import ReactionSystem
    from chempy.equilibria import EqSystem
    summary = lambda rs: [(type(r), dict(r.reac), dict(r.prod), dict(r.inact_reac), dict(r.inact_prod), r.param, r.name) for r in rs.rxns]
    lines = ["CC -> C#C + 2 [H][H]; 4e-7", "2 N#N + (HC#N) -> 3 * A# + B; 2; name='n2'", "C#C + (2 A#) -> CC + (N#N)", "A# -> 2 N#N"]
    text = "\n".join(["# species keyed by their SMILES", lines[0], "   # CC -> C#C; 1", lines[1], "", "#C#C -> CC; 7", lines[2], lines[3]])
    want = [(Reaction, {"CC": 1}, {"C#C": 1, "[H][H]": 2}, {}, {}, 4e-7, None), (Reaction, {"N#N": 2}, {"A#": 3, "B": 1}, {"HC#N": 1}, {}, 2, "n2"),
            (Reaction, {"C#C": 1}, {"CC": 1}, {"A#": 2}, {"N#N": 1}, None, None), (Reaction, {"A#": 1}, {"N#N": 2}, {}, {}, None, None)]
    written = {"CC", "C#C", "[H][H]", "N#N", "HC#N", "A#", "B"}
    rs = _try(lambda: ReactionSystem.from_string(text, substance_factory=Substance))
    got = _try(lambda: summary(rs))
    v.prove("system_lines_read_as_written", got == want, detail=repr(got))
    subs = _try(lambda: list(rs.substances))
    v.prove("substances_are_the_written_keys", not isinstance(subs, _Raised) and set(subs) == written and len(subs) == len(written), detail=repr(subs))
    # one line = one reaction: what the system parser makes of a line is what the one-line parser makes of it
    got = _try(lambda: [(dict(a.reac), dict(a.prod), dict(a.inact_reac), dict(a.inact_prod), a.param, a.name) == (dict(b.reac), dict(b.prod), dict(b.inact_reac), dict(b.inact_prod), b.param, b.name)
                        for a, b in zip(rs.rxns, [Reaction.from_string(ln) for ln in lines])])
    v.prove("system_parser_agrees_with_line_parser", got == [True] * 4, detail=repr(got))
    # equilibria: the sibling entry point (dissociation of HCN, ammonia synthesis written with the triple bond)
    got = _try(lambda: summary(EqSystem.from_string("N#N + 3 H2 = 2 NH3; 1e5\n# HC#N = H+ + C#N-; 1\nHC#N = H+ + C#N-; 6e-10", substance_factory=Substance)))
    v.prove("equilibrium_lines_read_as_written", got == [(Equilibrium, {"N#N": 1, "H2": 3}, {"NH3": 2}, {}, {}, 1e5, None), (Equilibrium, {"HC#N": 1}, {"H+": 1, "C#N-": 1}, {}, {}, 6e-10, None)], detail=repr(got))
    # the tokens are the given ones: with ('//', '--') the keys 'a//b' and 'c--d' are whole keys and '#' is no token at all
    got = _try(lambda: summary(ReactionSystem.from_string("// c\na//b -> 2 c--d + e; 3\n  -- x -> y\nC#C -> a//b", substance_factory=Substance, comment_tokens=("//", "--"))))
    v.prove("given_tokens_inside_keys", got == [(Reaction, {"a//b": 1}, {"c--d": 2, "e": 1}, {}, {}, 3, None), (Reaction, {"C#C": 1}, {"a//b": 1}, {}, {}, None, None)], detail=repr(got))
    # allowed-key list: the whole key is looked up - 'C#C' is known when listed, and is not the known key 'C' (nor 'A#' the known 'A')
    got = _try(lambda: (lambda r: (summary(r), list(r.substances)))(ReactionSystem.from_string("CC -> C#C + 2 [H][H]; 4e-7", "CC C#C [H][H] C", substance_factory=Substance)))
    v.prove("listed_key_accepted", got == ([want[0]], ["CC", "C#C", "[H][H]", "C"]), detail=repr(got))
    accepted = []
    for cls, t, keys in ((ReactionSystem, "CC -> C#C + 2 [H][H]; 4e-7", "CC C [H][H]"), (ReactionSystem, "CC -> C + [H][H]\nCC -> C#C", ["CC", "C", "[H][H]"]), (ReactionSystem, "A# -> B", "A B"),
                         (ReactionSystem, "A -> B + (C#C)", "A B C"), (EqSystem, "A = B + C#C; 3", "A B C"), (ReactionSystem, "A -> 2 * B#x", "A B")):
        try:
            accepted.append((t, keys, [str(r) for r in cls.from_string(t, keys, substance_factory=Substance, checks=()).rxns]))
        except ValueError:
            pass
        except Exception as ex:
            accepted.append((t, keys, repr(ex)[:80]))
    v.prove("unlisted_key_refused_not_cut_to_a_listed_one", not accepted, detail=repr(accepted[:3]))
    # a token in the keyword part is text of that keyword value
    got = _try(lambda: (lambda r: (dict(r.reac), dict(r.prod), r.param, r.ref))(ReactionSystem.from_string("N#N -> 2 N; 5; ref='made up #hashtag'", substance_factory=Substance).rxns[0]))
    v.prove("token_in_a_keyword_value_is_kept", got == ({"N#N": 1}, {"N": 2}, 5, "made up #hashtag"), detail=repr(got))
    # print -> parse of systems without inactive groups and names: against the keys the equal object, from the text alone the same reactions
    oks = []
    for cls, rcls, arrow in ((ReactionSystem, Reaction, "->"), (EqSystem, Equilibrium, "=")):
        try:
            keys = ["CC", "C=C", "C#C", "[H][H]"]
            obj = cls([rcls({"CC": 1}, {"C#C": 1, "[H][H]": 2}, 4e-7), rcls({"C=C": 1}, {"C#C": 1, "[H][H]": 1}, 2.5e-3), rcls({"C#C": 2}, {"CC": 1}, None, checks=())],
                      [Substance(k) for k in keys], checks=())
            txt = obj.string()
            back, alone = cls.from_string(txt, keys, substance_factory=Substance, checks=()), cls.from_string(txt, substance_factory=Substance, checks=())
            same = [back == obj, type(back) is cls, list(back.substances) == keys, summary(back) == summary(obj), summary(alone) == summary(obj), set(alone.substances) == set(keys) and len(alone.substances) == 4,
                    summary(obj)[0][1:3] == ({"CC": 1}, {"C#C": 1, "[H][H]": 2})]
            oks.append((all(same), "%r: %r" % (txt, same)))
        except Exception as ex:
            oks.append((False, repr(ex)[:160]))
    v.prove("print_parse_round_trip", all(ok for ok, _ in oks), detail="; ".join(d for ok, d in oks if not ok)[:300])
