"""AST interpreter for the real functions of the repository under check.

The function objects are the *real* ones (imported from the working tree); their
FunctionDef nodes are re-parsed from the source file on every run and executed here on
mixed concrete / symbolic values.  Calls whose arguments hold no symbolic leaf are run
natively by CPython (same code, same result).
"""
from __future__ import annotations

import ast
import builtins
import functools
import hashlib
import inspect
import operator
import os
import sys
import types

import z3

from . import sym as S
from .sym import Sym, Unsupported, Infeasible, PathAbort, cur, to_z3, wrap, wrap_num, contains_sym, fresh_name
from .containers import SymSeq, SymDict, Unknown, wrap_num_or

# ----------------------------------------------------------------------------------
# source access
# ----------------------------------------------------------------------------------
_file_cache = {}


def parse_file(filename):
    ent = _file_cache.get(filename)
    if ent is None:
        with open(filename, "rb") as fh:
            raw = fh.read()
        tree = ast.parse(raw, filename)
        funcs = {}
        for node in ast.walk(tree):
            if isinstance(node, (ast.FunctionDef, ast.Lambda, ast.AsyncFunctionDef)):
                first = node.lineno
                if not isinstance(node, ast.Lambda) and node.decorator_list:
                    first = min([first] + [d.lineno for d in node.decorator_list])
                funcs.setdefault(first, []).append(node)
                if first != node.lineno:
                    funcs.setdefault(node.lineno, []).append(node)
        ent = (tree, funcs, hashlib.sha256(raw).hexdigest(), raw.decode("utf8", "replace").splitlines())
        _file_cache[filename] = ent
    return ent


def clear_source_cache():
    _file_cache.clear()


def func_node(fn):
    """FunctionDef / Lambda node of a real python function object"""
    code = fn.__code__
    filename = code.co_filename
    tree, funcs, sha, lines = parse_file(filename)
    cands = funcs.get(code.co_firstlineno, [])
    name = code.co_name
    sel = []
    for n in cands:
        if isinstance(n, ast.Lambda):
            if name == "<lambda>":
                sel.append(n)
        elif n.name == name:
            sel.append(n)
    if len(sel) > 1:
        argnames = list(code.co_varnames[:code.co_argcount + code.co_kwonlyargcount])
        sel2 = [n for n in sel if [a.arg for a in n.args.posonlyargs + n.args.args + n.args.kwonlyargs] == argnames]
        if sel2:
            sel = sel2
        if len(sel) > 1 and hasattr(code, "co_positions"):
            cols = [p for p in code.co_positions() if p[0] == code.co_firstlineno and p[2] is not None]
            # fall back on the first: several identical lambdas on one line behave alike
        sel = sel[:1]
    if not sel:
        raise Unsupported("no source node for %s (%s:%d)" % (name, filename, code.co_firstlineno))
    return sel[0], filename, sha


def source_segment(fn):
    node, filename, sha = func_node(fn)
    lines = parse_file(filename)[3]
    seg = "\n".join(lines[node.lineno - 1:node.end_lineno])
    return {"file": filename, "line": node.lineno, "end_line": node.end_lineno,
            "sha256_segment": hashlib.sha256(seg.encode()).hexdigest(), "sha256_file": sha}


# ----------------------------------------------------------------------------------
# control-flow signals
# ----------------------------------------------------------------------------------
class _Return(BaseException):
    def __init__(self, value):
        self.value = value


class _Break(BaseException):
    pass


class _Continue(BaseException):
    pass


class Frame:
    overrides = {}   # (module name, global name) -> replacement value (e.g. the unit abstraction for default_units)
    __slots__ = ("locals", "globals", "parent", "cells", "qualname", "fn_node", "filename", "loop_ordinals", "generator_items", "nonlocals")

    def __init__(self, globals_, parent=None, cells=None, qualname="?", fn_node=None, filename=None):
        self.locals = {}
        self.globals = globals_
        self.parent = parent
        self.cells = cells or {}
        self.qualname = qualname
        self.fn_node = fn_node
        self.filename = filename
        self.loop_ordinals = None
        self.generator_items = None
        self.nonlocals = None

    def lookup(self, name):
        f = self
        while f is not None:
            if name in f.locals:
                return f.locals[name]
            if name in f.cells:
                try:
                    return f.cells[name].cell_contents
                except ValueError:
                    raise NameError(name)
            f = f.parent
        ov = Frame.overrides.get((self.globals.get("__name__"), name), Frame)
        if ov is not Frame:
            return ov
        if name in self.globals:
            return self.globals[name]
        if hasattr(builtins, name):
            return getattr(builtins, name)
        raise NameError("name %r is not defined" % name)

    def env_view(self):
        """all visible local bindings (inner shadows outer), for invariants"""
        out = {}
        chain = []
        f = self
        while f is not None:
            chain.append(f)
            f = f.parent
        for f in reversed(chain):
            for k, c in f.cells.items():
                try:
                    out[k] = c.cell_contents
                except ValueError:
                    pass
            out.update(f.locals)
        return out


class Closure:
    """a function created by interpreting a nested def / lambda; callable from native code"""
    _pyvc_symbolic = False

    def __init__(self, interp, node, frame, qualname, defaults, kwdefaults):
        self.interp = interp
        self.node = node
        self.frame = frame
        self.__qualname__ = qualname
        self.__name__ = getattr(node, "name", "<lambda>")
        self.defaults = defaults
        self.kwdefaults = kwdefaults
        self.__doc__ = None
        self.__module__ = frame.globals.get("__name__", "?")

    def __call__(self, *args, **kwargs):
        return self.interp.call_closure(self, args, kwargs)

    def __get__(self, obj, objtype=None):
        if obj is None:
            return self
        return types.MethodType(self, obj)

    def __repr__(self):
        return "<interpreted %s>" % self.__qualname__


def _assigned_names(nodes):
    """names (re)bound and containers mutated syntactically inside statements"""
    names, mutated = set(), set()

    class V(ast.NodeVisitor):
        def visit_FunctionDef(self, n):
            names.add(n.name)

        def visit_Lambda(self, n):
            pass

        def _target(self, t):
            if isinstance(t, ast.Name):
                names.add(t.id)
            elif isinstance(t, (ast.Tuple, ast.List)):
                for e in t.elts:
                    self._target(e)
            elif isinstance(t, ast.Starred):
                self._target(t.value)
            elif isinstance(t, (ast.Subscript, ast.Attribute)):
                base = t.value
                while isinstance(base, (ast.Subscript, ast.Attribute)):
                    base = base.value
                if isinstance(base, ast.Name):
                    mutated.add(base.id)

        def visit_Assign(self, n):
            for t in n.targets:
                self._target(t)
            self.generic_visit(n)

        def visit_AugAssign(self, n):
            self._target(n.target)
            self.generic_visit(n)

        def visit_AnnAssign(self, n):
            self._target(n.target)
            self.generic_visit(n)

        def visit_For(self, n):
            self._target(n.target)
            self.generic_visit(n)

        def visit_With(self, n):
            for it in n.items:
                if it.optional_vars is not None:
                    self._target(it.optional_vars)
            self.generic_visit(n)

        def visit_NamedExpr(self, n):
            self._target(n.target)
            self.generic_visit(n)

        def visit_Delete(self, n):
            for t in n.targets:
                self._target(t)

        def visit_Call(self, n):
            f = n.func
            if isinstance(f, ast.Attribute) and f.attr in ("append", "extend", "update", "pop", "add", "insert",
                                                         "remove", "setdefault", "clear", "sort", "popitem"):
                base = f.value
                while isinstance(base, (ast.Subscript, ast.Attribute)):
                    base = base.value
                if isinstance(base, ast.Name):
                    mutated.add(base.id)
            self.generic_visit(n)

        def visit_ExceptHandler(self, n):
            if n.name:
                names.add(n.name)
            self.generic_visit(n)

    v = V()
    for n in nodes:
        v.visit(n)
    return names, mutated


def loop_nodes(fn_node):
    """For/While nodes of a function body in source order, not descending into nested defs"""
    out = []

    def rec(n):
        for ch in ast.iter_child_nodes(n):
            if isinstance(ch, (ast.FunctionDef, ast.Lambda, ast.ClassDef, ast.AsyncFunctionDef)):
                continue
            if isinstance(ch, (ast.For, ast.While)):
                out.append(ch)
            rec(ch)
    rec(fn_node)
    out.sort(key=lambda n: (n.lineno, n.col_offset))
    return out


NUMPY_UFUNC_SAFE = {"add", "subtract", "multiply", "divide", "true_divide", "power", "negative", "positive", "square"}   # element-wise: the operators themselves
NUMPY_PROXY_SAFE = {"array", "asarray", "atleast_1d", "atleast_2d", "squeeze", "concatenate", "dot", "sum", "prod", "transpose",
                    "reshape", "ravel", "stack", "vstack", "hstack", "zeros_like", "ones_like", "tile", "reduce", "outer", "diag", "eye"}

BINOPS = {ast.Add: operator.add, ast.Sub: operator.sub, ast.Mult: operator.mul, ast.Div: operator.truediv,
          ast.FloorDiv: operator.floordiv, ast.Mod: operator.mod, ast.Pow: operator.pow,
          ast.BitAnd: operator.and_, ast.BitOr: operator.or_, ast.BitXor: operator.xor,
          ast.LShift: operator.lshift, ast.RShift: operator.rshift, ast.MatMult: operator.matmul}
UNOPS = {ast.USub: operator.neg, ast.UAdd: operator.pos, ast.Invert: operator.invert}
CMPOPS = {ast.Eq: operator.eq, ast.NotEq: operator.ne, ast.Lt: operator.lt, ast.LtE: operator.le,
          ast.Gt: operator.gt, ast.GtE: operator.ge}


class Interp:
    def __init__(self, session, repo_root):
        self.session = session
        self.repo_root = os.path.realpath(repo_root)
        self.stubs = {}           # id(callable) -> stub(interp, *args, **kwargs)
        self.stub_objs = {}       # keep references alive
        self.call_contracts = {}  # key -> contract object (has .apply(interp, args, kwargs))
        self.invariants = {}      # (qualname, ordinal) -> LoopSpec
        self.force_interp = set() # qualnames that are interpreted even on concrete arguments
        self.native_only = set()  # qualnames never interpreted
        self.depth = 0
        self.max_call_depth = 60
        self.trace_calls = []
        self.interpreted = {}     # qualname -> source info (functions whose AST was executed)
        from . import stubs
        stubs.install(self)
        from . import regex
        regex.install(self)
        self.closures = {}        # qualname -> interpreted nested functions created so far

    # ------------------------------------------------------------------ registry
    def register_stub(self, obj, stub):
        self.stubs[id(obj)] = stub
        self.stub_objs[id(obj)] = obj

    def is_repo_function(self, fn):
        code = getattr(fn, "__code__", None)
        if code is None:
            return False
        try:
            return os.path.realpath(code.co_filename).startswith(self.repo_root + os.sep)
        except Exception:
            return False

    def qualname_of(self, fn):
        return "%s:%s" % (getattr(fn, "__module__", "?"), getattr(fn, "__qualname__", getattr(fn, "__name__", "?")))

    # ------------------------------------------------------------------ calling
    def call(self, fn, args=(), kwargs=None):
        kwargs = kwargs or {}
        # contract at call site (modular verification)
        key = getattr(fn, "__func__", fn)
        con = self.call_contracts.get(id(key))
        if con is not None and con.active:
            if isinstance(fn, types.MethodType):
                return con.apply(self, (fn.__self__,) + tuple(args), kwargs)
            return con.apply(self, tuple(args), kwargs)
        if isinstance(fn, functools._lru_cache_wrapper) and (contains_sym(args) or contains_sym(kwargs) or self.call_contracts or self.is_repo_function(fn.__wrapped__)):
            # a cache in front of a pure function does not change what it returns; going through the wrapped function keeps the call inside the
            # interpreter (stand-ins and callee contracts apply) and keeps symbolic values out of the real cache
            fn = fn.__wrapped__
        stub = self.stubs.get(id(fn))
        if stub is None and isinstance(fn, types.BuiltinMethodType) is False:
            stub = self.stubs.get(id(getattr(fn, "__func__", None))) if hasattr(fn, "__func__") else None
            if stub is not None:
                self.check_stub_signature(stub, (self, fn.__self__) + tuple(args), kwargs)
                return stub(self, fn.__self__, *args, **kwargs)
        if stub is not None:
            self.check_stub_signature(stub, (self,) + tuple(args), kwargs)
            return stub(self, *args, **kwargs)
        if isinstance(fn, Closure):
            return self.call_closure(fn, args, kwargs)
        if isinstance(fn, Unknown):
            cur().havoc_used = True
            return Unknown(fn.why + "()")
        if isinstance(fn, types.MethodType):
            f = fn.__func__
            if isinstance(f, Closure):
                return self.call_closure(f, (fn.__self__,) + tuple(args), kwargs)
            if isinstance(f, types.FunctionType) and self.is_repo_function(f):
                return self.call_function(f, (fn.__self__,) + tuple(args), kwargs)
            return self.call_external(fn, args, kwargs)
        if isinstance(fn, types.FunctionType):
            if self.is_repo_function(fn):
                return self.call_function(fn, args, kwargs)
            return self.call_external(fn, args, kwargs)
        if isinstance(fn, functools.partial):
            return self.call(fn.func, tuple(fn.args) + tuple(args), {**fn.keywords, **kwargs})
        if isinstance(fn, type):
            return self.instantiate(fn, args, kwargs)
        if isinstance(fn, types.BuiltinFunctionType) or isinstance(fn, types.BuiltinMethodType):
            return self.call_builtin(fn, args, kwargs)
        # callable instance with __call__ defined in the repo
        callm = getattr(type(fn), "__call__", None)
        if isinstance(callm, types.FunctionType) and self.is_repo_function(callm):
            return self.call_function(callm, (fn,) + tuple(args), kwargs)
        return self.call_external(fn, args, kwargs)

    def check_stub_signature(self, stub, args, kwargs):
        """a stand-in that does not take the call as the code writes it (e.g. a keyword the stand-in names differently) is a limit of the stand-in,
        not a TypeError of the code under verification"""
        try:
            sig = inspect.signature(stub)
        except (TypeError, ValueError):
            return
        try:
            sig.bind(*args, **kwargs)
        except TypeError as ex:
            raise Unsupported("stand-in %s does not accept this call: %s" % (getattr(stub, "__name__", stub), ex))

    def call_external(self, fn, args, kwargs):
        if not (contains_sym(args) or contains_sym(kwargs)):
            return fn(*args, **kwargs)
        mod = getattr(fn, "__module__", "") or ""
        name = getattr(fn, "__qualname__", getattr(fn, "__name__", repr(fn)))
        if mod.startswith("pyvc") or mod.startswith("contracts") or mod.startswith("spec"):
            return fn(*args, **kwargs)
        if mod.split(".")[0] == "numpy" and name.split(".")[-1] in NUMPY_PROXY_SAFE:
            return fn(*args, **kwargs)
        if type(fn).__name__ == "ufunc" and getattr(fn, "__name__", "") in NUMPY_UFUNC_SAFE and not kwargs:
            import numpy as np
            return fn(*[np.asarray(a, dtype=object) if isinstance(a, (list, tuple)) and contains_sym(a) else a for a in args])
        if (mod, name) in self.session.proxy_safe or mod.split(".")[0] in ("operator", "_operator", "itertools", "functools", "collections", "copy"):
            return fn(*args, **kwargs)
        cur().havoc_used = True
        cur().note("external %s.%s called with symbolic arguments -> Unknown" % (mod, name))
        return Unknown("%s.%s" % (mod, name))

    def call_builtin(self, fn, args, kwargs):
        slf = getattr(fn, "__self__", None)
        name = fn.__name__
        from . import stubs
        h = stubs.builtin_method(self, slf, name, args, kwargs)
        if h is not stubs.NOT_HANDLED:
            return h
        return fn(*args, **kwargs)

    def instantiate(self, cls, args, kwargs):
        sym_args = contains_sym(args) or contains_sym(kwargs)
        init = None
        for k in cls.__mro__:
            if "__init__" in k.__dict__:
                init = k.__dict__["__init__"]
                break
        new = None
        for k in cls.__mro__:
            if "__new__" in k.__dict__:
                new = k.__dict__["__new__"]
                newcls = k
                break
        repo_init = isinstance(init, types.FunctionType) and self.is_repo_function(init)
        repo_new = isinstance(new, staticmethod) and isinstance(new.__func__, types.FunctionType) and self.is_repo_function(new.__func__)
        if issubclass(cls, BaseException) and not repo_init:
            return cls(*args, **kwargs)
        if not sym_args and self.qualname_of(cls) not in self.force_interp:
            return cls(*args, **kwargs)
        if repo_new:
            inst = self.call_function(new.__func__, (cls,) + tuple(args), kwargs)
            if isinstance(inst, cls) and repo_init:
                self.call_function(init, (inst,) + tuple(args), kwargs)
            return inst
        if repo_init and (new is None or newcls is object):
            inst = object.__new__(cls)
            self.call_function(init, (inst,) + tuple(args), kwargs)
            return inst
        # builtin container subclasses etc.: let CPython build it (values stay opaque leaves)
        try:
            if repo_init:
                base_new = new.__func__ if isinstance(new, staticmethod) else new
                inst = base_new(cls)
                self.call_function(init, (inst,) + tuple(args), kwargs)
                return inst
            return cls(*args, **kwargs)
        except Unsupported:
            raise
        except TypeError as ex:
            raise Unsupported("cannot instantiate %s with symbolic arguments: %s" % (cls, ex))

    def bind_args(self, node, args, kwargs, defaults, kwdefaults, qualname):
        a = node.args
        pos = list(a.posonlyargs) + list(a.args)
        names = [p.arg for p in pos]
        bound = {}
        args = list(args)
        if len(args) > len(names) and a.vararg is None:
            raise TypeError("%s() takes %d positional arguments but %d were given" % (qualname, len(names), len(args)))
        for n, v in zip(names, args):
            bound[n] = v
        if a.vararg is not None:
            bound[a.vararg.arg] = tuple(args[len(names):])
        kw = dict(kwargs)
        for n in names[len(args):]:
            if n in kw:
                bound[n] = kw.pop(n)
        for n in names:
            if n in kw and n in bound:
                raise TypeError("%s() got multiple values for argument %r" % (qualname, n))
        nd = len(defaults)
        for i, n in enumerate(names):
            if n not in bound:
                j = i - (len(names) - nd)
                if j >= 0:
                    bound[n] = defaults[j]
                else:
                    raise TypeError("%s() missing required positional argument: %r" % (qualname, n))
        for p in a.kwonlyargs:
            if p.arg in kw:
                bound[p.arg] = kw.pop(p.arg)
            elif kwdefaults and p.arg in kwdefaults:
                bound[p.arg] = kwdefaults[p.arg]
            else:
                raise TypeError("%s() missing keyword-only argument %r" % (qualname, p.arg))
        if a.kwarg is not None:
            bound[a.kwarg.arg] = kw
        elif kw:
            raise TypeError("%s() got an unexpected keyword argument %r" % (qualname, next(iter(kw))))
        return bound

    def call_function(self, fn, args, kwargs):
        """real function object of the repository"""
        qn = self.qualname_of(fn)
        if qn in self.native_only:
            return fn(*args, **kwargs)
        if not (contains_sym(args) or contains_sym(kwargs) or qn in self.force_interp or self._closure_symbolic(fn) or self.call_contracts):
            return fn(*args, **kwargs)
        node, filename, sha = func_node(fn)
        if qn not in self.interpreted:
            self.interpreted[qn] = source_segment(fn)
        cells = {}
        if fn.__closure__:
            cells = dict(zip(fn.__code__.co_freevars, fn.__closure__))
        frame = Frame(fn.__globals__, None, cells, qn, node, filename)
        defaults = fn.__defaults__ or ()
        kwdefaults = fn.__kwdefaults__ or {}
        frame.locals.update(self.bind_args(node, args, kwargs, defaults, kwdefaults, qn))
        return self.run_body(node, frame)

    def _closure_symbolic(self, fn):
        if not fn.__closure__:
            return False
        for c in fn.__closure__:
            try:
                if contains_sym(c.cell_contents):
                    return True
            except ValueError:
                pass
        return False

    def call_closure(self, clo, args, kwargs):
        node = clo.node
        frame = Frame(clo.frame.globals, clo.frame, None, clo.__qualname__, node, clo.frame.filename)
        frame.locals.update(self.bind_args(node, args, kwargs, clo.defaults, clo.kwdefaults, clo.__qualname__))
        return self.run_body(node, frame)

    def run_body(self, node, frame):
        self.depth += 1
        if self.depth > self.max_call_depth:
            self.depth -= 1
            raise Unsupported("call depth > %d" % self.max_call_depth)
        try:
            if isinstance(node, ast.Lambda):
                return self.eval(node.body, frame)
            if _is_generator(node):
                frame.generator_items = []
                try:
                    self.exec_block(node.body, frame)
                except _Return:
                    pass
                from .stubs import EngineIter
                return EngineIter(frame.generator_items) if all(not isinstance(x, _SymYield) for x in frame.generator_items) else _gen_to_seq(frame.generator_items)
            try:
                self.exec_block(node.body, frame)
            except _Return as r:
                return r.value
            return None
        finally:
            self.depth -= 1

    # ------------------------------------------------------------------ statements
    def exec_block(self, stmts, frame):
        for st in stmts:
            self.exec_stmt(st, frame)

    def exec_stmt(self, st, frame):
        m = getattr(self, "s_" + type(st).__name__, None)
        if m is None:
            raise Unsupported("statement %s at %s:%d" % (type(st).__name__, frame.filename, st.lineno))
        return m(st, frame)

    def s_Expr(self, st, frame):
        if isinstance(st.value, ast.Constant):
            return
        if isinstance(st.value, (ast.Yield, ast.YieldFrom)):
            self.eval(st.value, frame)
            return
        self.eval(st.value, frame)

    def s_Pass(self, st, frame):
        pass

    def s_Return(self, st, frame):
        raise _Return(self.eval(st.value, frame) if st.value is not None else None)

    def s_Break(self, st, frame):
        raise _Break()

    def s_Continue(self, st, frame):
        raise _Continue()

    def s_Assign(self, st, frame):
        v = self.eval(st.value, frame)
        for t in st.targets:
            self.assign(t, v, frame)

    def s_AnnAssign(self, st, frame):
        if st.value is not None:
            self.assign(st.target, self.eval(st.value, frame), frame)

    def s_AugAssign(self, st, frame):
        t = st.target
        op = BINOPS[type(st.op)]
        iop = {ast.Add: operator.iadd, ast.Sub: operator.isub, ast.Mult: operator.imul, ast.Div: operator.itruediv,
               ast.FloorDiv: operator.ifloordiv, ast.Mod: operator.imod, ast.Pow: operator.ipow,
               ast.BitOr: operator.ior, ast.BitAnd: operator.iand}.get(type(st.op), op)
        rhs = self.eval(st.value, frame)
        if isinstance(t, ast.Name):
            cur_v = frame.lookup(t.id)
            self.assign(t, self.binop(iop, cur_v, rhs, inplace=True), frame)
        elif isinstance(t, ast.Subscript):
            base = self.eval(t.value, frame)
            idx = self.eval_index(t.slice, frame)
            cur_v = self.getitem(base, idx)
            self.setitem(base, idx, self.binop(iop, cur_v, rhs, inplace=True))
        elif isinstance(t, ast.Attribute):
            base = self.eval(t.value, frame)
            cur_v = self.getattr_(base, t.attr)
            self.setattr_(base, t.attr, self.binop(iop, cur_v, rhs, inplace=True))
        else:
            raise Unsupported("augmented assignment target")

    def s_If(self, st, frame):
        if self.truth(self.eval(st.test, frame)):
            self.exec_block(st.body, frame)
        else:
            self.exec_block(st.orelse, frame)

    def s_Assert(self, st, frame):
        if not self.truth(self.eval(st.test, frame)):
            raise AssertionError(self.eval(st.msg, frame) if st.msg is not None else "")

    def s_Raise(self, st, frame):
        if st.exc is None:
            raise  # re-raise active exception
        exc = self.eval(st.exc, frame)
        if isinstance(exc, type):
            exc = exc()
        if st.cause is not None:
            raise exc from self.eval(st.cause, frame)
        raise exc

    def s_Try(self, st, frame):
        try:
            try:
                self.exec_block(st.body, frame)
            except Exception as ex:
                reraise_unsupported(ex)
                for h in st.handlers:
                    if h.type is None:
                        match = True
                    else:
                        types_ = self.eval(h.type, frame)
                        match = isinstance(ex, types_)
                    if match:
                        if h.name:
                            frame.locals[h.name] = ex
                        self.exec_block(h.body, frame)
                        break
                else:
                    raise
            else:
                self.exec_block(st.orelse, frame)
        finally:
            if st.finalbody:
                self.exec_block(st.finalbody, frame)

    def s_FunctionDef(self, st, frame):
        defaults = tuple(self.eval(d, frame) for d in st.args.defaults)
        kwdefaults = {a.arg: self.eval(d, frame) for a, d in zip(st.args.kwonlyargs, st.args.kw_defaults) if d is not None}
        clo = Closure(self, st, frame, frame.qualname + ".<locals>." + st.name, defaults, kwdefaults)
        self.closures[clo.__qualname__] = clo
        fnv = clo
        for dec in reversed(st.decorator_list):
            d = self.eval(dec, frame)
            fnv = self.call(d, (fnv,), {})
        frame.locals[st.name] = fnv

    def s_Import(self, st, frame):
        for a in st.names:
            mod = __import__(a.name)
            if a.asname:
                for part in a.name.split(".")[1:]:
                    mod = getattr(mod, part)
                frame.locals[a.asname] = mod
            else:
                frame.locals[a.name.split(".")[0]] = mod

    def s_ImportFrom(self, st, frame):
        pkg = frame.globals.get("__package__") or frame.globals.get("__name__", "").rpartition(".")[0]
        import importlib
        name = "." * st.level + (st.module or "")
        mod = importlib.import_module(name, pkg) if st.level else importlib.import_module(st.module)
        for a in st.names:
            try:
                v = getattr(mod, a.name)
            except AttributeError:
                v = importlib.import_module(mod.__name__ + "." + a.name)
            frame.locals[a.asname or a.name] = v

    def s_Delete(self, st, frame):
        for t in st.targets:
            if isinstance(t, ast.Name):
                del frame.locals[t.id]
            elif isinstance(t, ast.Subscript):
                base = self.eval(t.value, frame)
                idx = self.eval_index(t.slice, frame)
                del base[idx]
            else:
                raise Unsupported("del target")

    def s_Match(self, st, frame):
        """`match` as the if/elif chain it abbreviates, for the patterns that need no protocol: literals and constants (==, `is` for None/True/False),
        captures and the wildcard, or-patterns, class patterns without arguments (isinstance), sequence patterns of fixed length, `as`, guards.
        Mapping patterns, star patterns and class patterns with arguments are outside the subset."""
        subject = self.eval(st.subject, frame)
        for case in st.cases:
            binds = {}
            if self.match_pattern(case.pattern, subject, frame, binds):
                for k, val in binds.items():
                    frame.locals[k] = val
                if case.guard is None or self.truth(self.eval(case.guard, frame)):
                    return self.exec_block(case.body, frame)

    def match_pattern(self, pat, subject, frame, binds):
        if isinstance(pat, ast.MatchValue):
            return self.truth(self.compare(ast.Eq(), subject, self.eval(pat.value, frame)))
        if isinstance(pat, ast.MatchSingleton):
            return subject is pat.value
        if isinstance(pat, ast.MatchAs):
            if pat.pattern is not None and not self.match_pattern(pat.pattern, subject, frame, binds):
                return False
            if pat.name is not None:
                binds[pat.name] = subject
            return True
        if isinstance(pat, ast.MatchOr):
            for alt in pat.patterns:
                b = {}
                if self.match_pattern(alt, subject, frame, b):
                    binds.update(b)
                    return True
            return False
        if isinstance(pat, ast.MatchClass) and not pat.patterns and not pat.kwd_patterns:
            from .stubs import b_isinstance
            return self.truth(b_isinstance(self, subject, self.eval(pat.cls, frame)))
        if isinstance(pat, ast.MatchSequence) and not any(isinstance(x, ast.MatchStar) for x in pat.patterns):
            if isinstance(subject, (str, bytes, dict, set, frozenset, SymDict)) or (isinstance(subject, Sym)):
                return False                     # strings and mappings are no sequences for `match`
            if isinstance(subject, SymSeq) and not subject.concrete_len():
                if not self.truth(subject.sym_len() == len(pat.patterns)):
                    return False
                items = [subject.at(i) for i in range(len(pat.patterns))]
            elif isinstance(subject, (list, tuple, SymSeq)):
                items = list(subject)
                if len(items) != len(pat.patterns):
                    return False
            elif isinstance(subject, S.ManyParts):
                if len(pat.patterns) <= 2:
                    return False                 # at least three parts
                raise Unsupported("match: three or more parts of a symbolic split")
            else:
                raise Unsupported("match: sequence pattern on %s" % type(subject).__name__)
            return all(self.match_pattern(p, x, frame, binds) for p, x in zip(pat.patterns, items))
        raise Unsupported("match pattern %s" % type(pat).__name__)

    def s_Global(self, st, frame):
        raise Unsupported("global statement")

    def s_Nonlocal(self, st, frame):
        # the names are rebound where an enclosing function binds them (see assign)
        if frame.nonlocals is None:
            frame.nonlocals = set()
        frame.nonlocals.update(st.names)

    def s_With(self, st, frame):
        # only context managers without symbolic involvement (warnings.catch_warnings, ...)
        if len(st.items) != 1:
            raise Unsupported("with: several items")
        cm = self.eval(st.items[0].context_expr, frame)
        if contains_sym(cm):
            raise Unsupported("with on symbolic value")
        with cm as v:
            if st.items[0].optional_vars is not None:
                self.assign(st.items[0].optional_vars, v, frame)
            self.exec_block(st.body, frame)

    # ---- loops
    def loop_ordinal(self, frame, st):
        if frame.loop_ordinals is None:
            frame.loop_ordinals = {id(n): i for i, n in enumerate(loop_nodes(frame.fn_node))} if frame.fn_node is not None else {}
        return frame.loop_ordinals.get(id(st))

    def s_For(self, st, frame):
        it = self.eval(st.iter, frame)
        seq = self.as_iterable(it)
        if isinstance(seq, SymSeq) and not seq.concrete_len():
            return self.symbolic_for(st, frame, seq)
        if isinstance(seq, Unknown):
            return self.havoc_loop(st, frame, "iteration over %r" % seq)
        broke = False
        for item in seq:
            self.assign(st.target, item, frame)
            try:
                self.exec_block(st.body, frame)
            except _Break:
                broke = True
                break
            except _Continue:
                continue
        if not broke:
            self.exec_block(st.orelse, frame)

    def as_iterable(self, it):
        if isinstance(it, SymDict):
            return it.keys()
        return it

    def s_While(self, st, frame):
        spec = self.invariants.get((frame.qualname, self.loop_ordinal(frame, st)))
        if spec is not None:
            return self.symbolic_while(st, frame, spec)
        n = 0
        broke = False
        while self.truth(self.eval(st.test, frame)):
            n += 1
            if n > self.session.max_unroll:
                raise Unsupported("while loop unrolled more than %d times without invariant" % self.session.max_unroll)
            try:
                self.exec_block(st.body, frame)
            except _Break:
                broke = True
                break
            except _Continue:
                continue
        if not broke:
            self.exec_block(st.orelse, frame)

    def carried_names(self, st, frame):
        """names bound before the loop and (re)bound or mutated in its body (loop targets excluded)"""
        names, mutated = _assigned_names(st.body + ([st] if isinstance(st, ast.For) else []))
        tn = set()
        if isinstance(st, ast.For):
            tn, _ = _assigned_names([ast.Assign(targets=[st.target], value=ast.Constant(value=None))])
        out = []
        for n in sorted((names | mutated) - tn):
            try:
                frame.lookup(n)
            except NameError:
                continue
            out.append(n)
        return out

    def inv_env(self, frame, carried):
        """what an invariant sees: all visible bindings, plus '@acc' = the single loop-carried variable (so that an invariant about
        'the accumulator' does not depend on what the code calls it)"""
        env = frame.env_view()
        if len(carried) == 1:
            env["@acc"] = env[carried[0]]
        env["@carried"] = tuple(carried)
        return env

    def havoc_vars(self, st, frame, spec):
        names, mutated = _assigned_names(st.body + ([st] if isinstance(st, ast.For) else []))
        if isinstance(st, ast.For):
            tn, _ = _assigned_names([ast.Assign(targets=[st.target], value=ast.Constant(value=None))])
        else:
            tn = set()
        by_role = spec.shapes if (spec is not None and callable(spec.shapes)) else None      # shapes(name, old) -> new value or None: by role, not by name
        shapes = dict(spec.shapes) if (spec is not None and by_role is None) else {}
        out = []
        for n in sorted((names | mutated) - tn):
            try:
                old = frame.lookup(n)
            except NameError:
                continue
            new = by_role(n, old) if by_role is not None else None
            if new is not None:
                pass
            elif n in shapes:
                new = shapes[n](n, old)
            else:
                new = fresh_like(old, n)
            self.rebind(n, new, frame)
            out.append(n)
        return out

    def rebind(self, name, value, frame):
        f = frame
        while f is not None:
            if name in f.locals:
                f.locals[name] = value
                return
            f = f.parent
        frame.locals[name] = value

    def symbolic_for(self, st, frame, seq):
        p = cur()
        ordinal = self.loop_ordinal(frame, st)
        spec = self.invariants.get((frame.qualname, ordinal))
        if spec is None:
            # invariant given for a loop by its shape (wherever the loop lives: a helper the loop was moved into, another ordinal)
            for where, sp in self.invariants.get("@where", []):
                if where(st, frame, seq):
                    spec = sp
                    break
        if spec is None and self.append_only_loop(st, frame, seq):
            return
        if spec is None:
            return self.havoc_loop(st, frame, "for-loop %s#%s over symbolic sequence without invariant" % (frame.qualname, ordinal))
        base = "%s.%s.loop%d" % (self.session.name, spec.label or frame.qualname.split(":")[-1], ordinal)
        n = seq.sym_len()
        spec.used = True
        carried = self.carried_names(st, frame)
        p.prove(base + ".init", self.eval_inv(spec, base, self.inv_env(frame, carried), 0, seq))
        self.havoc_vars(st, frame, spec)
        i = Sym(z3.Int(fresh_name("i")))
        p.assume(z3.And(to_z3(i) >= 0, to_z3(i) <= to_z3(n)))
        from .spec import add_fold_point
        add_fold_point(p, i)
        p.assume(to_z3(self.eval_inv(spec, base, self.inv_env(frame, carried), i, seq)))
        p.ghost[(frame.qualname, ordinal)] = i
        if p.branch(to_z3(i) < to_z3(n)):
            self.assign(st.target, seq.at(i), frame)
            try:
                self.exec_block(st.body, frame)
            except _Break:
                return
            except _Continue:
                pass
            p.prove(base + ".pres", self.eval_inv(spec, base, self.inv_env(frame, carried), i + 1, seq))
            raise PathAbort()
        else:
            p.assume(to_z3(i) == to_z3(n))
            self.exec_block(st.orelse, frame)

    def append_only_loop(self, st, frame, seq):
        """`for x in seq: acc.append(e(x))` with acc a fresh empty list and e not reading acc is the list comprehension [e(x) for x in seq]:
        handled like one (no invariant needed).  Anything else: not recognised."""
        if st.orelse or len(st.body) != 1 or not isinstance(st.body[0], ast.Expr):
            return False
        call = st.body[0].value
        if not (isinstance(call, ast.Call) and isinstance(call.func, ast.Attribute) and call.func.attr == "append"
                and isinstance(call.func.value, ast.Name) and len(call.args) == 1 and not call.keywords and not isinstance(call.args[0], ast.Starred)):
            return False
        acc = call.func.value.id
        targets = {n.id for n in ast.walk(st.target) if isinstance(n, ast.Name)}
        reads = {n.id for n in ast.walk(call.args[0]) if isinstance(n, ast.Name)}
        if acc in targets or acc in reads or any(isinstance(n, (ast.NamedExpr, ast.Yield, ast.YieldFrom, ast.Await)) for n in ast.walk(call.args[0])):
            return False
        if acc not in frame.locals or type(frame.locals[acc]) is not list or frame.locals[acc]:
            return False
        # the list must not be reachable under another name (an alias would not see the rebinding below)
        probe = []
        frame.locals["@probe"] = probe
        aliased = sys.getrefcount(frame.locals[acc]) > sys.getrefcount(frame.locals["@probe"]) - 1
        del frame.locals["@probe"]
        if aliased:
            return False
        elt = call.args[0]

        def at(i):
            cframe = Frame(frame.globals, frame, None, frame.qualname, frame.fn_node, frame.filename)
            self.assign(st.target, seq.at(i), cframe)
            return self.eval(elt, cframe)
        frame.locals[acc] = SymSeq(seq.sym_len(), at, "appendloop@%d" % st.lineno)
        for n in targets:
            frame.locals[n] = Unknown("loop variable %s after a loop over a symbolic sequence" % n)
        return True

    def eval_inv(self, spec, base, env, i, seq):
        """the contract's invariant, evaluated on the loop's state.  An exception raised in there (a local the invariant names is not there any more,
        an element of another shape than it expects, ...) means the invariant does not fit the loop as it is written now: a stale proof aid (undecided),
        not a behaviour of the program under verification."""
        try:
            return spec.inv(env, i, seq)
        except (Unsupported, Infeasible, PathAbort):
            raise
        except Exception as ex:
            raise Unsupported("the loop invariant %s does not fit the loop as written (%s: %s)" % (base, type(ex).__name__, str(ex)[:120]))

    def symbolic_while(self, st, frame, spec):
        p = cur()
        ordinal = self.loop_ordinal(frame, st)
        base = "%s.%s.loop%d" % (self.session.name, spec.label or frame.qualname.split(":")[-1], ordinal)
        spec.used = True
        carried = self.carried_names(st, frame)
        p.prove(base + ".init", self.eval_inv(spec, base, self.inv_env(frame, carried), None, None))
        self.havoc_vars(st, frame, spec)
        p.assume(to_z3(self.eval_inv(spec, base, self.inv_env(frame, carried), None, None)))
        variant0 = spec.variant(self.inv_env(frame, carried)) if spec.variant else None
        if self.truth(self.eval(st.test, frame)):
            try:
                self.exec_block(st.body, frame)
            except _Break:
                return
            except _Continue:
                pass
            p.prove(base + ".pres", self.eval_inv(spec, base, self.inv_env(frame, carried), None, None))
            if variant0 is not None:
                v1 = spec.variant(self.inv_env(frame, carried))
                p.prove(base + ".variant", z3.And(to_z3(v1) < to_z3(variant0), to_z3(variant0) >= 0))
            raise PathAbort()
        else:
            self.exec_block(st.orelse, frame)

    def havoc_loop(self, st, frame, why):
        p = cur()
        if not self.session.allow_havoc:
            raise Unsupported(why)
        p.havoc_used = True
        p.note("havoc: " + why)
        names, mutated = _assigned_names(st.body + ([st] if isinstance(st, ast.For) else []))
        for n in sorted(names | mutated):
            try:
                frame.lookup(n)
            except NameError:
                continue
            self.rebind(n, Unknown("havoc:" + n), frame)
        # the loop may also exit through return/raise inside the body: over-approximate by
        # additionally exploring one symbolic iteration from the havocked state
        if Unknown("").__bool__():
            if isinstance(st, ast.For):
                self.assign(st.target, Unknown("havoc:item"), frame)
            try:
                self.exec_block(st.body, frame)
            except (_Break, _Continue):
                pass
            for n in sorted(names | mutated):
                try:
                    frame.lookup(n)
                except NameError:
                    continue
                self.rebind(n, Unknown("havoc:" + n), frame)

    # ------------------------------------------------------------------ assignment
    def assign(self, target, value, frame):
        if isinstance(target, ast.Name):
            if frame.nonlocals and target.id in frame.nonlocals:
                f = frame.parent
                while f is not None:
                    if target.id in f.locals:
                        f.locals[target.id] = value
                        return
                    if target.id in f.cells:
                        f.cells[target.id].cell_contents = value
                        return
                    f = f.parent
                raise Unsupported("nonlocal %s: no enclosing binding found" % target.id)
            frame.locals[target.id] = value
        elif isinstance(target, (ast.Tuple, ast.List)):
            vals = self.unpack(value, len(target.elts), target)
            for t, v in zip(target.elts, vals):
                self.assign(t, v, frame)
        elif isinstance(target, ast.Subscript):
            base = self.eval(target.value, frame)
            idx = self.eval_index(target.slice, frame)
            self.setitem(base, idx, value, frame=frame, target=target)
        elif isinstance(target, ast.Attribute):
            base = self.eval(target.value, frame)
            self.setattr_(base, self.mangle(target.attr, frame), value)
        elif isinstance(target, ast.Starred):     # `first, *rest = ...`: unpack() has collected the middle part
            self.assign(target.value, list(value), frame)
        else:
            raise Unsupported("assignment target %s" % type(target).__name__)

    def unpack(self, value, n, target):
        if any(isinstance(e, ast.Starred) for e in target.elts):
            vals = list(value)
            k = [isinstance(e, ast.Starred) for e in target.elts].index(True)
            rest = len(target.elts) - k - 1
            return vals[:k] + [vals[k:len(vals) - rest]] + vals[len(vals) - rest:]
        if isinstance(value, SymSeq):
            ln = value.sym_len()
            if isinstance(ln, int):
                vals = [value.at(i) for i in range(ln)]
            else:
                cur().oblige_or_raise(to_z3(ln) == n, ValueError, "unpack length mismatch")
                vals = [value.at(i) for i in range(n)]
        elif isinstance(value, Unknown):
            vals = [Unknown(value.why + "[%d]" % i) for i in range(n)]
        elif isinstance(value, S.ManyParts):
            if n <= 2:
                raise ValueError("too many values to unpack (expected %d)" % n)
            raise Unsupported("unpacking >2 parts of a symbolic split")
        elif isinstance(value, Sym) and value.kind != "str":
            raise TypeError("cannot unpack non-iterable %s object" % {"int": "int", "real": "float", "bool": "bool"}[value.kind])
        else:
            vals = list(value)
        if len(vals) != n:
            raise ValueError("not enough values to unpack" if len(vals) < n else "too many values to unpack (expected %d)" % n)
        return vals

    def setitem(self, base, idx, value, frame=None, target=None):
        if isinstance(base, dict) and not isinstance(base, SymDict) and isinstance(idx, Sym):
            # symbolic key stored into a python dict: if it equals an existing key, update it; else insert
            for k in list(base.keys()):
                if self.truth(k == idx):
                    base[k] = value
                    return
            if type(base) is dict and frame is not None and isinstance(target.value, ast.Name):
                sd = dict_to_symdict(base, target.value.id, idx, value)
                sd[idx] = value
                self.rebind(target.value.id, sd, frame)
                return
            raise Unsupported("symbolic key stored into python dict of type %s" % type(base).__name__)
        if isinstance(base, list) and isinstance(idx, Sym):
            n = len(base)
            p = cur()
            for j in range(n):
                if p.branch(to_z3(idx) == j):
                    base[j] = value
                    return
            raise IndexError("list assignment index out of range")
        base[idx] = value

    def setattr_(self, base, name, value):
        if isinstance(base, Unknown):
            return
        setattr(base, name, value)

    # ------------------------------------------------------------------ expressions
    def eval(self, node, frame):
        m = getattr(self, "e_" + type(node).__name__, None)
        if m is None:
            raise Unsupported("expression %s at %s:%d" % (type(node).__name__, frame.filename, getattr(node, "lineno", 0)))
        return m(node, frame)

    def e_Constant(self, node, frame):
        return node.value

    def e_Name(self, node, frame):
        return frame.lookup(node.id)

    def e_Tuple(self, node, frame):
        return tuple(self.eval_elts(node.elts, frame))

    def e_List(self, node, frame):
        return list(self.eval_elts(node.elts, frame))

    def e_Set(self, node, frame):
        return set(self.eval_elts(node.elts, frame))

    def eval_elts(self, elts, frame):
        out = []
        for e in elts:
            if isinstance(e, ast.Starred):
                out.extend(self.eval(e.value, frame))
            else:
                out.append(self.eval(e, frame))
        return out

    def e_Dict(self, node, frame):
        d = {}
        for k, v in zip(node.keys, node.values):
            if k is None:
                m = self.eval(v, frame)
                if isinstance(m, SymDict):
                    if d:
                        raise Unsupported("dict display: **mapping of symbolic size after other entries")
                    d = m.copy()         # {**m, k: v, ...}: a copy of m with the further entries stored into it
                else:
                    d.update(m)
            else:
                d[self.eval(k, frame)] = self.eval(v, frame)
        return d

    def e_JoinedStr(self, node, frame):
        parts = []
        for v in node.values:
            if isinstance(v, ast.Constant):
                parts.append(v.value)
            else:
                val = self.eval(v.value, frame)
                if contains_sym(val):
                    from .stubs import b_str, OpaqueStr
                    if v.format_spec is None and v.conversion in (-1, ord("s")) and isinstance(val, Sym):
                        parts.append(b_str(self, val))      # `{x}` of a symbolic scalar is str(x)
                    else:
                        parts.append(OpaqueStr("<sym>"))    # content not modelled (messages); comparing it is outside the subset
                else:
                    spec = self.eval(v.format_spec, frame) if v.format_spec is not None else ""
                    if v.conversion == ord("r"):
                        val = repr(val)
                    elif v.conversion == ord("s"):
                        val = str(val)
                    parts.append(format(val, spec))
        if any(isinstance(x, Sym) for x in parts):
            return wrap(z3.simplify(z3.Concat(*[x.e if isinstance(x, Sym) else z3.StringVal(x) for x in parts]))) if len(parts) > 1 else parts[0]
        if any(type(x).__name__ == "OpaqueStr" for x in parts):
            from .stubs import OpaqueStr
            return OpaqueStr("".join(parts))
        return "".join(parts)

    def e_FormattedValue(self, node, frame):
        return format(self.eval(node.value, frame))

    def e_Attribute(self, node, frame):
        return self.getattr_(self.eval(node.value, frame), self.mangle(node.attr, frame))

    def mangle(self, attr, frame):
        if attr.startswith("__") and not attr.endswith("__"):
            parts = frame.qualname.split(":")[-1].split(".")
            # innermost enclosing class: component before the function name that is not '<locals>'
            for i in range(len(parts) - 2, -1, -1):
                if parts[i] != "<locals>" and (i == 0 or parts[i - 1] != "<locals>" or parts[i][:1].isupper() or True):
                    cls = parts[i]
                    if cls.startswith("<"):
                        continue
                    return "_%s%s" % (cls.lstrip("_"), attr)
        return attr

    def e_Subscript(self, node, frame):
        base = self.eval(node.value, frame)
        idx = self.eval_index(node.slice, frame)
        return self.getitem(base, idx)

    def eval_index(self, sl, frame):
        if isinstance(sl, ast.Slice):
            return slice(self.eval(sl.lower, frame) if sl.lower is not None else None,
                         self.eval(sl.upper, frame) if sl.upper is not None else None,
                         self.eval(sl.step, frame) if sl.step is not None else None)
        if isinstance(sl, ast.Tuple):
            return tuple(self.eval_index(e, frame) for e in sl.elts)
        return self.eval(sl, frame)

    def e_Slice(self, node, frame):
        return self.eval_index(node, frame)

    def getitem(self, base, idx):
        if isinstance(idx, Sym) and not isinstance(base, (Sym, SymSeq, SymDict, Unknown)):
            if isinstance(base, dict):
                p = cur()
                for k in base:
                    eq = (k == idx)
                    if self.truth(eq):
                        return base[k]
                raise KeyError(idx)
            if isinstance(base, (list, tuple)) and base and all(isinstance(x, (int, float, Sym)) and not isinstance(x, bool) for x in base):
                n = len(base)
                ei = to_z3(idx)
                ei2 = z3.If(ei < 0, ei + n, ei)
                cur().oblige_or_raise(z3.And(ei2 >= 0, ei2 < n), IndexError, "index out of range")
                from .spec import select
                return select(base, wrap_num(ei2))
            if isinstance(base, (list, tuple)):
                n = len(base)
                p = cur()
                ei = to_z3(idx)
                for j in range(n):
                    if p.branch(z3.Or(ei == j, ei == j - n)):
                        return base[j]
                raise IndexError("index out of range")
            if isinstance(base, str):
                return Sym(z3.StringVal(base))[idx]
        if isinstance(base, str) and isinstance(idx, slice) and contains_sym((idx.start, idx.stop)):
            return Sym(z3.StringVal(base))[idx]
        return base[idx]

    def e_BinOp(self, node, frame):
        a = self.eval(node.left, frame)
        b = self.eval(node.right, frame)
        return self.binop(BINOPS[type(node.op)], a, b, node=node)

    _DUNDER = {operator.add: "add", operator.sub: "sub", operator.mul: "mul", operator.truediv: "truediv", operator.floordiv: "floordiv",
               operator.mod: "mod", operator.pow: "pow", operator.and_: "and", operator.or_: "or", operator.xor: "xor", operator.matmul: "matmul",
               operator.iadd: "add", operator.isub: "sub", operator.imul: "mul", operator.itruediv: "truediv", operator.ifloordiv: "floordiv",
               operator.imod: "mod", operator.ipow: "pow", operator.ior: "or", operator.iand: "and"}
    _INPLACE = {operator.iadd, operator.isub, operator.imul, operator.itruediv, operator.ifloordiv, operator.imod, operator.ipow, operator.ior, operator.iand}

    def _repo_dunder(self, obj, name):
        cls = type(obj)
        if not self._is_repo_class(cls):
            return None
        for k in cls.__mro__:
            if name in k.__dict__:
                f = k.__dict__[name]
                if isinstance(f, types.FunctionType) and self.is_repo_function(f):
                    return f
                return None
        return None

    def dispatch_binop(self, op, a, b):
        """python's binary operator protocol, routed through the interpreter for repository classes"""
        nm = self._DUNDER.get(op)
        if nm is None or not (contains_sym(a) or contains_sym(b)):
            return NotImplemented
        fa_i = self._repo_dunder(a, "__i%s__" % nm) if op in self._INPLACE else None
        fa = self._repo_dunder(a, "__%s__" % nm)
        fb = self._repo_dunder(b, "__r%s__" % nm)
        if fa_i is None and fa is None and fb is None:
            return NotImplemented
        if fa_i is not None:
            r = self.call_function(fa_i, (a, b), {})
            if r is not NotImplemented:
                return r
        right_first = fb is not None and type(b) is not type(a) and isinstance(b, type(a))
        if right_first:
            r = self.call_function(fb, (b, a), {})
            if r is not NotImplemented:
                return r
        if fa is not None:
            r = self.call_function(fa, (a, b), {})
            if r is not NotImplemented:
                return r
        elif hasattr(type(a), "__%s__" % nm) and not isinstance(a, Sym):
            r = getattr(type(a), "__%s__" % nm)(a, b)
            if r is not NotImplemented:
                return r
        if fb is not None and not right_first:
            r = self.call_function(fb, (b, a), {})
            if r is not NotImplemented:
                return r
        return NotImplemented

    def binop(self, op, a, b, inplace=False, node=None):
        r = self.dispatch_binop(op, a, b)
        if r is not NotImplemented:
            return r
        if (op is operator.mod or op is operator.imod) and isinstance(a, str) and contains_sym(b):
            from . import stubs
            return stubs.format_percent(self, a, b)
        if (op in (operator.pow, operator.ipow)) and (isinstance(a, Sym) or isinstance(b, Sym)):
            return S.sym_pow(a, b)
        return op(a, b)

    def e_UnaryOp(self, node, frame):
        v = self.eval(node.operand, frame)
        if isinstance(node.op, ast.Not):
            t = self.bool_value(v)
            if isinstance(t, Sym):
                return wrap(z3.Not(t.e))
            return not t
        if contains_sym(v):
            f = self._repo_dunder(v, {ast.USub: "__neg__", ast.UAdd: "__pos__", ast.Invert: "__invert__"}[type(node.op)])
            if f is not None:
                return self.call_function(f, (v,), {})
        return UNOPS[type(node.op)](v)

    def bool_value(self, v):
        """truthiness as a (possibly symbolic) boolean, without forking"""
        if isinstance(v, Sym):
            if v.kind == "bool":
                return v
            if v.kind in ("int", "real"):
                return wrap(v.e != 0)
            if v.kind == "str":
                return wrap(z3.Length(v.e) != 0)
        if isinstance(v, SymSeq):
            n = v.sym_len()
            return n != 0 if isinstance(n, int) else wrap(to_z3(n) != 0)
        if isinstance(v, SymDict):
            n = v.sym_len()
            return n != 0 if isinstance(n, int) else wrap(to_z3(n) != 0)
        if isinstance(v, Unknown):
            return bool(v)
        if getattr(v, "_pyvc_symbolic", False) and hasattr(v, "sym_len") and "__bool__" not in type(v).__dict__:
            n = v.sym_len()        # python's rule for a container without __bool__: empty is false
            return n != 0 if isinstance(n, int) else wrap(to_z3(n) != 0)
        return bool(v)

    def truth(self, v):
        t = self.bool_value(v)
        if isinstance(t, Sym):
            return cur().branch(t.e)
        return t

    def e_BoolOp(self, node, frame):
        is_and = isinstance(node.op, ast.And)
        val = None
        for i, e in enumerate(node.values):
            val = self.eval(e, frame)
            if i == len(node.values) - 1:
                return val
            t = self.truth(val)
            if is_and and not t:
                return val
            if not is_and and t:
                return val
        return val

    def e_IfExp(self, node, frame):
        test = self.eval(node.test, frame)
        p = cur()
        if getattr(p, "bound_hyps", None):
            c = self.bool_value(test)
            if isinstance(c, Sym) and p.decide_bound(z3.simplify(c.e)) is None:
                # inside a term over a bound variable: `a if c else b` is the term ite(c, a, b), each arm evaluated under its guard
                with p.bound(c.e):
                    a = self.eval(node.body, frame)
                with p.bound(z3.Not(c.e)):
                    b = self.eval(node.orelse, frame)
                try:
                    return S.ite(c, a, b)
                except Exception:
                    raise Unsupported("conditional expression over the element of a symbolic sequence with non-scalar arms")
        if self.truth(test):
            return self.eval(node.body, frame)
        return self.eval(node.orelse, frame)

    def e_Compare(self, node, frame):
        left = self.eval(node.left, frame)
        result = True
        for op, rn in zip(node.ops, node.comparators):
            right = self.eval(rn, frame)
            r = self.compare(op, left, right)
            if len(node.ops) == 1:
                return r
            if not self.truth(r):
                return False
            left = right
        return True

    def compare(self, op, a, b):
        if isinstance(op, ast.Is):
            return self.is_(a, b)
        if isinstance(op, ast.IsNot):
            r = self.is_(a, b)
            return wrap(z3.Not(r.e)) if isinstance(r, Sym) else (not r)
        if isinstance(op, ast.In):
            return self.contains(b, a)
        if isinstance(op, ast.NotIn):
            r = self.contains(b, a)
            return wrap(z3.Not(r.e)) if isinstance(r, Sym) else (not r)
        if contains_sym(a) or contains_sym(b):
            nm = {ast.Eq: "__eq__", ast.NotEq: "__ne__", ast.Lt: "__lt__", ast.LtE: "__le__", ast.Gt: "__gt__", ast.GtE: "__ge__"}[type(op)]
            f = self._repo_dunder(a, nm)
            if f is not None:
                r = self.call_function(f, (a, b), {})
                if r is not NotImplemented:
                    return r
            refl = {"__eq__": "__eq__", "__ne__": "__ne__", "__lt__": "__gt__", "__le__": "__ge__", "__gt__": "__lt__", "__ge__": "__le__"}[nm]
            f = self._repo_dunder(b, refl)
            if f is not None:
                r = self.call_function(f, (b, a), {})
                if r is not NotImplemented:
                    return r
            if nm == "__ne__":
                f = self._repo_dunder(a, "__eq__")
                if f is not None:
                    r = self.call_function(f, (a, b), {})
                    if r is not NotImplemented:
                        t = self.bool_value(r)
                        return wrap(z3.Not(t.e)) if isinstance(t, Sym) else (not t)
        return CMPOPS[type(op)](a, b)

    def is_(self, a, b):
        if isinstance(a, SymOpt) and b is None:
            return wrap(a.isnone)
        if isinstance(b, SymOpt) and a is None:
            return wrap(b.isnone)
        if isinstance(a, Sym) or isinstance(b, Sym):
            if a is None or b is None:
                return False
            if isinstance(a, (bool,)) or isinstance(b, (bool,)):
                sa = a if isinstance(a, Sym) else b
                if sa.kind != "bool":
                    return False
                return a == b
            if isinstance(a, (int, Sym)) and isinstance(b, (int, Sym)):
                return a == b   # A5: `x is 1` on small ints is a value test
            return False
        if isinstance(a, Unknown) or isinstance(b, Unknown):
            return bool(Unknown("is"))
        return a is b

    def contains(self, container, item):
        if isinstance(container, SymDict):
            return container.has(item)
        if isinstance(container, Sym):
            return wrap(z3.Contains(container.e, to_z3(item)))
        if isinstance(container, str) and isinstance(item, Sym):
            return wrap(z3.Contains(z3.StringVal(container), item.e))
        if isinstance(container, Unknown) or isinstance(item, Unknown):
            return bool(Unknown("in"))
        if isinstance(container, SymSeq):
            n = container.sym_len()
            if isinstance(n, int):
                return self._any_eq([container.at(i) for i in range(n)], item)
            j = z3.Int(fresh_name("j"))
            el = container.at(Sym(j))
            return wrap(z3.Exists([j], z3.And(j >= 0, j < to_z3(n), to_z3(el) == to_z3(item))))
        if isinstance(item, Sym) or (isinstance(container, (list, tuple, set, frozenset, dict)) and any(isinstance(x, Sym) for x in container)):
            keys = list(container.keys()) if isinstance(container, dict) else list(container)
            return self._any_eq(keys, item)
        return item in container

    def _any_eq(self, elems, item):
        terms = []
        for e in elems:
            r = (e == item)
            if r is True:
                return True
            if r is False or r is NotImplemented:
                continue
            if isinstance(r, Sym):
                terms.append(r.e)
            else:
                if r:
                    return True
        if not terms:
            return False
        return wrap(z3.Or(*terms))

    def e_Call(self, node, frame):
        fn = self.eval(node.func, frame)
        args = []
        for a in node.args:
            if isinstance(a, ast.Starred):
                args.extend(self.eval(a.value, frame))
            else:
                args.append(self.eval(a, frame))
        kwargs = {}
        for k in node.keywords:
            if k.arg is None:
                kwargs.update(self.eval(k.value, frame))
            else:
                kwargs[k.arg] = self.eval(k.value, frame)
        if fn is builtins.super and not args:
            slf = frame.lookup(frame.fn_node.args.args[0].arg)
            cls = frame.lookup("__class__")
            return super(cls, slf)
        if fn is builtins.locals:
            return frame.locals
        return self.call(fn, args, kwargs)

    def e_Lambda(self, node, frame):
        defaults = tuple(self.eval(d, frame) for d in node.args.defaults)
        kwdefaults = {a.arg: self.eval(d, frame) for a, d in zip(node.args.kwonlyargs, node.args.kw_defaults) if d is not None}
        return Closure(self, node, frame, frame.qualname + ".<locals>.<lambda>", defaults, kwdefaults)

    def e_Starred(self, node, frame):
        raise Unsupported("starred expression")

    def e_NamedExpr(self, node, frame):
        v = self.eval(node.value, frame)
        self.assign(node.target, v, frame)
        return v

    def e_Yield(self, node, frame):
        f = frame
        while f is not None and f.generator_items is None:
            f = f.parent
        if f is None:
            raise Unsupported("yield outside generator frame")
        f.generator_items.append(self.eval(node.value, frame) if node.value is not None else None)
        return None

    def e_YieldFrom(self, node, frame):
        f = frame
        while f is not None and f.generator_items is None:
            f = f.parent
        f.generator_items.extend(list(self.eval(node.value, frame)))
        return None

    # ---- comprehensions
    def _comp(self, node, frame, emit):
        cframe = Frame(frame.globals, frame, None, frame.qualname, frame.fn_node, frame.filename)
        cframe.loop_ordinals = frame.loop_ordinals

        def rec(gi):
            if gi == len(node.generators):
                emit(cframe)
                return
            g = node.generators[gi]
            it = self.as_iterable(self.eval(g.iter, cframe if gi else frame))
            if isinstance(it, SymSeq) and not it.concrete_len():
                raise _SymComp(it, gi)
            if isinstance(it, Unknown):
                raise Unsupported("comprehension over Unknown")
            for item in it:
                self.assign(g.target, item, cframe)
                if all(self.truth(self.eval(c, cframe)) for c in g.ifs):
                    rec(gi + 1)
        rec(0)

    def _sym_comp(self, node, frame, elt_fn, seq):
        if len(node.generators) != 1 or node.generators[0].ifs:
            raise Unsupported("comprehension with filter / several generators over a sequence of symbolic length")
        g = node.generators[0]

        def at(i):
            cframe = Frame(frame.globals, frame, None, frame.qualname, frame.fn_node, frame.filename)
            self.assign(g.target, seq.at(i), cframe)
            return elt_fn(cframe)
        return SymSeq(seq.sym_len(), at, "comp@%d" % node.lineno)

    def e_ListComp(self, node, frame):
        out = []
        try:
            self._comp(node, frame, lambda f: out.append(self.eval(node.elt, f)))
        except _SymComp as sc:
            return self._sym_comp(node, frame, lambda f: self.eval(node.elt, f), sc.seq)
        return out

    def e_GeneratorExp(self, node, frame):
        from .stubs import EngineIter
        r = self.e_ListComp(node, frame)
        return EngineIter(r) if type(r) is list else r

    def e_SetComp(self, node, frame):
        out = []
        self._comp(node, frame, lambda f: out.append(self.eval(node.elt, f)))
        if any(isinstance(x, Sym) for x in out):
            raise Unsupported("set of symbolic values")
        return set(out)

    def e_DictComp(self, node, frame):
        out = {}

        def emit(f):
            out[self.eval(node.key, f)] = self.eval(node.value, f)
        try:
            self._comp(node, frame, emit)
        except _SymComp as sc:
            raise Unsupported("dict comprehension over symbolic sequence")
        return out

    # ------------------------------------------------------------------ attributes
    def getattr_(self, obj, name):
        if isinstance(obj, Sym) and not hasattr(obj, name):
            # a method python's str / int / float has and the symbolic value does not model: a limit of the engine, not an AttributeError of the code
            real = {"str": str, "int": int, "real": float, "bool": bool}.get(obj.kind)
            if name == "is_integer" and obj.kind in ("int", "bool"):
                return lambda: True          # int.is_integer (python >= 3.12): a bound method, always True
            if real is not None and hasattr(real, name):
                raise Unsupported("%s.%s on a symbolic value" % (real.__name__, name))
        if isinstance(obj, (Sym, SymSeq, SymDict, Unknown, SymOpt)):
            return getattr(obj, name)
        cls = type(obj)
        if self._is_repo_class(cls):
            for k in cls.__mro__:
                if name in k.__dict__:
                    d = k.__dict__[name]
                    if isinstance(d, property) and isinstance(d.fget, types.FunctionType) and self.is_repo_function(d.fget):
                        if contains_sym(obj) or self.qualname_of(d.fget) in self.force_interp:
                            return self.call_function(d.fget, (obj,), {})
                    break
        return getattr(obj, name)

    def _is_repo_class(self, cls):
        mod = sys.modules.get(getattr(cls, "__module__", None))
        f = getattr(mod, "__file__", None)
        return bool(f) and os.path.realpath(f).startswith(self.repo_root + os.sep)


def reraise_unsupported(ex):
    """an exception that a library (numpy, ...) raised because a symbolic value refused a conversion carries the engine's Unsupported in its
    chain: that is a limit of the engine, not a behaviour of the program under verification"""
    seen = set()
    e = ex
    while e is not None and id(e) not in seen:
        seen.add(id(e))
        if isinstance(e, Unsupported):
            raise Unsupported("%s (surfaced as %s: %s)" % (e, type(ex).__name__, str(ex)[:80]))
        e = e.__cause__ or e.__context__


class _SymComp(BaseException):
    def __init__(self, seq, gi):
        self.seq = seq
        self.gi = gi


class _SymYield:
    pass


def _gen_to_seq(items):
    raise Unsupported("generator with symbolic yields")


def _is_generator(node):
    if isinstance(node, ast.Lambda):
        return False
    for n in ast.walk(node):
        if isinstance(n, (ast.Yield, ast.YieldFrom)):
            # make sure it is not inside a nested def
            return _yield_in_own_body(node)
    return False


def _yield_in_own_body(fn):
    def rec(n):
        for ch in ast.iter_child_nodes(n):
            if isinstance(ch, (ast.FunctionDef, ast.Lambda, ast.AsyncFunctionDef)):
                continue
            if isinstance(ch, (ast.Yield, ast.YieldFrom)):
                return True
            if rec(ch):
                return True
        return False
    return rec(fn)


class SymOpt:
    """None-or-number accumulator (`tot = None ... tot = x / tot += x`)"""
    _pyvc_symbolic = True

    def __init__(self, isnone, value):
        self.isnone = to_z3(isnone)
        self.value = value

    def _val(self):
        if cur().branch(self.isnone):
            raise TypeError("unsupported operand type(s): 'NoneType'")
        return self.value

    def __add__(self, o): return self._val() + o
    def __radd__(self, o): return o + self._val()
    def __sub__(self, o): return self._val() - o
    def __rsub__(self, o): return o - self._val()
    def __mul__(self, o): return self._val() * o
    def __rmul__(self, o): return o * self._val()
    def __truediv__(self, o): return self._val() / o
    def __rtruediv__(self, o): return o / self._val()
    def __neg__(self): return -self._val()
    def __abs__(self): return abs(self._val())
    def __lt__(self, o): return self._val() < o
    def __le__(self, o): return self._val() <= o
    def __gt__(self, o): return self._val() > o
    def __ge__(self, o): return self._val() >= o

    def __eq__(self, o):
        if o is None:
            return wrap(self.isnone)
        return wrap(z3.And(z3.Not(self.isnone), to_z3(self.value == o)))

    __hash__ = object.__hash__


def fresh_like(old, name):
    """havoc: a fresh value of the same shape as `old`"""
    if isinstance(old, bool):
        return Sym(z3.Bool(fresh_name(name)))
    if isinstance(old, int):
        return Sym(z3.Int(fresh_name(name)))
    if isinstance(old, float):
        return Sym(z3.Real(fresh_name(name)))
    if isinstance(old, Sym):
        return Sym(z3.Const(fresh_name(name), old.e.sort()))
    if isinstance(old, SymDict):
        if not old.scalar():
            raise Unsupported("havoc of structured dict %s" % name)
        return SymDict(name, old.ksort, z3.Const(fresh_name(name + ".dom"), old.dom.sort()),
                       z3.Const(fresh_name(name + ".val"), old.val.sort()), None, old.vkind)
    if isinstance(old, SymOpt):
        return SymOpt(z3.Bool(fresh_name(name + ".isnone")), fresh_like(old.value, name))
    if isinstance(old, Unknown):
        return Unknown("havoc:" + name)
    raise Unsupported("cannot havoc variable %r of type %s; give a shape in the loop contract" % (name, type(old).__name__))


def dict_to_symdict(d, name, newkey, newval):
    kk = "str" if (isinstance(newkey, Sym) and newkey.kind == "str") or isinstance(newkey, str) else "int"
    vk = "real"
    vals = list(d.values()) + [newval]
    if all(isinstance(v, int) or (isinstance(v, Sym) and v.kind == "int") for v in vals):
        vk = "int"
    sd = SymDict.empty(name, kk, vk)
    for k, v in d.items():
        sd[k] = v
    return sd
