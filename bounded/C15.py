"""Bounded stand-in for C15: structural queries on chempy.ReactionSystem match its reaction graph.

Oracles (written from the property statement, none of them calls the method under check):
  * split: union-find over the species of each reaction -> connected components;
  * categorize_substances: per-substance sign sets of the net effect over the irreversible expansion;
  * identify_equilibria / substance_participation / per_reaction_effect_on_substance / subset / + / += / ==:
    list comprehensions over plain (reac, prod, inact_reac, inact_prod) dictionaries;
  * as_per_substance_array / dict / as_substance_index: position in the declared substance order;
  * upper_conc_bounds: min over the elements of a species of (element total)/(atoms per molecule), and
    dominance over every state reached from the initial one through integer extents of exactly balanced
    reactions (null-space vectors of the composition matrix, bounded/_fracla.py).
"""
import json
import math
import random
import multiprocessing as mp
from collections import OrderedDict
from fractions import Fraction
from itertools import permutations, combinations_with_replacement

from ._fracla import nullspace, primitive

NAMES5 = ["A", "B", "C", "D", "E"]
NAMES12 = ["A", "B", "C", "D", "E", "F", "G", "H", "I", "J", "K", "L"]


# ----------------------------------------------------------------------------------------------
# plain-data reactions:  dict(reac=[[k, n]..], prod=.., inact_reac=.., inact_prod=.., param=x, eq=bool)
def _rx(reac, prod, param, inact_reac=None, inact_prod=None, eq=False, name=None):
    return dict(reac=sorted(reac.items()), prod=sorted(prod.items()),
                inact_reac=sorted((inact_reac or {}).items()), inact_prod=sorted((inact_prod or {}).items()),
                param=param, eq=eq, name=name)


def _keys(r):
    return set(k for part in ("reac", "prod", "inact_reac", "inact_prod") for k, _ in r[part])


def _all_reac(r, k):
    return dict(r["reac"]).get(k, 0) + dict(r["inact_reac"]).get(k, 0)


def _all_prod(r, k):
    return dict(r["prod"]).get(k, 0) + dict(r["inact_prod"]).get(k, 0)


def _mk(r):
    from chempy import Reaction, Equilibrium
    cls = Equilibrium if r.get("eq") else Reaction
    param = tuple(r["param"]) if isinstance(r["param"], list) else r["param"]
    return cls(dict(r["reac"]), dict(r["prod"]), param, inact_reac=dict(r["inact_reac"]),
               inact_prod=dict(r["inact_prod"]), name=r.get("name"))


def _mk_sys(rxns, substances, **kw):
    from chempy import ReactionSystem
    return ReactionSystem([_mk(r) for r in rxns], substances, **kw)


def _flavoured(keyset, flavour, param):
    """A reaction whose key set is exactly `keyset` (sorted list)."""
    ks = list(keyset)
    n = len(ks)
    if n == 1:
        return _rx({ks[0]: 1}, {ks[0]: 2}, param) if flavour != 1 else _rx({ks[0]: 3}, {ks[0]: 1}, param)
    if flavour == 1:    # catalyst: last species on both sides with equal coefficients
        cat = ks[-1]
        rest = ks[:-1]
        if len(rest) == 1:
            return _rx({rest[0]: 2, cat: 1}, {rest[0]: 1, cat: 1}, param)
        h = (len(rest) + 1) // 2
        reac = {k: 1 for k in rest[:h]}
        prod = {k: 2 for k in rest[h:]}
        reac[cat] = 2
        prod[cat] = 2
        return _rx(reac, prod, param)
    if flavour == 2:    # last species only as an inactive reactant
        rest = ks[:-1]
        if len(rest) == 1:
            return _rx({rest[0]: 1}, {rest[0]: 2}, param, inact_reac={ks[-1]: 1})
        h = (len(rest) + 1) // 2
        return _rx({k: 1 for k in rest[:h]}, {k: 1 for k in rest[h:]}, param, inact_prod={ks[-1]: 2})
    h = (n + 1) // 2
    return _rx({k: 1 for k in ks[:h]}, {k: 1 for k in ks[h:]}, param)


# ----------------------------------------------------------------------------------------------
# oracle: connected components
def components(keysets):
    parent = {}

    def find(x):
        while parent[x] != x:
            parent[x] = parent[parent[x]]
            x = parent[x]
        return x

    for ks in keysets:
        for k in ks:
            parent.setdefault(k, k)
    for ks in keysets:
        ks = sorted(ks)
        for k in ks[1:]:
            a, b = find(ks[0]), find(k)
            if a != b:
                parent[b] = a
    comp = {}
    for i, ks in enumerate(keysets):
        root = find(sorted(ks)[0])
        c = comp.setdefault(root, (set(), []))
        c[0].update(ks)
        c[1].append(i)
    return sorted((sorted(s), idx) for s, idx in comp.values())


# ----------------------------------------------------------------------------------------------
# 'the reactions' of a part / half / sum: the statement speaks of the reactions, not of Python identity, so a reaction of a result
# counts as original reaction i when it is that very object OR has the same content (the four parts and the constant)
def _same_rxn(obj, r):
    return (dict(obj.reac), dict(obj.prod), dict(obj.inact_reac), dict(obj.inact_prod)) == (
        dict(r["reac"]), dict(r["prod"]), dict(r["inact_reac"]), dict(r["inact_prod"])) and obj.param == (
        tuple(r["param"]) if isinstance(r["param"], list) else r["param"])


def _match(produced, objs, data):
    """One-to-one assignment of the produced reactions to the originals (objs[i] was built from data[i]): for each produced reaction, in
    turn, the index of a not yet taken original that it IS, else the lowest not yet taken original of the same content; None (and the
    offender) when there is none -- a reaction that is no original one, or one original handed out more often than it is there.  'Same
    content' is an equivalence and the very object has the same content, so taking the lowest free index loses no assignment, and it
    gives the indices in ascending order whenever some assignment does."""
    taken = set()
    out = []
    for r in produced:
        hit = [i for i, o in enumerate(objs) if i not in taken and r is o][:1] or [
            i for i, d in enumerate(data) if i not in taken and _same_rxn(r, d)][:1]
        if not hit:
            return None, r
        taken.add(hit[0])
        out.append(hit[0])
    return out, None


def run_split(case):
    rxns = case["rxns"]
    subst = case["substances"]
    try:
        rsys = _mk_sys(rxns, subst)
        objs = list(rsys.rxns)
        parts = rsys.split()
    except Exception as e:
        return False, "split raised %s: %s" % (type(e).__name__, e)
    exp = components([_keys(r) for r in rxns])
    # partition of the reactions: every reaction of every part is one of the originals (the object or an equal copy), each original once
    flat = [r for p in parts for r in p.rxns]
    seen, stray = _match(flat, objs, rxns)
    if seen is None:
        return False, "a part contains a reaction that is none of the original reactions (or one of them once more than the system has it): %s" % stray
    if sorted(seen) != list(range(len(objs))):
        return False, "reaction indices over the parts are %s, not a partition of 0..%d" % (sorted(seen), len(objs) - 1)
    got = []
    pos = 0
    for p in parts:
        pidx = seen[pos:pos + len(p.rxns)]      # the original indices of this part's reactions
        pos += len(p.rxns)
        sk = list(p.substances.keys())
        used = set()
        for r in p.rxns:
            used |= set(r.keys())
        if set(sk) != used:
            return False, "part with reactions %s has substances %s but its reactions use %s" % (
                pidx, sk, sorted(used))
        if [k for k in subst if k in used] != sk:
            return False, "part substances %s not in the parent's order %s" % (sk, subst)
        inner = components([set(r.keys()) for r in p.rxns])
        if len(inner) != 1:
            return False, "part with substances %s is not connected: %s" % (sk, inner)
        got.append((sorted(sk), sorted(pidx)))
    for i in range(len(got)):
        for j in range(i + 1, len(got)):
            both = set(got[i][0]) & set(got[j][0])
            if both:
                return False, "parts %s and %s share %s" % (got[i], got[j], sorted(both))
    if sorted(got) != [(s, sorted(ix)) for s, ix in exp]:
        return False, "parts %s, expected components %s" % (sorted(got), exp)
    return True, "%d part(s)" % len(got)


# ----------------------------------------------------------------------------------------------
# categorize_substances
def expected_categories(rxns, subst):
    irrev = []
    for r in rxns:
        irrev.append(r)
        if r.get("eq"):
            irrev.append(dict(r, reac=r["prod"], prod=r["reac"], inact_reac=r["inact_prod"], inact_prod=r["inact_reac"]))
    out = dict(accumulated=set(), depleted=set(), unaffected=set(), nonparticipating=set())
    for k in subst:
        nets = [_all_prod(r, k) - _all_reac(r, k) for r in irrev]
        present = any(k in _keys(r) for r in irrev)
        pos, neg = any(n > 0 for n in nets), any(n < 0 for n in nets)
        if pos and neg:
            continue
        if pos:
            out["accumulated"].add(k)
        elif neg:
            out["depleted"].add(k)
        elif present:
            out["unaffected"].add(k)
        else:
            out["nonparticipating"].add(k)
    return out


def run_categorize(case):
    try:
        rsys = _mk_sys(case["rxns"], case["substances"])
        got = rsys.categorize_substances()
    except Exception as e:
        return False, "categorize_substances raised %s: %s" % (type(e).__name__, e)
    exp = expected_categories(case["rxns"], case["substances"])
    if set(got.keys()) != set(exp.keys()):
        return False, "categories %s" % sorted(got.keys())
    for k in exp:
        if set(got[k]) != exp[k]:
            return False, "%s = %s, expected %s" % (k, sorted(got[k]), sorted(exp[k]))
    return True, json.dumps({k: sorted(v) for k, v in exp.items()})


# ----------------------------------------------------------------------------------------------
# the list-like queries
def run_queries(case):
    import numpy as np
    rxns, subst = case["rxns"], case["substances"]
    try:
        rsys = _mk_sys(rxns, subst)
    except Exception as e:
        return False, "constructor raised %s: %s" % (type(e).__name__, e)
    if list(rsys.substances.keys()) != subst:
        return False, "substance order %s, given %s" % (list(rsys.substances.keys()), subst)
    if rsys.nr != len(rxns) or rsys.ns != len(subst):
        return False, "nr, ns = %d, %d" % (rsys.nr, rsys.ns)
    objs = list(rsys.rxns)
    try:
        # identify_equilibria: (i, j) iff j is the first later reaction that is i reversed (inactive parts included)
        exp = []
        for i, a in enumerate(rxns):
            for j in range(i + 1, len(rxns)):
                b = rxns[j]
                if all(_all_reac(a, k) == _all_prod(b, k) and _all_prod(a, k) == _all_reac(b, k) for k in subst):
                    exp.append((i, j))
                    break
        got = [tuple(p) for p in rsys.identify_equilibria()]
        if got != exp:
            return False, "identify_equilibria = %s, expected %s" % (got, exp)
        for k in subst + ["Zz"]:
            exp = [i for i, r in enumerate(rxns) if k in _keys(r)]
            got = rsys.substance_participation(k)
            if list(got) != exp:
                return False, "substance_participation(%s) = %s, expected %s" % (k, got, exp)
            exp = {i: _all_prod(r, k) - _all_reac(r, k) for i, r in enumerate(rxns) if _all_prod(r, k) != _all_reac(r, k)}
            got = rsys.per_reaction_effect_on_substance(k)
            if dict(got) != exp:
                return False, "per_reaction_effect_on_substance(%s) = %s, expected %s" % (k, dict(got), exp)
        # subset by a predicate on the reactions
        pk, pthr = case["pred"]
        if pk == "order":
            def pred(r):
                return sum(r.reac.values()) >= pthr
            sel = [sum(n for _, n in r["reac"]) >= pthr for r in rxns]
        else:
            def pred(r):
                return pk in r.keys()
            sel = [pk in _keys(r) for r in rxns]
        yes, no = rsys.subset(pred)
        for part, want in ((yes, True), (no, False)):
            idx = [i for i, s in enumerate(sel) if s == want]
            # the reactions the predicate selects, in the system's order: the objects themselves or equal copies
            if len(part.rxns) != len(idx) or _match(part.rxns, objs, rxns)[0] != idx:
                return False, "subset(%s)[%s] has reactions %s, expected the reactions %s in order" % (
                    case["pred"], want, [str(r) for r in part.rxns], idx)
            used = set()
            for i in idx:
                used |= _keys(rxns[i])
            if list(part.substances.keys()) != [k for k in subst if k in used]:
                return False, "subset(%s)[%s] has substances %s, expected %s" % (
                    case["pred"], want, list(part.substances.keys()), [k for k in subst if k in used])
        # sum of two systems
        other_rx, other_sub = case["other"]["rxns"], case["other"]["substances"]
        other = _mk_sys(other_rx, other_sub)
        tot = rsys + other
        exp_sub = subst + [k for k in other_sub if k not in subst]
        if list(tot.substances.keys()) != exp_sub:
            return False, "(rsys + other).substances = %s, expected %s" % (list(tot.substances.keys()), exp_sub)
        if len(tot.rxns) != len(rxns) + len(other_rx) or _match(
                tot.rxns, objs + list(other.rxns), rxns + other_rx)[0] != list(range(len(rxns) + len(other_rx))):
            return False, "(rsys + other).rxns = %s" % [str(r) for r in tot.rxns]
        if len(rsys.rxns) != len(rxns) or list(rsys.substances.keys()) != subst:
            return False, "rsys + other modified rsys"
        tot2 = rsys + list(other.rxns[:1])
        if len(tot2.rxns) != len(rxns) + min(1, len(other_rx)) or list(tot2.substances.keys()) != subst:
            return False, "rsys + [reaction] gave %d reactions, substances %s" % (len(tot2.rxns), list(tot2.substances.keys()))
        cp = _mk_sys(rxns, subst)
        if not (cp == rsys):
            return False, "a system built from the same data does not compare equal"
        if other_rx and (tot == rsys):
            return False, "rsys + other compares equal to rsys"
        cp += other
        if list(cp.substances.keys()) != exp_sub or len(cp.rxns) != len(rxns) + len(other_rx):
            return False, "rsys += other: substances %s, %d reactions" % (list(cp.substances.keys()), len(cp.rxns))
        if not all(_same_rxn(o, r) for o, r in zip(cp.rxns, rxns + other_rx)):
            return False, "rsys += other: reactions differ from the concatenation"
        # conversions in substance order
        vals = case["values"]
        d = dict(zip(subst, vals))
        dshuf = dict(sorted(d.items(), key=lambda kv: (hash(kv[0]) * 31 + len(subst)) % 7))
        arr = rsys.as_per_substance_array(dshuf)
        if not isinstance(arr, np.ndarray) or arr.shape != (len(subst),) or [float(x) for x in arr] != [float(v) for v in vals]:
            return False, "as_per_substance_array(%s) = %r, expected %s" % (dshuf, arr, vals)
        back = rsys.as_per_substance_dict(arr)
        if list(back.keys()) != subst or [float(back[k]) for k in subst] != [float(v) for v in vals]:
            return False, "as_per_substance_dict(array) = %s, expected %s" % (back, d)
        arr2 = rsys.as_per_substance_array(list(vals))
        if [float(x) for x in arr2] != [float(v) for v in vals]:
            return False, "as_per_substance_array(list) = %r" % (arr2,)
        for i, k in enumerate(subst):
            if rsys.as_substance_index(k) != i or rsys.as_substance_index(i) != i:
                return False, "as_substance_index(%s) = %s, expected %d" % (k, rsys.as_substance_index(k), i)
        try:
            rsys.as_per_substance_array(dict(d, Zz=1.0), raise_on_unk=True)
            return False, "as_per_substance_array with an unknown key and raise_on_unk=True did not raise"
        except KeyError:
            pass
        try:
            rsys.as_per_substance_array(list(vals) + [1.0])
            return False, "as_per_substance_array with one value too many did not raise"
        except ValueError:
            pass
    except Exception as e:
        return False, "a query raised %s: %s" % (type(e).__name__, e)
    # constructor: ordering and the three checks
    from chempy import ReactionSystem
    try:
        s1 = ReactionSystem([_mk(r) for r in rxns], set(subst))
        if list(s1.substances.keys()) != sorted(subst):
            return False, "substances given as a set are ordered %s, expected sorted" % list(s1.substances.keys())
        s2 = ReactionSystem([_mk(r) for r in rxns])
        used = sorted(set().union(*[_keys(r) for r in rxns])) if rxns else []
        if list(s2.substances.keys()) != used:
            return False, "deduced substances %s, expected %s" % (list(s2.substances.keys()), used)
        s3 = ReactionSystem([_mk(r) for r in rxns], " ".join(subst))
        if list(s3.substances.keys()) != subst:
            return False, "substances given as a string are ordered %s" % list(s3.substances.keys())
    except Exception as e:
        return False, "constructor raised %s: %s" % (type(e).__name__, e)
    if rxns:
        for what, args in (("a duplicated reaction", ([_mk(r) for r in rxns] + [_mk(rxns[case["dup"] % len(rxns)])], subst)),
                           ("an undeclared species", ([_mk(r) for r in rxns] + [_mk(_rx({"Zz": 1}, {subst[0]: 1}, 1.0))], subst))):
            try:
                ReactionSystem(*args)
                return False, "constructor accepted %s" % what
            except ValueError:
                pass
            except Exception as e:
                return False, "constructor with %s raised %s: %s" % (what, type(e).__name__, e)
        if len(rxns) >= 2:
            named = [_mk(dict(r, name="n")) for r in rxns[:2]]
            try:
                ReactionSystem(named, subst)
                return False, "constructor accepted two reactions with the same name"
            except ValueError:
                pass
    return True, "ok"


# ----------------------------------------------------------------------------------------------
# upper_conc_bounds
def run_bounds(case):
    from chempy import ReactionSystem, Substance, Reaction
    import numpy as np
    names = [n for n, _ in case["species"]]
    comps = {n: {int(k): v for k, v in items} for n, items in case["species"]}
    S = OrderedDict((n, Substance(n, composition=dict(comps[n]))) for n in names)
    rx = []
    for vec in case["reactions"]:
        reac = {n: -x for n, x in zip(names, vec) if x < 0}
        prod = {n: x for n, x in zip(names, vec) if x > 0}
        rx.append(Reaction(reac, prod, 1.0))
    try:
        rsys = ReactionSystem(rx, S)  # runs check_balance on exactly balanced reactions
    except Exception as e:
        return False, "constructor raised %s on balanced reactions: %s" % (type(e).__name__, e)
    c0 = case["c0"]
    try:
        got = rsys.upper_conc_bounds(dict(zip(names, c0)) if case["as_dict"] else list(c0))
        got = [float(x) for x in got]
    except Exception as e:
        return False, "upper_conc_bounds raised %s: %s" % (type(e).__name__, e)
    if len(got) != len(names):
        return False, "%d bounds for %d substances" % (len(got), len(names))

    def formula(state):
        tot = {}
        for n, c in zip(names, state):
            for k, v in comps[n].items():
                if k != 0:
                    tot[k] = tot.get(k, Fraction(0)) + Fraction(v) * Fraction(c)
        out = []
        for n in names:
            cand = [tot[k] / Fraction(v) for k, v in comps[n].items() if k != 0]
            out.append(min(cand) if cand else None)
        return out, tot

    exp, tot0 = formula(c0)
    for n, g, e in zip(names, got, exp):
        if e is None:
            if g != float("inf"):
                return False, "bound of %s (no elements) is %r, expected inf" % (n, g)
        elif not math.isclose(g, float(e), rel_tol=1e-12, abs_tol=1e-300):
            return False, "bound of %s is %r, expected min(total/atoms) = %s (rel. tol 1e-12); c0 = %s" % (n, g, e, c0)
    # dominance: states reached through integer extents of the balanced reactions
    state = [Fraction(c) for c in c0]
    for ri, ext in case["extents"]:
        vec = case["reactions"][ri]
        # largest admissible multiple of ext in its direction
        new = [s + ext * x for s, x in zip(state, vec)]
        while ext and any(x < 0 for x in new):
            ext = ext - 1 if ext > 0 else ext + 1
            new = [s + ext * x for s, x in zip(state, vec)]
        state = new
        _, tot = formula(state)
        if tot != tot0:
            raise AssertionError("stand-in bug: extents changed the element totals")
        for n, s, g in zip(names, state, got):
            if float(s) > g * (1 + 1e-9) + 1e-12:
                return False, "state %s (same element totals as c0 = %s) has %s = %s above its bound %r" % (
                    [str(x) for x in state], c0, n, s, g)
    return True, "bounds %s" % got


def gen_bounds(rnd):
    while True:
        n = rnd.randint(2, 7)
        keys = rnd.sample([1, 6, 7, 8, 17, 26], rnd.randint(1, 3))
        species = []
        for i in range(n):
            comp = {}
            while not comp:
                comp = {k: v for k in keys for v in [rnd.choice([0, 0, 1, 1, 2, 3, 4])] if v}
            if rnd.random() < 0.3:
                comp[0] = rnd.choice([-2, -1, 1, 2])
            species.append(("S%d" % i, comp))
        if rnd.random() < 0.2:
            species.append(("em", {0: -1}))  # a species without any element: bound inf
        allk = sorted(set(k for _, c in species for k in c))
        rows = [[Fraction(c.get(k, 0)) for _, c in species] for k in allk]
        basis, _ = nullspace(rows, len(species))
        vecs = [primitive(b) for b in basis if any(b)]
        if vecs or rnd.random() < 0.2:
            break
    vecs = vecs[:3]
    integer = rnd.random() < 0.7
    c0 = [rnd.choice([0, 0, 1, 2, 3, 5, 8, 13]) if integer else round(rnd.uniform(0, 10), 3) for _ in species]
    if rnd.random() < 0.1:
        c0 = [0 for _ in species]
    extents = [[rnd.randrange(len(vecs)), rnd.choice([-40, -7, -3, -1, 1, 2, 5, 40])] for _ in range(6)] if vecs else []
    return dict(species=[[nm, sorted(c.items())] for nm, c in species], reactions=vecs, c0=c0, extents=extents,
                as_dict=rnd.random() < 0.5)


# ----------------------------------------------------------------------------------------------
# generators of systems
def _orbit_classes(nsub, maxr):
    """Multisets of 1..maxr non-empty key sets (bit masks over nsub substances) up to renaming of substances."""
    perms = []
    for p in permutations(range(nsub)):
        tab = [0] * (1 << nsub)
        for m in range(1 << nsub):
            tab[m] = sum(1 << p[i] for i in range(nsub) if m >> i & 1)
        perms.append(tab)
    reps = []
    for r in range(1, maxr + 1):
        seen = set()
        for ms in combinations_with_replacement(range(1, 1 << nsub), r):
            if ms in seen:
                continue
            reps.append(ms)
            for tab in perms:
                seen.add(tuple(sorted(tab[m] for m in ms)))
    return reps


def _distinct_orders(ms):
    return sorted(set(permutations(ms)))


def _system_from_masks(order, tag):
    rxns = []
    for i, m in enumerate(order):
        ks = [NAMES5[b] for b in range(5) if m >> b & 1]
        rxns.append(_flavoured(ks, (tag + i) % 3, float(i + 1)))
    return rxns


def _random_system(rnd, names, nmax, with_eq=False):
    nr = rnd.randint(0 if nmax > 4 else 1, nmax)
    rxns = []
    pool = list(names)
    if rnd.random() < 0.5:
        pool = rnd.sample(pool, max(2, len(pool) - rnd.randint(0, len(pool) // 2)))  # isolated species
    for i in range(nr):
        style = rnd.random()
        if style < 0.15 and rxns:   # chain link: shares one species with an earlier reaction
            base = rnd.choice(sorted(_keys(rnd.choice(rxns))))
            ks = [base] + rnd.sample([k for k in pool if k != base], min(len(pool) - 1, rnd.randint(0, 2)))
        elif style < 0.3 and rxns:  # the reverse of an earlier reaction (forward/backward pair)
            # (several reverses of the same reaction may occur: they differ in their constants; one time in four
            # the inactive parts are NOT swapped / are dropped, which is then no reverse unless there are none)
            r = rnd.choice(rxns)
            how = rnd.random()
            if how < 0.75:
                cand = _rx(dict(r["prod"]), dict(r["reac"]), float(100 + i), dict(r["inact_prod"]), dict(r["inact_reac"]))
            elif how < 0.9:
                cand = _rx(dict(r["prod"]), dict(r["reac"]), float(100 + i), dict(r["inact_reac"]), dict(r["inact_prod"]))
            else:
                cand = _rx(dict(r["prod"]), dict(r["reac"]), float(100 + i))
            if cand["reac"] and any(_all_prod(cand, k) != _all_reac(cand, k) for k in _keys(cand)):
                rxns.append(cand)
            continue
        else:
            ks = rnd.sample(pool, rnd.randint(1, min(4, len(pool))))
        ks = sorted(set(ks))
        r = _flavoured(ks, rnd.randrange(3), float(i + 1))
        if rnd.random() < 0.4:  # other coefficients
            r["reac"] = [[k, rnd.randint(1, 3)] for k, _ in r["reac"]]
            if not any(_all_prod(r, k) != _all_reac(r, k) for k in ks):
                r["reac"] = [[k, n + 1] for k, n in r["reac"]]
        if with_eq and rnd.random() < 0.25:
            r["eq"] = True
            r["param"] = [float(i + 1), i + 0.37]  # (kf, kb); kb never equals another reaction's constant
        if any(_all_prod(r, k) != _all_reac(r, k) for k in ks) and not any(
                (r["reac"], r["prod"], r["inact_reac"], r["inact_prod"]) ==
                (q["reac"], q["prod"], q["inact_reac"], q["inact_prod"]) for q in rxns):
            rxns.append(r)
    rnd.shuffle(rxns)
    if not rxns:  # systems without any reaction have their own stand-in (empty_system)
        return _random_system(rnd, names, nmax, with_eq)
    return rxns


def _query_case(rnd):
    names = rnd.sample(NAMES12, rnd.randint(2, 12))
    rxns = _random_system(rnd, names, 8)
    subst = names[:]
    rnd.shuffle(subst)
    onames = rnd.sample(NAMES12, rnd.randint(2, 6))
    orx = [r for r in _random_system(rnd, onames, 3)]
    for r in orx:
        r["param"] = r["param"] + 1000.0
    pred = ["order", rnd.randint(1, 4)] if rnd.random() < 0.4 else [rnd.choice(subst), 0]
    return dict(rxns=rxns, substances=subst, other=dict(rxns=orx, substances=onames), pred=pred,
                values=[round(rnd.uniform(0, 9), 3) for _ in subst], dup=rnd.randrange(100))


def run_empty(case):
    """A system without reactions: no parts, every substance nonparticipating, queries empty."""
    bad = []
    for fn in (run_split, run_categorize, run_queries):
        holds, detail = fn(case)
        if not holds:
            bad.append(detail)
    if bad:
        return False, "system without reactions: " + " | ".join(bad)
    return True, "ok"


RUNNERS = dict(empty_system=run_empty, split_small=run_split, split_random=run_split, categorize_small=run_categorize,
               categorize_random=run_categorize, queries=run_queries, upper_conc_bounds=run_bounds)


def _work(job):
    name, case = job
    holds, detail = RUNNERS[name](case)
    return name, case, holds, detail


def _key(case):
    return json.dumps(case, sort_keys=True)


def run(tier, seed):
    import chempy, numpy  # noqa: before forking
    quick = tier == "quick"
    rnd = random.Random(104729 * seed + 5)
    jobs = []
    # split / categorize on every small system
    reps = _orbit_classes(5, 4)
    small_exhaustive = True
    for ci, ms in enumerate(reps):
        orders = _distinct_orders(ms)
        for oi, order in enumerate(orders):
            # the flavour of each reaction (plain / catalyst / inactive) rotates with the class and the order
            tags = range(3) if not quick else [(ci + oi + seed) % 3]
            for tag in tags:
                jobs.append(("split_small", dict(rxns=_system_from_masks(order, tag), substances=NAMES5)))
        for tag in range(3):
            jobs.append(("categorize_small", dict(rxns=_system_from_masks(orders[0], tag), substances=NAMES5)))
    n_rand = 2500 if quick else 60000
    for _ in range(n_rand):
        names = rnd.sample(NAMES12, rnd.randint(3, 12))
        rxns = _random_system(rnd, names, 10)
        subst = names[:]
        rnd.shuffle(subst)
        jobs.append(("split_random", dict(rxns=rxns, substances=subst)))
    for _ in range(n_rand):
        names = rnd.sample(NAMES12, rnd.randint(2, 12))
        rxns = _random_system(rnd, names, 8, with_eq=True)
        subst = names[:]
        rnd.shuffle(subst)
        jobs.append(("categorize_random", dict(rxns=rxns, substances=subst)))
    for _ in range(1500 if quick else 30000):
        jobs.append(("queries", _query_case(rnd)))
    for _ in range(1500 if quick else 60000):
        jobs.append(("upper_conc_bounds", gen_bounds(rnd)))

    for n in range(1, 13):
        subst = NAMES12[:n][::-1] if n % 2 else NAMES12[:n]
        c = dict(rxns=[], substances=subst, other=dict(rxns=[], substances=["A", "Q"]), pred=["order", 1],
                 values=[float(i) for i in range(n)], dup=0)
        jobs.append(("empty_system", c))

    ctx = mp.get_context("fork")
    with ctx.Pool(16) as pool:
        results = pool.map(_work, jobs, chunksize=32)

    meta = OrderedDict(
        empty_system=dict(
            rule="ReactionSystem([], substances) for 1..12 declared substances: split() == [], categorize_substances() "
                 "puts every substance in 'nonparticipating', the list queries are empty, conversions and sums work.",
            bound="1..12 substances, no reaction", exhaustive=True),
        split_small=dict(
            rule="every multiset of 1..4 reaction key sets (non-empty subsets of 5 substances, repeats allowed) up to "
                 "renaming of the substances (%d classes), in every distinct reaction order; all 5 substances are "
                 "declared (so isolated species occur); each reaction is realised as plain / with a catalyst on both "
                 "sides / with an inactive species, the flavour rotating with class, order and seed (thorough: all "
                 "three rotations). Oracle: union-find components. Checked: the parts partition the reactions (each reaction of a "
                 "part is an original object or an equal copy -- four parts and constant --, every original matched once), "
                 "substance sets pairwise disjoint, equal to the species their reactions use (parent order), each "
                 "connected, and exactly one part per component." % len(reps),
            bound="<= 4 reactions over <= 5 substances", exhaustive=small_exhaustive),
        split_random=dict(
            rule="random systems over 3..12 substances, 0..10 reactions of 1..4 species (chains that only fuse through "
                 "later reactions, reversed pairs, catalysts, inactive species, isolated substances), random reaction "
                 "and substance order; same checks.",
            bound="<= 12 substances, <= 10 reactions", exhaustive=False),
        categorize_small=dict(
            rule="categorize_substances on one order of every small system above, in all three flavour rotations: the "
                 "four sets equal {only net-produced}, {only net-consumed}, {present, zero net everywhere}, {absent}.",
            bound="<= 4 reactions over <= 5 substances", exhaustive=True),
        categorize_random=dict(
            rule="random systems over 2..12 substances with other coefficients, catalysts, inactive species and 25% "
                 "Equilibrium members (constant given as a (kf, kb) pair, which is what the method requires): "
                 "equilibria count in both directions.",
            bound="<= 12 substances, <= 8 reactions", exhaustive=False),
        queries=dict(
            rule="random systems (<= 12 substances in random declared order, <= 8 reactions) and a second small system: "
                 "identify_equilibria, substance_participation and per_reaction_effect_on_substance for every "
                 "substance and an unknown key, subset(pred) for 'order >= n' / 'contains X' predicates, rsys + other "
                 "(reactions of the halves / the sum: the original objects or equal copies, matched one-to-one, in order), "
                 "rsys + [reaction], +=, ==, as_per_substance_array/dict round trip from a shuffled dict and a list, "
                 "as_substance_index, raise_on_unk, wrong length, constructor ordering for set / None / str / list "
                 "and refusal of duplicate reactions, undeclared species, duplicate names.",
            bound="<= 12 substances, <= 8 + 3 reactions", exhaustive=False),
        upper_conc_bounds=dict(
            rule="2..8 species with synthetic compositions (<= 3 elements, 0..4 atoms, optional charge, sometimes a bare "
                 "electron), up to 3 exactly balanced reactions (integer null-space vectors), c0 integers (70%) or "
                 "3-decimal floats, as dict or list: each bound == min over elements of total/atoms (rel. tol 1e-12, inf "
                 "without elements), and after each of 6 random integer extents (clipped to stay non-negative, element "
                 "totals verified exactly) no concentration exceeds its bound (rel. tol 1e-9).",
            bound="<= 8 species, <= 3 elements", exhaustive=False),
    )
    out = OrderedDict()
    for name, m in meta.items():
        out[name] = dict(name=name, evaluations=0, distinct=0, samples=[], violations=[], **m)
    dseen = set()
    for name, case, holds, detail in results:
        g = out[name]
        g["evaluations"] += 1
        k = (name, _key(case))
        if k not in dseen:
            dseen.add(k)
            g["distinct"] += 1
        if holds and len(g["samples"]) < 2:
            g["samples"].append(dict(inputs=case, observed=detail))
        if not holds:
            g["violations"].append(dict(inputs=case, detail=detail))
    for g in out.values():
        g["violations"].sort(key=lambda v: _key(v["inputs"]))
        g["violations"] = g["violations"][:200]
    return {"standins": list(out.values())}


def replay(case):
    return RUNNERS[case["name"]](case["inputs"])
