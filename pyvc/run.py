"""Running harnesses: symbolic exploration, replay of counter-models, concrete sampling."""
from __future__ import annotations

import json
import os
import random
import sys
import time
import traceback

import z3

from . import sym as S
from .api import Harness, SymV, ConcV, run_concrete, HARNESSES
from .interp import Interp
from .path import Session, SymbolicPath, explore
from .sym import Unsupported, set_cur


def make_session(h, repo_root):
    s = Session(h.ident, div_mode=h.div_mode, max_paths=h.max_paths)
    if h.rlimit:
        s.rlimit_goal = h.rlimit
    s.proxy_safe = {("pyneqsys.symbolic", "linear_exprs")}
    s.max_unroll = 64
    s.allow_havoc = h.allow_havoc
    s.alt_backend = cvc5_backend
    s.keep_smt2 = True
    return s


def cvc5_backend(path, goal, ob):
    """second opinion for obligations z3 left open (strings): the same VC exported as SMT-LIB to cvc5"""
    from .smt import cvc5_check
    if not ob.smt2 or "String" not in ob.smt2:
        return
    t0 = time.time()
    text = "(set-logic ALL)\n" + ob.smt2 + "\n"
    res, why = cvc5_check(text, timeout_s=12)
    if res == "unknown" and "timeout" in why:
        # the limit is wall-clock time: on a machine whose cores are all busy a query that takes 3 s alone can exceed it.  One retry with a
        # budget five times as long keeps the verdict from depending on the load (a query that is really out of reach costs a minute more)
        res, why = cvc5_check(text, timeout_s=60)
    ob.seconds += time.time() - t0
    ob.smt2 = None
    if res == "unsat":
        ob.result = "discharged"
        ob.backend = "cvc5"
        ob.detail += " [z3 unknown; cvc5 --strings-exp: unsat]"
    elif res == "sat":
        ob.detail += " [cvc5: sat]"
    else:
        ob.detail += " [cvc5: %s]" % why


def jsonable(x, depth=0):
    import fractions
    if isinstance(x, fractions.Fraction):
        return {"fraction": [x.numerator, x.denominator], "float": float(x)}
    if isinstance(x, (int, float, str, bool)) or x is None:
        return x
    if isinstance(x, dict):
        return {"dict": [[jsonable(k), jsonable(v)] for k, v in x.items()]}
    if isinstance(x, (list, tuple)):
        return [jsonable(v) for v in x]
    return repr(x)


def unjson(x):
    import fractions
    if isinstance(x, dict):
        if "fraction" in x:
            return fractions.Fraction(*x["fraction"])
        if "dict" in x:
            return {_hashable(unjson(k)): unjson(v) for k, v in x["dict"]}
    if isinstance(x, list):
        return [unjson(v) for v in x]
    return x


def _hashable(k):
    return tuple(k) if isinstance(k, list) else k


def run_symbolic(h, repo_root):
    """explore all paths of harness h; returns a result dict"""
    t0 = time.time()
    S.reset_names()
    session = make_session(h, repo_root)
    interp = Interp(session, repo_root)
    view = SymV(h, session, interp)
    session.view = view

    def body(path):
        view.path = path
        from .interp import Frame
        Frame.overrides.clear()
        interp.invariants.clear()
        interp.call_contracts.clear()
        try:
            h.fn(view)
        except Exception as ex:   # exception of the program under verification that the harness did not expect
            from .interp import reraise_unsupported
            reraise_unsupported(ex)
            if os.environ.get("VCHECK_DEBUG"):
                traceback.print_exc()
            path.prove(h.ident + ".noexc", False, detail="unexpected %s: %s" % (type(ex).__name__, str(ex)[:200]))

    err = None
    try:
        explore(body, session)
    except Unsupported as ex:
        session.unsupported.append(str(ex))
    except Exception as ex:
        err = traceback.format_exc()
    agg = {}
    for ob in session.obligations:
        a = agg.setdefault(ob.name, {"name": ob.name, "instances": 0, "discharged": 0, "failed": 0, "unknown": 0,
                                     "seconds": 0.0, "rlimit": 0, "backend": set(), "havoc": False, "cex": None, "detail": ""})
        a["instances"] += 1
        a[ob.result if ob.result in ("discharged", "failed") else "unknown"] += 1
        a["seconds"] += ob.seconds
        a["rlimit"] += ob.rlimit
        a["backend"].add(ob.backend)
        a["havoc"] = a["havoc"] or ob.havoc
        if ob.result == "failed" and a["cex"] is None:
            a["cex"] = {"inputs": ob.inputs, "model": ob.model, "path": ob.path_id, "detail": ob.detail}
            a["detail"] = ob.detail
        if ob.result == "unknown" and not a["detail"]:
            a["detail"] = ob.detail
        if ob.result == "unknown" and ob.inputs is not None and a.get("candidate") is None:
            a["candidate"] = ob.inputs
    for a in agg.values():
        a["backend"] = sorted(a["backend"])
        a["status"] = "failed" if a["failed"] else ("unknown" if a["unknown"] else "discharged")
    return {"harness": h.ident, "kind": h.kind, "paths": session.paths, "obligations": list(agg.values()),
            "unsupported": session.unsupported, "error": err, "notes": sorted(session.notes) + list(h.assumptions),
            "interpreted": interp.interpreted, "seconds": time.time() - t0, "functions": h.functions}


def replay_inputs(h, inputs, exact=False):
    """run the harness natively on concrete inputs; returns (status, failed names, detail)"""
    st, v = run_concrete(h, inputs, exact=exact)
    return st, v


def sample_concrete(h, n, seed, repo_root=None, differential=False):
    """bounded stand-in / differential: n seeded concrete executions"""
    rng = random.Random(seed)
    res = {"runs": 0, "ok": 0, "rejected": 0, "failed": [], "errors": [], "samples": [], "distinct": 0, "unsupported": 0}
    seen = set()
    interp = None
    tries = 0
    while res["runs"] < n and tries < 20 * n + 50:
        tries += 1
        sub = random.Random(rng.getrandbits(64))
        st, v = run_concrete(h, None, sub)
        if st == "rejected":
            res["rejected"] += 1
            continue
        res["runs"] += 1
        key = json.dumps(jsonable(v.used), sort_keys=True, default=repr)
        if key not in seen:
            seen.add(key)
        if len(res["samples"]) < 3:
            res["samples"].append(jsonable(v.used))
        if st == "ok":
            res["ok"] += 1
        elif st == "failed":
            res["failed"].append({"inputs": jsonable(v.used), "obligations": v.failed})
        elif st == "unsupported":
            res["unsupported"] += 1
        else:
            res["errors"].append({"inputs": jsonable(v.used), "error": v.error})
        if differential and st in ("ok", "failed"):
            # same inputs through the interpreter (engine-vs-CPython differential)
            d = differential_one(h, v.used, repo_root, v)
            if d is not None:
                res.setdefault("engine_mismatch", []).append(d)
    res["distinct"] = len(seen)
    return res


def differential_one(h, inputs, repo_root, native_view):
    session = make_session(h, repo_root)
    interp = Interp(session, repo_root)
    session.view = None
    path = SymbolicPath([], session, 0)
    set_cur(path)
    try:
        st, v = run_concrete(h, dict(inputs), None, False, interp)
    finally:
        set_cur(None)
    if st == "unsupported":
        return None
    if st != ("failed" if native_view.failed else "ok") or [f[0] for f in v.failed] != [f[0] for f in native_view.failed]:
        return {"inputs": jsonable(inputs), "native": [f[0] for f in native_view.failed], "interp_status": st,
                "interp": [f[0] for f in v.failed], "error": getattr(v, "error", None)}
    return None
