"""C17  Closed-form integrated rate laws solve their rate equations from the given start."""
import math

from pyvc.api import harness
from pyvc import spec as SP

META = {
    "explanation": "each closed form is executed symbolically with an abstract backend, differentiated, and the ODE residual / initial value are decided by the exact field normaliser (ring) or z3; real-domain side conditions by nlsat on atomised terms",
    "trusted_base": ["assumed contract 5.3: exp/sqrt/tanh of math, numpy, sympy are the same real functions with exp(a+b)=exp(a)exp(b), sqrt(x)^2=x, tanh'=1-tanh^2"],
    "not_decided": ["equality of the floating point results of math/numpy/sympy (sampled in the bounded stand-in)"],
    "assumptions": ["time t >= 0; rate constants, reactant concentrations (major, minor, r, initial_C) and the feed rate > 0; initial product and feed concentrations (prod, p, fp, fr) >= 0; major > minor where the closed form divides by their difference",
                    "a closed form written with a function that math, numpy and sympy share but the engine has no axioms for (cosh, sinh, ...) is UNDECIDED in the symbolic harnesses, not a violation; a function that one advertised backend lacks is a violation"],
}

MOD = "chempy.kinetics.integrated"


def _bk(fn, be):
    import inspect
    return {"backend": be} if "backend" in inspect.signature(fn).parameters else {}


# the parameters that are zero in the standard use (the property's 'including non-zero initial product' makes zero the base case): initial product,
# product/reactant concentration of the feed.  They are quantified over >= 0; rate constants, reactant concentrations and the feed rate over > 0
NONNEG = ("prod", "p", "fp", "fr")


def P(v, names, hi=8):
    # the proofs quantify over ALL positive (NONNEG: non-negative) parameters; the box is only where the native samples are drawn
    if v.symbolic:
        return [v.real(n, lo=0) if n in NONNEG else v.real(n, pos=True) for n in names]
    return [v.real(n, lo=0, hi=hi) if n in NONNEG else v.real(n, lo=0.01, hi=hi, pos=True) for n in names]


def Tm(v, name="t"):
    """a time t >= 0 (symbolic: any; sampled: up to 5)"""
    return v.real(name, lo=0) if v.symbolic else v.real(name, lo=0, hi=5)


# ---- which attributes of the backend a closed form may use -----------------------------------------------------------------------------------
# The property fixes the three advertised backends, not the set of functions a closed form is written with: a rewrite with cosh/sinh (math, numpy
# and sympy all have them) keeps the property.  The symbolic harnesses therefore hand out, next to the names the engine's abstract backend has always
# offered, every callable name that math, numpy AND sympy share (acosh, cosh, sinh, atan, cbrt, ...); `.backends` hands out, per advertised module, every
# callable of that module, so that a name missing from one advertised backend (expm1 and log1p are not in sympy, arctanh not in math) still raises
# AttributeError inside the closed form, exactly as that backend would.  A closed form that uses a shared function WITHOUT axioms cannot be
# decided symbolically: that is reported as UNDECIDED (exit 2), not as a violation; the sampled runs of the same harness (mpmath, 40 digits) and the data
# harnesses below still evaluate it.
_AXIOMATISED = ("exp", "sqrt", "log", "tanh", "pow")


def _shared_backend_names():
    import numpy
    import sympy
    from pyvc.stubs import SymBackend
    mods = (math, numpy, sympy)
    shared = {n for n in dir(math) if not n.startswith("_") and all(callable(getattr(m, n, None)) for m in mods)}
    return sorted(shared | set(SymBackend()._names))


def _backend_names_of(mod):
    """the callables a closed form finds in one advertised backend module"""
    return [n for n in dir(mod) if not n.startswith("_") and callable(getattr(mod, n, None))]


def _backend(v):
    """the backend handed to a closed form in the symbolic proofs (sampled runs: mpmath with 40 digits restricted to the same names)"""
    be = v.backend(_shared_backend_names())
    if not v.symbolic:
        return be
    from pyvc.sym import Sym, Unsupported

    class Shared:
        _pyvc_symbolic = False

        def __getattr__(self, name):
            f = getattr(be, name)          # AttributeError for a name that the advertised backends do not share
            if name in _AXIOMATISED or not callable(f):
                return f

            def g(*a, **k):
                r = None if any(isinstance(x, Sym) for x in a) else f(*a, **k)      # be.cos(0), the spelling of a backend's 1, is a number
                if r is None or isinstance(r, Sym):
                    raise Unsupported("the closed form uses the backend function %r for which the engine has no axioms (5.3): not decided symbolically" % name)
                return r
            return g
    return Shared()


_RATE_EQUATIONS = {}      # name -> (parameter names, right-hand side, initial value, number of concentrations): the mechanisms as written below


def _ode(name, argnames, rhs, init, nres=1, extra_req=None, tier="quick"):
    fnq = "%s:%s" % (MOD, name)
    _RATE_EQUATIONS[name] = (argnames, rhs, init, nres)

    @harness("C17", name + ".ode", functions=[fnq], div_mode="assume", samples=6, tier=tier)
    def h_ode(v):
        from chempy.kinetics import integrated
        fn = getattr(integrated, name)
        t = Tm(v)
        ps = P(v, argnames)
        if extra_req:
            v.assume(extra_req(*ps))
        be = _backend(v)
        d, x = v.deriv(lambda tt: v.call(fn, tt, *ps, **_bk(fn, be)), t)
        if nres == 1:
            v.prove_identity("ode", d, rhs(x, *ps), rel=1e-7, abs_=1e-9)
        else:
            r = rhs(x, *ps)
            for i in range(nres):
                v.prove_identity("ode%d" % i, d[i], r[i], rel=1e-7, abs_=1e-9)

    @harness("C17", name + ".init", functions=[fnq], div_mode="assume", samples=6)
    def h_init(v):
        from chempy.kinetics import integrated
        fn = getattr(integrated, name)
        ps = P(v, argnames)
        if extra_req:
            v.assume(extra_req(*ps))
        be = _backend(v)
        x0 = v.call(fn, 0, *ps, **_bk(fn, be))
        i0 = init(*ps)
        if nres == 1:
            v.prove_identity("init", x0, i0)
        else:
            for i in range(nres):
                v.prove_identity("init%d" % i, x0[i], i0[i])

    @harness("C17", name + ".defined", functions=[fnq], div_mode="oblige", samples=0)
    def h_def(v):
        from chempy.kinetics import integrated
        fn = getattr(integrated, name)
        t = Tm(v)
        ps = P(v, argnames)
        if extra_req:
            v.assume(extra_req(*ps))
        be = _backend(v)
        v.call(fn, t, *ps, **_bk(fn, be))
        v.prove("reached", True)

    @harness("C17", name + ".backends", functions=[fnq, "chempy._util:get_backend"], div_mode="assume", samples=6)
    def h_be(v):
        from chempy.kinetics import integrated
        fn = getattr(integrated, name)
        t = Tm(v)
        ps = P(v, argnames)
        if extra_req:
            v.assume(extra_req(*ps))
        if v.symbolic:
            import numpy, sympy
            for modname, mod in (("math", math), ("numpy", numpy), ("sympy", sympy)):
                # every callable of the module (not a fixed list of the names in use today): only a name that this advertised backend lacks is refused
                out = v.run(fn, t, *ps, **_bk(fn, v.backend(_backend_names_of(mod))))
                v.prove("evaluates_with_" + modname, out.returned, detail=repr(out.exc))
        else:
            import numpy
            vals = {}
            for modname, be in (("math", math), ("numpy", numpy), ("sympy", "sympy"), ("default", None)):
                out = v.run(fn, float(t), *[float(p) for p in ps], **_bk(fn, be)) if modname != "default" else v.run(fn, float(t), *[float(p) for p in ps])
                v.prove("evaluates_with_" + modname, out.returned, detail=repr(out.exc))
                if out.returned:
                    val = out.value if isinstance(out.value, tuple) else (out.value,)
                    vals[modname] = [float(c) for c in val]
            ref = vals.get("numpy")
            for k, val in vals.items():
                v.prove("same_value_" + k, ref is not None and all(SP.approx_eq(a, b, 1e-9, 1e-12) for a, b in zip(val, ref)), detail="%s vs numpy %s" % (val, ref))
    return h_ode


# mechanisms (right-hand sides and initial values written from the property statement / docstrings)
_ode("dimerization_irrev", ["kf", "initial_C"], lambda C, kf, C0: -2 * kf * C * C, lambda kf, C0: C0)
_ode("pseudo_irrev", ["kf", "prod", "major", "minor"],
     lambda x, kf, P0, Y, Z: kf * Y * (Z - (x - P0)), lambda kf, P0, Y, Z: P0)
_ode("pseudo_rev", ["kf", "kb", "prod", "major", "minor"],
     lambda x, kf, kb, P0, Y, Z: kf * Y * (Z - (x - P0)) - kb * x, lambda kf, kb, P0, Y, Z: P0)
_ode("binary_irrev", ["kf", "prod", "major", "minor"],
     lambda x, kf, P0, Y, Z: kf * (Y - (x - P0)) * (Z - (x - P0)), lambda kf, P0, Y, Z: P0,
     extra_req=lambda kf, P0, Y, Z: Y > Z)
_ode("binary_rev", ["kf", "kb", "prod", "major", "minor"],
     lambda x, kf, kb, P0, Y, Z: kf * (Y - (x - P0)) * (Z - (x - P0)) - kb * x, lambda kf, kb, P0, Y, Z: P0)
_ode("unary_irrev_cstr", ["k", "r", "p", "fr", "fp", "fv"],
     lambda AB, k, r, p, fr, fp, fv: (fv * (fr - AB[0]) - k * AB[0], fv * (fp - AB[1]) + k * AB[0]),
     lambda k, r, p, fr, fp, fv: (r, p), nres=2)
_ode("binary_irrev_cstr", ["k", "r", "p", "fr", "fp", "fv"],
     lambda AB, k, r, p, fr, fp, fv: (fv * (fr - AB[0]) - 2 * k * AB[0] * AB[0], fv * (fp - AB[1]) + 1 * k * AB[0] * AB[0]),
     lambda k, r, p, fr, fp, fv: (r, p), nres=2)


@harness("C17", "binary_irrev_cstr.n", functions=[MOD + ":binary_irrev_cstr"], div_mode="assume", samples=6)
def _(v):
    """general stoichiometric factor n of the product"""
    from chempy.kinetics.integrated import binary_irrev_cstr as fn
    t = Tm(v)
    k, r, p, fr, fp, fv = P(v, ["k", "r", "p", "fr", "fp", "fv"])
    n = v.real("n", lo=1, hi=4)
    be = _backend(v)
    d, x = v.deriv(lambda tt: v.call(fn, tt, k, r, p, fr, fp, fv, n, backend=be), t)
    v.prove_identity("odeB", d[1], fv * (fp - x[1]) + n * k * x[0] * x[0], rel=1e-7, abs_=1e-9)
    x0 = v.call(fn, 0, k, r, p, fr, fp, fv, n, backend=be)
    v.prove_identity("initB", x0[1], p)


@harness("C17", "get_backend", functions=["chempy._util:get_backend"], kind="data")
def _(v):
    import numpy, sympy
    from chempy._util import get_backend
    def holds(f):
        try:
            return bool(f()), ""
        except Exception as exc:
            return False, repr(exc)
    for name, f in (("none_is_numpy", lambda: get_backend(None) is numpy), ("string_imports", lambda: get_backend("sympy") is sympy and get_backend("math") is math),
                    ("module_passthrough", lambda: get_backend(math) is math)):
        ok, detail = holds(f)
        v.prove(name, ok, detail=detail)


@harness("C17", "array_time_axis_not_modified", functions=["chempy.kinetics.integrated:dimerization_irrev", "chempy.kinetics.integrated:pseudo_irrev", "chempy.kinetics.integrated:pseudo_rev",
                                                           "chempy.kinetics.integrated:binary_irrev", "chempy.kinetics.integrated:binary_rev", "chempy.kinetics.integrated:unary_irrev_cstr",
                                                           "chempy.kinetics.integrated:binary_irrev_cstr"], kind="data")
def _(v):
    """the closed forms are evaluated on numpy time axes in practice: the caller's array is left as it was, a second evaluation on the same
    axis gives the same curve, and the curve starts at the given initial state (also with the rarely used t0)"""
    import numpy as np
    from chempy.kinetics import integrated as I
    from contracts._purity import prove_pure as _prove_pure

    def prove_pure(v, name, f, make_args):
        try:
            return _prove_pure(v, name, f, make_args)
        except Exception as exc:      # an exception of the closed form is a failed obligation, not a checker error
            v.prove(name + ".inputs_not_modified", False, detail="evaluation on a numpy time axis raised %r" % (exc,))
            return None
    t = lambda lo=0.0: (lambda: np.linspace(lo, lo + 2.0, 5))
    r = prove_pure(v, "dimerization_irrev.t0", I.dimerization_irrev, lambda: ((t(1.0)(), 0.4, 3.0), {"t0": 1.0}))
    try:
        ok, detail = abs(float(r[0]) - 3.0) < 1e-12 and abs(float(r[-1]) - 1 / (1 / 3.0 + 2 * 0.4 * 2.0)) < 1e-12, repr(r)
    except Exception as exc:
        ok, detail = False, repr(exc)
    v.prove("dimerization_irrev.t0.starts_at_the_initial_concentration", ok, detail=detail)
    prove_pure(v, "dimerization_irrev", I.dimerization_irrev, lambda: ((t()(), 0.4, 3.0), {}))
    prove_pure(v, "pseudo_irrev", I.pseudo_irrev, lambda: ((t()(), 0.3, 0.1, 2.0, 0.5), {"backend": np}))
    prove_pure(v, "pseudo_rev", I.pseudo_rev, lambda: ((t()(), 0.3, 0.2, 0.1, 2.0, 0.5), {"backend": np}))
    prove_pure(v, "binary_irrev", I.binary_irrev, lambda: ((t()(), 0.3, 0.1, 2.0, 0.5), {"backend": np}))
    prove_pure(v, "binary_rev", I.binary_rev, lambda: ((t()(), 0.3, 0.2, 0.1, 2.0, 0.5), {"backend": np}))
    prove_pure(v, "unary_irrev_cstr", I.unary_irrev_cstr, lambda: ((t()(), 0.3, 1.5, 0.2, 2.5, 0.4, 0.7), {"backend": np}))
    prove_pure(v, "binary_irrev_cstr", I.binary_irrev_cstr, lambda: ((t()(), 0.3, 1.5, 0.2, 2.5, 0.4, 0.7), {"n": 2, "backend": np}))


@harness("C17", "second_opinion_from_sympy", functions=[MOD + ":dimerization_irrev", MOD + ":pseudo_irrev", MOD + ":pseudo_rev", MOD + ":binary_irrev", MOD + ":binary_rev", MOD + ":unary_irrev_cstr",
                                                       MOD + ":binary_irrev_cstr"], kind="data")
def _(v):
    """an independent decision of the same two clauses: the closed forms are evaluated by the REAL code with sympy symbols (the documented symbolic
    use), differentiated by sympy (not by this verifier's own derivative) and the residual of the rate equations of chempy's OWN mass-action
    model (ReactionSystem.rates, cstr feed terms included) is evaluated with 60 significant digits at seeded parameter points; start values likewise"""
    import random
    import sympy
    from chempy.kinetics import integrated as I
    from chempy.chemistry import Reaction, Substance
    from chempy.reactionsystem import ReactionSystem
    t = sympy.Symbol("t", positive=True)
    rng = random.Random(17)

    def rates_of(text_rxns, conc, extra=None, cstr=None):
        rs = ReactionSystem([Reaction(r, p, k, checks=()) for r, p, k in text_rxns], [Substance(s) for s in sorted(conc)], checks=())
        return rs.rates(dict(conc, **(extra or {})), cstr_fr_fc=cstr)
    model_usable = {}

    def rate_equations(label, written, text_rxns, conc, extra=None, cstr=None):
        """right-hand sides for the residual: chempy's own mass-action model -- as long as that model can be evaluated and, on plain symbols, IS the rate
        equation `written` from the property statement; otherwise the written one.  (ReactionSystem.rates is C03's territory: a regression or a change of
        signature there is C03's to report, not eight violations of C17 with integrated.py untouched; the differentiation by sympy, which is what makes this
        a second opinion, does not depend on it.)"""
        if label not in model_usable:
            plain = {sp: sympy.Symbol("c_" + sp, positive=True) for sp in conc}
            try:
                model, want = rates_of(text_rxns, plain, extra, cstr), written(plain)
                model_usable[label] = all(sympy.expand(model[sp] - want[sp]) == 0 for sp in want)
            except Exception:
                model_usable[label] = False
        if model_usable[label]:
            try:
                return rates_of(text_rxns, conc, extra, cstr)
            except Exception:
                model_usable[label] = False
        return written(conc)

    def small(e, bound):
        """|e| evaluated with 60 digits is a real number <= bound (nan / zoo / an exception of the evaluation: no)"""
        try:
            val = abs(sympy.N(e, 60))
            return bool(val.is_real and val.is_finite and val <= bound), str(val)[:12]
        except Exception as exc:
            return False, repr(exc)[:60]

    def check(label, build, npoints=6):
        bad = []
        for _ in range(npoints):
            try:
                expr_res, expr_init, params = build()
            except Exception as exc:
                bad.append(("evaluation with sympy symbols raised", repr(exc)[:200]))
                break
            scale = 1 + max(abs(sympy.N(x, 30)) for x in params)
            for e in expr_res:
                for tt in (sympy.Rational(1, 7), sympy.Rational(13, 10), 4):
                    ok, val = small(e.subs(t, tt), sympy.Float("1e-40") * scale)
                    if not ok:
                        bad.append((str(params)[:80], str(tt), val))
            for e in expr_init:
                ok, val = small(e, sympy.Float("1e-50"))
                if not ok:
                    bad.append(("init", str(params)[:80], val))
        v.prove(label + ".rate_equation_and_start_value", not bad, detail=repr(bad[:3]))
    R = lambda lo, hi: sympy.Rational(rng.randint(int(lo * 1000), int(hi * 1000)), 1000)

    def dimer():
        kf, C0 = R(0.01, 8), R(0.01, 8)
        C = I.dimerization_irrev(t, kf, C0)
        rate = rate_equations("dimerization_irrev", lambda c: {"A": -2 * kf * c["A"] ** 2}, [({"A": 2}, {"B": 1}, kf)], {"A": C, "B": 0})["A"]
        return [sympy.diff(C, t) - rate], [C.subs(t, 0) - C0], (kf, C0)
    check("dimerization_irrev", dimer)

    def binary(label, fn, rev, pseudo=False):
        seen = []

        def build():
            kf, kb, P0, Z = R(0.01, 8), R(0.01, 8), R(0, 3), R(0.1, 4)
            if not seen:
                P0 = sympy.Integer(0)                          # the standard use: no product at the start (the base case of 'including non-zero initial product')
            seen.append(1)
            Y = Z + R(0.1, 4)                                  # documented: `major` is the excess reactant
            args = (kf, kb, P0, Y, Z) if rev else (kf, P0, Y, Z)
            x = fn(t, *args, backend=sympy)
            yy, zz = (Y if pseudo else Y - (x - P0)), Z - (x - P0)      # pseudo first order: the excess reactant is not consumed
            rxns = [({"Y": 1, "Z": 1}, {"P": 1}, kf)] + ([({"P": 1}, {"Y": 1, "Z": 1}, kb)] if rev else [])
            rate = rate_equations(label, lambda c: {"P": kf * c["Y"] * c["Z"] - (kb * c["P"] if rev else 0)}, rxns, {"Y": yy, "Z": zz, "P": x})["P"]
            return [sympy.diff(x, t) - rate], [x.subs(t, 0) - P0], args
        return build
    check("pseudo_irrev", binary("pseudo_irrev", I.pseudo_irrev, False, pseudo=True))
    check("pseudo_rev", binary("pseudo_rev", I.pseudo_rev, True, pseudo=True))
    check("binary_irrev", binary("binary_irrev", I.binary_irrev, False))
    check("binary_rev", binary("binary_rev", I.binary_rev, True))

    def cstr(label, fn, order, n=1):
        seen = []

        def build():
            k, r, p, fr, fp, fv = R(0.01, 4), R(0.01, 4), R(0, 4), R(0.01, 4), R(0, 4), R(0.01, 2)
            if not seen:
                p = fp = sympy.Integer(0)                      # the standard use: no product in the tank at the start and none in the feed
            seen.append(1)
            A, B = fn(t, k, r, p, fr, fp, fv, backend=sympy) if order == 1 else fn(t, k, r, p, fr, fp, fv, n, backend=sympy)
            written = lambda c: {"A": fv * (fr - c["A"]) - order * k * c["A"] ** order, "B": fv * (fp - c["B"]) + n * k * c["A"] ** order}
            rates = rate_equations(label, written, [({"A": order}, {"B": n}, k)], {"A": A, "B": B}, {"fv": fv, "fcA": fr, "fcB": fp}, cstr=("fv", {"A": "fcA", "B": "fcB"}))
            return [sympy.diff(A, t) - rates["A"], sympy.diff(B, t) - rates["B"]], [A.subs(t, 0) - r, B.subs(t, 0) - p], (k, r, p, fr, fp, fv)
        return build
    check("unary_irrev_cstr", cstr("unary_irrev_cstr", I.unary_irrev_cstr, 1))
    check("binary_irrev_cstr", cstr("binary_irrev_cstr", I.binary_irrev_cstr, 2, 1))
    check("binary_irrev_cstr_n3", cstr("binary_irrev_cstr_n3", I.binary_irrev_cstr, 2, 3), npoints=3)


def _start_time_inputs(v):
    # any start time (the proofs have no box: `lo` would stay an assumption in symbolic mode), any later time
    t0 = v.real("t0") if v.symbolic else v.real("t0", lo=-5, hi=5)
    t = v.real("t") if v.symbolic else v.real("t", lo=-5, hi=10)
    v.assume(t >= t0)
    kf, C0 = P(v, ["kf", "initial_C"])
    P0 = v.real("P0") if v.symbolic else v.real("P0", lo=0.1, hi=9)
    return t0, t, kf, C0, P0


@harness("C17", "dimerization_irrev.start_time", functions=[MOD + ":dimerization_irrev"], div_mode="assume", samples=10)
def _(v):
    """the optional start time t0 and the (unused) P0: the curve solves dC/dt = -2 kf C^2 and passes through initial_C at t = t0, whatever P0 is.
    (independent_of_P0 asks nothing beyond that: the solution of the rate equation through (t0, initial_C) is unique, so a scalar result that keeps the
    first two obligations for every P0 cannot depend on P0)"""
    from chempy.kinetics.integrated import dimerization_irrev as fn
    t0, t, kf, C0, P0 = _start_time_inputs(v)
    d, x = v.deriv(lambda tt: v.call(fn, tt, kf, C0, P0, t0), t)
    v.prove_identity("ode", d, -2 * kf * x * x, rel=1e-7, abs_=1e-9)
    v.prove_identity("passes_through_initial_C_at_t0", v.call(fn, t0, kf, C0, P0, t0), C0)
    v.prove_identity("independent_of_P0", v.call(fn, t, kf, C0, P0, t0), v.call(fn, t, kf, C0, 1, t0))


@harness("C17", "dimerization_irrev.start_time.defined", functions=[MOD + ":dimerization_irrev"], div_mode="oblige", samples=0)
def _(v):
    """what the harness above assumes: with a start time the closed form has its pole at t = t0 - 1/(2 kf initial_C), before the start -- no division
    by zero for any t >= t0 (the generated dimerization_irrev.defined has the default t0 = 0 only)"""
    from chempy.kinetics.integrated import dimerization_irrev as fn
    t0, t, kf, C0, P0 = _start_time_inputs(v)
    v.call(fn, t, kf, C0, P0, t0)
    v.prove("reached", True)


def _start_of(name, a):
    """the stated initial concentration(s), read off the arguments (after the time): initial_C / prod / (r, p)"""
    if name == "dimerization_irrev":
        return (a[1],)
    if name in ("pseudo_irrev", "binary_irrev"):
        return (a[1],)
    if name in ("pseudo_rev", "binary_rev"):
        return (a[2],)
    return (a[1], a[2])


def _steady_state(name, a):
    """(steady state, slowest relaxation rate towards it) of the mechanism's rate equation -- solved from the rate equation of the property statement by hand,
    not taken from the closed form; 60 digits on the exact values of the float arguments.  None where there is none in finite time (dimerisation: C ~ 1/(2 kf t))"""
    import mpmath
    with mpmath.workdps(60):
        a = [mpmath.mpf(x) for x in a]
        if name == "pseudo_irrev":          # 0 = kf Y (Z - (x - P0)): the minor reactant is used up
            kf, P0, Y, Z = a
            return (P0 + Z,), kf * Y
        if name == "binary_irrev":          # 0 = kf (Y - xi)(Z - xi), xi = x - P0 <= Z < Y
            kf, P0, Y, Z = a
            return (P0 + Z,), kf * (Y - Z)
        if name == "pseudo_rev":            # 0 = kf Y (Z + P0 - x) - kb x
            kf, kb, P0, Y, Z = a
            return (kf * Y * (Z + P0) / (kb + kf * Y),), kf * Y + kb
        if name == "binary_rev":            # 0 = kf (Y - xi)(Z - xi) - kb (P0 + xi) = kf xi^2 - b xi + c: the root in (-P0, Z) is the smaller one; d(rhs)/d(xi) there = -sqrt(b^2 - 4 kf c)
            kf, kb, P0, Y, Z = a
            b, c = kf * (Y + Z) + kb, kf * Y * Z - kb * P0
            disc = mpmath.sqrt(b * b - 4 * kf * c)
            return (P0 + (b - disc) / (2 * kf),), disc
        if name == "unary_irrev_cstr":      # 0 = fv (fr - A) - k A;  0 = fv (fp - B) + k A
            k, r, p_, fr, fp, fv = a
            A = fv * fr / (fv + k)
            return (A, fp + k * A / fv), fv
        if name == "binary_irrev_cstr":     # 0 = fv (fr - A) - 2 k A^2 (positive root);  0 = fv (fp - B) + n k A^2
            k, r, p_, fr, fp, fv = a[:6]
            n = a[6] if len(a) > 6 else 1
            A = (-fv + mpmath.sqrt(fv * fv + 8 * k * fv * fr)) / (4 * k)
            return (A, fp + n * k * A * A / fv), fv
    return None, 0


@harness("C17", "numeric_backends_over_the_whole_time_axis", functions=[MOD + ":dimerization_irrev", MOD + ":pseudo_irrev", MOD + ":pseudo_rev", MOD + ":binary_irrev", MOD + ":binary_rev",
                                                                       MOD + ":unary_irrev_cstr", MOD + ":binary_irrev_cstr"], kind="data")
def _(v):
    """'can be evaluated with each numeric or symbolic backend … and give the same values' along the whole time axis, not only where the
    exponentials are moderate: from t = 0 to long after completion (rate constant x time up to 1e7, far beyond exp's float range 709) the numpy
    and math backends return finite numbers that agree with the sympy backend's 50-digit value on the same (exact) arguments (relative 1e-9 plus the
    rounding of sums of terms of the concentrations' size, 1e-12 x the largest concentration among the arguments).  Two values on this axis are known
    without any closed form and are compared with the float results directly: at t = 0 the stated initial concentration ('equals the stated initial
    concentration at time zero', for the float backends), and at t = 1e7 -- where at least 60 relaxation times have passed -- the steady state of the rate
    equation (which root / asymptote the float evaluation ends on is not said by the identities over the reals)"""
    import warnings
    import sympy
    from chempy.kinetics import integrated as I
    # (label, function, arguments, largest concentration among the arguments -- the scale of rounding errors of sums --,
    #  relative tolerance: 1e-9 (+ 1e-12 x scale), or 1e-6 (+ 1e-7 x scale) where the formula is ill-conditioned in floats -- equimolar reactants with a
    #  negligible back reaction, nearly equimolar reactants of the irreversible reaction (0/0 in the limit), 1 - exp(-tiny), a reaction much slower than the feed -- there the obligation is 'a finite number near the value', not accuracy)
    cases = [("dimerization_irrev", I.dimerization_irrev, (2.0, 1.5), 1.5, 1e-9),
             ("pseudo_irrev", I.pseudo_irrev, (2.0, 0.1, 3.0, 0.5), 3.0, 1e-9), ("pseudo_rev", I.pseudo_rev, (2.0, 1.0, 0.1, 3.0, 0.5), 3.0, 1e-9),
             ("binary_irrev", I.binary_irrev, (2.0, 0.1, 3.0, 0.5), 3.0, 1e-9), ("binary_irrev_fast", I.binary_irrev, (1e10, 0.0, 1.3e-6, 3e-7), 1.3e-6, 1e-9),
             ("binary_rev", I.binary_rev, (2.0, 1.0, 0.1, 3.0, 0.5), 3.0, 1e-9),
             ("binary_rev_equimolar_tight", I.binary_rev, (1e10, 1e-13, 0.0, 1e-6, 1e-6), 1e-6, 1e-6),
             ("binary_rev_nearly_equimolar", I.binary_rev, (1.0, 1e-17, 0.0, 1.000000001, 1.0), 1.0, 1e-6),
             ("binary_rev_nearly_equimolar_with_product", I.binary_rev, (1.0, 1e-18, 0.5, 2.000000001, 2.0), 2.0, 1e-6),
             ("unary_irrev_cstr", I.unary_irrev_cstr, (2.0, 1.0, 0.1, 3.0, 0.5, 1.0), 3.0, 1e-9), ("binary_irrev_cstr", I.binary_irrev_cstr, (2.0, 1.0, 0.1, 3.0, 0.5, 1.0), 3.0, 1e-9),
             ("binary_irrev_cstr_slow_feed", I.binary_irrev_cstr, (0.5, 0.2, 0.0, 1.0, 0.25, 40.0, 3), 1.0, 1e-9),
             # other regimes of the parameters than 'everything of order one' (rate constants from 1e-12 to 1e10, micromolar concentrations, no product at the start):
             ("pseudo_irrev_fast", I.pseudo_irrev, (1e10, 0.0, 1e-5, 1e-6), 1e-5, 1e-9), ("pseudo_rev_tight", I.pseudo_rev, (1e10, 1e-13, 0.0, 1e-5, 1e-6), 1e-5, 1e-9),
             ("binary_irrev_nearly_equimolar", I.binary_irrev, (1.0, 0.0, 1.000001, 1.0), 1.0, 1e-6),
             ("unary_irrev_cstr_slow_reaction", I.unary_irrev_cstr, (1e-12, 1.0, 0.0, 1.0, 0.0, 1.0), 1.0, 1e-9), ("unary_irrev_cstr_fast_reaction", I.unary_irrev_cstr, (1e8, 1.0, 0.0, 1.0, 0.0, 1.0), 1.0, 1e-9),
             ("unary_irrev_cstr_slow_feed", I.unary_irrev_cstr, (1.0, 1.0, 0.0, 2.0, 0.0, 1e-9), 2.0, 1e-9),
             ("binary_irrev_cstr_fast_reaction", I.binary_irrev_cstr, (1e8, 1.0, 0.0, 1.0, 0.0, 1.0), 1.0, 1e-9), ("binary_irrev_cstr_slow_reaction", I.binary_irrev_cstr, (1e-6, 1.0, 0.0, 1.0, 0.0, 1.0), 1.0, 1e-6)]
    times = (0.0, 1e-9, 1e-3, 0.3, 7.0, 100.0, 400.0, 1000.0, 1e5, 1e7)
    ts = sympy.Symbol("t", nonnegative=True)
    exact = lambda x: sympy.Rational(x)       # the exact value of the float (or int) that the numeric backends are given (nsimplify would turn 1.000000001 into 1)

    def evaluate(fn, tt, args, be):
        with warnings.catch_warnings():
            warnings.simplefilter("ignore")
            got = fn(tt, *args, **({"backend": be} if be is not None else {}))
        got = got if isinstance(got, tuple) else (got,)
        return [float(g) for g in got]
    for label, fn, args, cscale, rtol_ in cases:
        name = fn.__name__
        backends = ("numpy", "math") if _bk(fn, None) else (None,)
        near = lambda g, w: math.isfinite(g) and abs(g - float(w)) <= rtol_ * abs(float(w)) + (1e-12 if rtol_ < 1e-8 else 1e-7) * cscale
        bad = []
        try:
            ex = fn(ts, *[exact(a) for a in args], **({"backend": sympy} if _bk(fn, None) else {}))
            ex = ex if isinstance(ex, tuple) else (ex,)
            for tt in times:
                want = [sympy.N(e.subs(ts, exact(tt)), 50) for e in ex]
                if not all(w.is_real and w.is_finite for w in want):
                    bad.append(("sympy", tt, str(want)[:60])); continue
                for be in backends:
                    try:
                        got = evaluate(fn, tt, args, be)
                    except Exception as exc:
                        bad.append((be, tt, repr(exc)[:60])); continue
                    bad.extend((be, tt, g, float(w)) for g, w in zip(got, want) if not near(g, w))
                    if len(got) != len(want):
                        bad.append((be, tt, "number of results", len(got)))
        except Exception as exc:
            bad.append(("symbolic backend", repr(exc)[:200]))
        v.prove(label + ".finite_and_equal_to_the_symbolic_value", not bad, detail=repr(bad[:3]))
        # t = 0: the stated initial concentration (from the arguments)
        bad, start = [], _start_of(name, args)
        for be in backends:
            try:
                got = evaluate(fn, 0.0, args, be)
                bad.extend((be, g, w) for g, w in zip(got, start) if not near(g, w))
                if len(got) != len(start):
                    bad.append((be, "number of results", len(got)))
            except Exception as exc:
                bad.append((be, repr(exc)[:60]))
        v.prove(label + ".float_value_at_time_zero_is_the_stated_initial_concentration", not bad, detail=repr(bad[:3]))
        # t = 1e7: the steady state of the rate equation, where the mechanism has relaxed by then (exp(-60) of the initial distance is left at most)
        steady, rate = _steady_state(name, args)
        if steady is not None and rate * times[-1] >= 60:
            bad = []
            for be in backends:
                try:
                    got = evaluate(fn, times[-1], args, be)
                    bad.extend((be, g, float(w)) for g, w in zip(got, steady) if not near(g, w))
                    if len(got) != len(steady):
                        bad.append((be, "number of results", len(got)))
                except Exception as exc:
                    bad.append((be, repr(exc)[:60]))
            v.prove(label + ".float_value_long_after_completion_is_the_steady_state_of_the_rate_equation", not bad, detail=repr(bad[:3]))


# values of order one, all different, major > minor (the documented order)
_BASE_VALUES = {"kf": 0.7, "kb": 0.45, "prod": 0.2, "major": 1.3, "minor": 0.6, "initial_C": 1.2, "k": 0.8, "r": 1.1, "p": 0.25, "fr": 1.6, "fp": 0.35, "fv": 0.9}


def _coincidences(argnames):
    """(label, arguments): every pair of parameters given the SAME value (Python == holds between them), and all parameters the same value -- keeping
    major >= minor, the documented order of the two reactants"""
    base = [_BASE_VALUES[n] for n in argnames]
    ordered = lambda a: "major" not in argnames or a[argnames.index("major")] >= a[argnames.index("minor")]
    out = []
    for i in range(len(argnames)):
        for j in range(i + 1, len(argnames)):
            for val in (base[i], base[j]):
                a = list(base)
                a[i] = a[j] = val
                if ordered(a):
                    out.append(("%s=%s" % (argnames[i], argnames[j]), tuple(a)))
                    break
    out.append(("all_parameters_equal", tuple(0.5 for _ in argnames)))
    return out


@harness("C17", "coinciding_parameters", functions=[MOD + ":dimerization_irrev", MOD + ":pseudo_irrev", MOD + ":pseudo_rev", MOD + ":binary_irrev", MOD + ":binary_rev", MOD + ":unary_irrev_cstr",
                                                    MOD + ":binary_irrev_cstr"], kind="data")
def _(v):
    """'identically in time and in all parameters ... for all positive rate constants, initial/feed concentrations': also where two parameters have the
    SAME value (equimolar reactants, a rate constant equal to the feed rate, the tank started at the feed concentration, ...).  The symbolic identities are
    proved for independent symbols and cannot see what a closed form does when Python's == holds between two of its arguments (a branch for a special
    case), nor a removable singularity there; so for every pair of parameters made equal (and for all equal) each advertised backend is run on numbers and
    every finite value it returns at t = 0, 0.4, 1.7, 4 must be the solution of the mechanism's initial value problem -- the rate equation of the property
    statement (the one the .ode harness is written with) integrated from the stated initial concentration by mpmath's Taylor-series integrator with 25
    digits, no closed form involved.  The sympy backend gets the exact rationals of the same floats.
    Only at the removable singularity that the assumptions name (binary_irrev with major == minor: the expression divides by their difference) a backend may
    refuse -- raise, or return nan/inf --; whatever it returns there as a finite number is held to the same rate equation (for equimolar A + B -> P:
    d[P]/dt = kf (c - xi)^2, i.e. P = prod + c^2 kf t / (1 + c kf t)).  Everywhere else the closed form has to evaluate."""
    import warnings
    import mpmath
    import numpy
    import sympy
    from chempy.kinetics import integrated as I
    times = (0.0, 0.4, 1.7, 4.0)

    def reference(rhs, init, nres, args):
        with mpmath.workdps(25):
            a = [mpmath.mpf(x) for x in args]
            y0 = init(*a)
            y0 = list(y0) if nres > 1 else [y0]
            if nres > 1:
                F = lambda t, y: list(rhs(tuple(y), *a))
            else:
                F = lambda t, y: [rhs(y[0], *a)]
            sol = mpmath.odefun(F, 0, y0)
            return {tt: [float(c) for c in sol(tt)] for tt in times}

    def evaluate(fn, tt, args, be):
        """the list of floats a backend returns, or None for a refusal (an exception, or a result that is not a finite real number)"""
        try:
            with warnings.catch_warnings():
                warnings.simplefilter("ignore")
                if be is sympy:
                    got = fn(sympy.Rational(tt), *[sympy.Rational(x) for x in args], **_bk(fn, be))
                    got = got if isinstance(got, tuple) else (got,)
                    got = [sympy.N(g, 30) for g in got]
                    if not all(g.is_real and g.is_finite for g in got):
                        return None, "not a finite real number: %s" % (got,)
                else:
                    got = fn(tt, *args, **_bk(fn, be))
                    got = got if isinstance(got, tuple) else (got,)
                got = [float(g) for g in got]
        except Exception as exc:
            return None, repr(exc)[:80]
        return (got, "") if all(math.isfinite(g) for g in got) else (None, "not finite: %s" % (got,))

    for name, (argnames, rhs, init, nres) in sorted(_RATE_EQUATIONS.items()):
        fn = getattr(I, name, None)
        if fn is None:
            v.prove(name + ".is_offered", False, detail="chempy.kinetics.integrated has no %s" % name)
            continue
        backends = (("math", math), ("numpy", numpy), ("sympy", sympy)) if _bk(fn, None) else (("default", None),)
        for label, args in _coincidences(argnames):
            removable = name == "binary_irrev" and args[argnames.index("major")] == args[argnames.index("minor")]
            bad = []
            try:
                want = reference(rhs, init, nres, args)
            except Exception as exc:       # of the reference integration (not of the code under test)
                want, bad = None, [("reference integration", repr(exc)[:120])]
            scale = max(args)
            for bname, be in (backends if want else ()):
                for tt in times:
                    got, why = evaluate(fn, tt, args, be)
                    if got is None:
                        if not removable:
                            bad.append((bname, tt, "not evaluated", why))
                        continue
                    if len(got) != nres:
                        bad.append((bname, tt, "number of results", len(got)))
                    bad.extend((bname, tt, g, w) for g, w in zip(got, want[tt]) if not abs(g - w) <= 1e-9 * abs(w) + 1e-11 * scale)
            v.prove("%s.%s.%s" % (name, label, "refused_or_solves_the_rate_equation_from_the_stated_start" if removable else "solves_the_rate_equation_from_the_stated_start"),
                    not bad, detail="%s%r: (backend, t, returned, solution of the initial value problem) %r" % (name, args, bad[:3]))
