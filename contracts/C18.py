"""C18  Ionic strength and Debye-Hueckel terms follow their definitions in any units."""
import fractions
import math

from pyvc.api import harness
from pyvc import spec as SP
from pyvc.objs import make_obj
from pyvc.interp import SymOpt
from pyvc.sym import Sym

META = {
    "explanation": "ionic_strength proved for sequences of any length (two loop invariants over None-initialised accumulators, allclose inlined) and, for 1-3 ions, with every molality in a generic unit of its own; the neutrality warning within a band that copies no threshold (silent when exactly neutral, issued from 1e-12 relative on: the quantifier's 12 decades); A/B proved to have the stated functional form (incl. the reference molality) on both code paths, every division and root defined on the range, the built-in factors tied by data obligations to CODATA (elementary-charge form), to textbook values and (1e-9) to the library's constants path; A/B and the log-gammas with quantities in generic units equal the plain calls; log-gamma formulas for any positive I0, their limits and the activity products (loop invariants; with C given and with C left at its default) proved",
    "trusted_base": ["assumed contract 5.3 (sqrt/exp as real functions)", "assumed contract 5.1 (pyvc/qmodel.py) for the `quantities` package in the *.units harnesses, validated against the real package in C09",
                     "CODATA constants typed into this file (e, NA, eps0, kB)", "textbook values for water at 25 C (A/ln10 = 0.509, B = 3.28e9 1/m)"],
    "not_decided": ["with-units paths under the real `quantities` package beyond the sampled runs and the grid of A.B.hardcoded_factors (bounded stand-in C18/C09)",
                    "definedness inside the activity products is assumed there (nlsat does not decide it through the nested roots); it is an obligation for A, B and the log-gammas they call"],
    "assumptions": [],
}
MOD = "chempy.electrolytes"


def isnone(x):
    if x is None:
        return True
    if isinstance(x, SymOpt):
        from pyvc.sym import wrap
        return wrap(x.isnone)
    return False


def optval(x):
    return x.value if isinstance(x, SymOpt) else x


def opt_shape(name, old):
    """havoc shape BY ROLE: a loop-carried variable that is None (or already an optional number) when the loop starts becomes 'None or a real number';
    anything else gets the engine's default fresh value of its kind.  (What the code calls the variable plays no part.)"""
    if not (old is None or isinstance(old, SymOpt)):
        return None
    import z3
    from pyvc.sym import fresh_name
    return SymOpt(z3.Bool(fresh_name(name + ".isnone")), Sym(z3.Real(fresh_name(name))))


def acc_inv(term, nonneg=False):
    """invariant of a loop that folds `term` of the elements of the sequence it iterates into ONE None-initialised accumulator: None before the
    first element, afterwards the sum of the terms so far.  The accumulator is found by role (env["@acc"]: the single loop-carried variable),
    not by its name in the source: the invariant is a proof aid, not part of the property."""
    def inv(env, i, seq):
        x = env["@acc"]
        if isinstance(i, int) and i == 0:
            return isnone(x)
        cs = [SP.iff(isnone(x), i == 0)]
        if x is not None:
            cs.append(SP.implies(i > 0, optval(x) == SP.ssum_prefix(seq, i, term)))
            if nonneg:
                cs.append(SP.implies(i > 0, optval(x) >= 0))
        return SP.conj(cs)
    return inv


def terms_inv(env, i, seq):
    """the same fold when the loop iterates the already-formed terms (the accumulation moved into a helper that is handed b z^2 resp. b z as a
    generator expression): None before the first element, afterwards the sum of the first i elements of the sequence the loop iterates -- and
    not negative if no element of that sequence is (one statement that is true of both sums, so it need not know which of the two it serves)"""
    x = env["@acc"]
    if isinstance(i, int) and i == 0:
        return isnone(x)
    cs = [SP.iff(isnone(x), i == 0)]
    if x is not None:
        cs.append(SP.implies(i > 0, optval(x) == SP.ssum_prefix(seq, i)))
        cs.append(SP.implies(SP.conj([i > 0, SP.forall(seq, lambda t: t >= 0)]), optval(x) >= 0))
    return SP.conj(cs)


def one_none_accumulator(v):
    """where= predicate, by shape: a for-loop with exactly one loop-carried variable, which is None when the loop starts"""
    def pred(for_node, frame, seq):
        try:
            carried = v.interp.carried_names(for_node, frame)
            return len(carried) == 1 and frame.lookup(carried[0]) is None
        except Exception:
            return False
    return pred


@harness("C18", "ionic_strength.seq", functions=[MOD + ":ionic_strength", "chempy.units:allclose"], samples=60)
def _(v):
    from chempy import electrolytes
    b = v.seq("molalities", "real", lo=0, hi=20, maxlen=5)
    z = v.seq("charges", "int", lo=-4, hi=4, maxlen=5)
    if not v.symbolic:
        z = z[:len(b)] + [1] * (len(b) - len(z))
        delta = v.choice("near_neutral_delta", [None, None, 0.0, 1e-3, 1e-9, 1e-12, 1e-15])
        if delta is not None and len(b) >= 1:
            # nearly charge-neutral compositions: pairs of opposite charges with molalities x and x(1+delta)
            zz, bb = [], []
            for bi, zi in zip(b, z):
                zi = zi or 1
                zz += [zi, -zi]
                bb += [bi + 0.5, (bi + 0.5) * (1 + delta)]
            b, z = bb, zz
    warn = v.bool("warn")
    n = len(b) if not v.symbolic else b.sym_len()
    v.assume(SP.conj([n == (len(z) if not v.symbolic else z.sym_len()), n >= 1]))
    t_is = lambda bz: bz[0] * bz[1] * bz[1]
    t_net = lambda bz: bz[0] * bz[1]
    v.invariant(electrolytes.ionic_strength, 0, acc_inv(t_is, nonneg=True), shapes=opt_shape)
    v.invariant(electrolytes.ionic_strength, 1, acc_inv(t_net), shapes=opt_shape)
    if v.symbolic:     # offered by shape to a loop that has no invariant of its own (the two loops above extracted into one helper): proof aid only
        v.invariant(MOD + ":ionic_strength", "accumulation of ready-made terms", terms_inv, shapes=opt_shape, where=one_none_accumulator(v))
    out = v.run(electrolytes.ionic_strength, b, z, warn=warn)
    v.prove("returns", out.returned, detail=repr(out.exc))
    if out.returned:
        pairs = list(zip(b, z)) if not v.symbolic else SP_zip(b, z)
        tot = SP.ssum(pairs, t_is)
        net = SP.ssum(pairs, t_net)
        v.prove("post", v.eq(out.value, tot / 2))
        v.prove("canary", SP.neg(v.eq(out.value, tot / 2 + 1)))
        _warning_obligations(v, warn, net, tot)


def _warning_obligations(v, warn, net, tot):
    """'a charge-imbalance warning is issued when the composition is not neutral and not when it is'; net = sum b z, tot = sum b z^2 (physical values)"""
    nw = _neutrality_warnings(v)
    if len(nw) > 0:
        # 'not when it is [neutral]'.  Exact comparison (in the sampled mode v.eq would be a tolerance test and call a net charge of 1e-13 'neutral')
        v.prove("warned_only_if_enabled_and_not_neutral", SP.conj([warn, SP.neg(net == 0)]))
    else:
        # 'issued when the composition is not neutral': the property names no threshold, so none is copied from the code.  What it does fix is the
        # quantifier, molalities over 12 decades: an unbalanced ion 12 decades below the rest is still 'not neutral', i.e. a net charge of 1e-12 of
        # sum b z^2 or more must be reported.  Between exact neutrality (obligation above) and that bound the implementation is free (the round-off
        # of the two sums lives there: ~1e-16 relative per term); a tolerance of 1e-12 relative or looser is a violation
        absnet = SP.ite(net >= 0, net, -net)
        v.prove("silent_only_if_disabled_or_nearly_neutral", SP.disj([SP.neg(warn), absnet <= tot * 1e-12 + (0 if v.symbolic else 1e-18)]))
    v.prove("at_most_one_warning", len(nw) <= 1)


def _neutrality_warnings(v):
    """the warnings issued during the call.  The property says THAT a charge-imbalance warning is issued (or not), nothing about its wording, so the
    message text is not read: every warning event of the call counts.  (The engine records no category; in these harnesses the charges are handed over
    as numbers / Substance objects, so no parser or other machinery that might warn about something else runs underneath ionic_strength.)"""
    return list(v.events("warning"))


# categories that by their definition in the standard library are about the code (deprecations, imports, resources, syntax), not about the data
# handed to a function: a warning of such a category (pyparsing's deprecation warnings under the formula parser, ...) is neither the warning the
# property asks for nor forbidden by it.  Everything else that is issued during the call counts as 'a warning was issued', whatever its text
_WARNINGS_ABOUT_THE_CODE = (DeprecationWarning, PendingDeprecationWarning, FutureWarning, ImportWarning, ResourceWarning, SyntaxWarning, BytesWarning)


def SP_zip(a, b):
    from pyvc.containers import SymSeq
    return SymSeq(a.sym_len(), lambda i: (a.at(i), b.at(i)), "zip")


@harness("C18", "ionic_strength.length_mismatch", functions=[MOD + ":ionic_strength"], samples=10)
def _(v):
    from chempy import electrolytes
    b = v.seq("molalities", "real", lo=0, hi=20, maxlen=3)
    z = v.seq("charges", "int", lo=-4, hi=4, maxlen=4)
    nb = len(b) if not v.symbolic else b.sym_len()
    nz = len(z) if not v.symbolic else z.sym_len()
    v.assume(SP.neg(nb == nz))
    out = v.run(electrolytes.ionic_strength, b, z)
    v.prove("raises_ValueError", out.raised(ValueError), detail=repr(out.exc))


def _is_dict(n):
    @harness("C18", "ionic_strength.dict%d" % n, functions=[MOD + ":ionic_strength", "chempy.chemistry:Substance.charge"], kind="shape-bounded", samples=20)
    def _(v):
        from chempy import electrolytes
        from chempy.chemistry import Substance
        keys = ["X%d" % i for i in range(n)]
        bs = [v.real("b%d" % i, lo=0, hi=10) for i in range(n)]
        zs = [v.int("z%d" % i, lo=-4, hi=4) for i in range(n)]
        substances = {k: make_obj(Substance, name=k, composition={0: z, 1: 1}, data={}) for k, z in zip(keys, zs)}
        warn = v.bool("warn")
        out = v.run(electrolytes.ionic_strength, dict(zip(keys, bs)), substances=substances, warn=warn)
        v.prove("returns", out.returned, detail=repr(out.exc))
        if out.returned:
            v.prove("post", v.eq(out.value, sum(b * z * z for b, z in zip(bs, zs)) / 2))
            _warning_obligations(v, warn, sum(b * z for b, z in zip(bs, zs)), sum(b * z * z for b, z in zip(bs, zs)))


for _n in (1, 2, 3):
    _is_dict(_n)


# ---- Debye-Hueckel A and B -------------------------------------------------------
# CODATA 2018 values typed in (e, NA, kB exact by the 2019 SI; eps0 measured); F = e NA and R = kB NA follow
CODATA = dict(e=1.602176634e-19, NA=6.02214076e23, eps0=8.8541878128e-12, kB=1.380649e-23, pi=math.pi)
CODATA["F"] = CODATA["e"] * CODATA["NA"]
CODATA["R"] = CODATA["kB"] * CODATA["NA"]


class _Consts:
    def __init__(self, **kw):
        self.__dict__.update(kw)


def _AB_inputs(v, tag=""):
    """one point of the property's range (T 250..650 K, relative permittivity 5..100, density 500..1500 kg/m3) and a reference molality"""
    return (v.real("eps_r" + tag, lo=5, hi=100), v.real("T" + tag, lo=250, hi=650), v.real("rho" + tag, lo=500, hi=1500), v.real("b0" + tag, lo=0.1, hi=10))


@harness("C18", "A.numeric_path", functions=[MOD + ":A", MOD + ":_get_b0"], div_mode="oblige", samples=20)
def _(v):
    """built-in numeric path of A: the functional form of the definition, A^2 proportional to rho b0 / (T eps_r)^3, stated without the constant
    (two independent points of the range; the value of the constant is tied once, in A.B.hardcoded_factors, to the physical constants and to
    the constants path); *.defined.*: every division and root of the code is defined on the whole range"""
    from chempy import electrolytes
    eps, T, rho, b0 = _AB_inputs(v)
    eps2, T2, rho2, b02 = _AB_inputs(v, "'")
    a = v.call(electrolytes.A, eps, T, rho, b0)
    a2 = v.call(electrolytes.A, eps2, T2, rho2, b02)
    v.prove_identity("square_form", a * a * (T * T * T * eps * eps * eps) * (rho2 * b02), a2 * a2 * (T2 * T2 * T2 * eps2 * eps2 * eps2) * (rho * b0), rel=1e-12)
    v.prove("positive", a > 0)
    v.prove_identity("default_b0_is_one", v.call(electrolytes.A, eps, T, rho), v.call(electrolytes.A, eps, T, rho, 1), rel=1e-15)


@harness("C18", "A.constants_path", functions=[MOD + ":A"], div_mode="oblige", samples=20)
def _(v):
    """A computed from physical constants: A = F^3/(4 pi NA) sqrt(rho b0 / (2 (eps0 eps_r kB NA T)^3)) for ANY positive values of the constants
    (pi is the number pi: where the code takes it from is not part of the property)"""
    from chempy import electrolytes
    eps, T, rho, b0 = _AB_inputs(v)
    if v.symbolic:
        cs = _Consts(Faraday_constant=v.real("F", pos=True), Avogadro_constant=v.real("NA", pos=True), vacuum_permittivity=v.real("eps0", pos=True),
                     Boltzmann_constant=v.real("kB", pos=True), pi=math.pi)
    else:
        cs = _Consts(Faraday_constant=CODATA["F"], Avogadro_constant=CODATA["NA"], vacuum_permittivity=CODATA["eps0"], Boltzmann_constant=CODATA["kB"], pi=CODATA["pi"])
    F, NA, e0, kB = cs.Faraday_constant, cs.Avogadro_constant, cs.vacuum_permittivity, cs.Boltzmann_constant
    pi = fractions.Fraction(repr(math.pi)) if v.symbolic else math.pi     # assumption A2: the engine reads the float the code works with as its shortest decimal
    a = v.call(electrolytes.A, eps, T, rho, b0, cs)
    # definition: A = F^3/(4 pi NA) * sqrt(rho b0 / (2 (eps0 eps_r kB NA T)^3))  =>  A^2 * 32 pi^2 NA^5 eps0^3 kB^3 T^3 eps_r^3 = F^6 rho b0
    lhs = a * a * (32 * pi * pi * NA ** 5 * e0 ** 3 * kB ** 3 * T ** 3 * eps ** 3)
    v.prove_identity("square_form", lhs, F ** 6 * rho * b0, rel=1e-9)
    v.prove("positive", a > 0)


def _AB_expected(eps, T, rho, b0=1.0):
    """Debye-Hueckel constants in the elementary-charge form of the textbooks (ln-based A, SI): A = sqrt(2 pi NA rho b0) (e^2/(4 pi eps0 eps_r kB T))^(3/2),
    B = sqrt(2 e^2 NA rho b0 / (eps0 eps_r kB T)) (kappa = B sqrt(I/b0)); deliberately NOT the F/NA/R arrangement of the code"""
    c = CODATA
    lB4pi = c["e"] ** 2 / (4 * math.pi * c["eps0"] * eps * c["kB"] * T)
    return math.sqrt(2 * math.pi * c["NA"] * rho * b0) * lB4pi ** 1.5, math.sqrt(2 * c["e"] ** 2 * c["NA"] * rho * b0 / (c["eps0"] * eps * c["kB"] * T))


@harness("C18", "A.B.hardcoded_factors", functions=[MOD + ":A", MOD + ":B"], kind="data")
def _(v):
    """'A and B computed from physical constants with units agree with the built-in numeric path': the value of the built-in constants.
    The functional form is proved in A/B.numeric_path, so one point ties the constant; it is tied loosely (1e-5: CODATA revisions differ by ~2e-6) to
    the typed-in physical constants and to the textbook values for water at 25 C, and tightly (1e-9: 'agree') to the library's own constants path"""
    from chempy import electrolytes
    try:
        A_e, B_e = _AB_expected(78.4, 298.15, 997.0)
        A_c, B_c = float(electrolytes.A(78.4, 298.15, 997.0)), float(electrolytes.B(78.4, 298.15, 997.0))
        v.prove("A_factor_is_CODATA", abs(A_c / A_e - 1) < 1e-5, "A(78.4, 298.15, 997) = %r vs %r from e, NA, kB, eps0" % (A_c, A_e))
        v.prove("B_factor_is_CODATA", abs(B_c / B_e - 1) < 1e-5, "B(78.4, 298.15, 997) = %r vs %r from e, NA, kB, eps0" % (B_c, B_e))
        # Atkins / Robinson & Stokes, water at 25 C: A/ln(10) = 0.509 (kg/mol)^1/2, B = 0.328 1/Angstrom (three figures given)
        v.prove("A_textbook_water_25C", abs(A_c / math.log(10) / 0.509 - 1) < 5e-3, "A/ln10 = %r" % (A_c / math.log(10),))
        v.prove("B_textbook_water_25C", abs(B_c / 3.28e9 - 1) < 5e-3, "B = %r 1/m" % (B_c,))
    except Exception as ex:
        v.prove("A_factor_is_CODATA", False, detail="raised %r" % (ex,))
    # the code paths agree on a grid: numeric constant vs constants object of the real package (with units), and the numeric constant with units
    # (also for a density in g/cm3 and a reference molality of 4 mol/kg = factor 2: 'in any units')
    try:
        from chempy.units import default_constants as dc, default_units as u, to_unitless
        worst, worst_u = 0.0, 0.0
        for T in (250.0, 298.15, 400.0, 650.0):
            for eps in (5.0, 78.4, 100.0):
                for rho in (500.0, 997.0, 1500.0):
                    a1 = electrolytes.A(eps, T, rho)
                    b1 = electrolytes.B(eps, T, rho)
                    a2 = electrolytes.A(eps, T * u.K, rho * u.kg / u.m ** 3, 1 * u.mol / u.kg, dc, u)
                    b2 = electrolytes.B(eps, T * u.K, rho * u.kg / u.m ** 3, 1 * u.mol / u.kg, dc, u)
                    worst = max(worst, abs(float(to_unitless(a2, 1)) / a1 - 1), abs(float(to_unitless(b2, 1 / u.m)) / b1 - 1))
                    for rq, bq, f in ((rho * u.kg / u.m ** 3, None, 1.0), ((rho / 1000) * u.g / u.cm ** 3, None, 1.0), (rho * u.kg / u.m ** 3, 4 * u.mol / u.kg, 2.0),
                                      (rho * u.kg / u.m ** 3, 250 * u.mmol / u.kg, 0.5)):
                        kw = {} if bq is None else {"b0": bq}
                        a3 = electrolytes.A(eps, T * u.K, rq, units=u, **kw)
                        b3 = electrolytes.B(eps, T * u.K, rq, units=u, **kw)
                        a4 = electrolytes.A(eps, T * u.K, rq, constants=dc, units=u, **kw)
                        b4 = electrolytes.B(eps, T * u.K, rq, constants=dc, units=u, **kw)
                        worst_u = max(worst_u, abs(float(to_unitless(a3, 1)) / (f * a1) - 1), abs(float(to_unitless(b3, 1 / u.m)) / (f * b1) - 1),
                                      abs(float(to_unitless(a4, 1)) / (f * a1) - 1), abs(float(to_unitless(b4, 1 / u.m)) / (f * b1) - 1))
        v.prove("paths_agree_on_grid", worst < 1e-9, "worst relative deviation %g" % worst)
        v.prove("paths_with_units_agree_on_grid", worst_u < 1e-9, "worst relative deviation %g" % worst_u)
    except Exception as ex:
        v.prove("paths_agree_on_grid", False, detail="raised %r" % (ex,))


@harness("C18", "B.numeric_path", functions=[MOD + ":B"], div_mode="oblige", samples=20)
def _(v):
    """built-in numeric path of B: B^2 proportional to rho b0 / (T eps_r), stated without the constant (value: A.B.hardcoded_factors)"""
    from chempy import electrolytes
    eps, T, rho, b0 = _AB_inputs(v)
    eps2, T2, rho2, b02 = _AB_inputs(v, "'")
    b = v.call(electrolytes.B, eps, T, rho, b0)
    b2 = v.call(electrolytes.B, eps2, T2, rho2, b02)
    v.prove_identity("square_form", b * b * (T * eps) * (rho2 * b02), b2 * b2 * (T2 * eps2) * (rho * b0), rel=1e-12)
    v.prove("positive", b > 0)
    v.prove_identity("default_b0_is_one", v.call(electrolytes.B, eps, T, rho), v.call(electrolytes.B, eps, T, rho, 1), rel=1e-15)


@harness("C18", "B.constants_path", functions=[MOD + ":B"], div_mode="oblige", samples=20)
def _(v):
    """B computed from physical constants: B = F sqrt(2 rho b0 / (eps_r eps0 R T)) for any positive values of the constants"""
    from chempy import electrolytes
    eps, T, rho, b0 = _AB_inputs(v)
    if v.symbolic:
        cs = _Consts(Faraday_constant=v.real("F", pos=True), vacuum_permittivity=v.real("eps0", pos=True), molar_gas_constant=v.real("R", pos=True))
    else:
        cs = _Consts(Faraday_constant=CODATA["F"], vacuum_permittivity=CODATA["eps0"], molar_gas_constant=CODATA["R"])
    b = v.call(electrolytes.B, eps, T, rho, b0, cs)
    v.prove_identity("square_form", b * b * (eps * cs.vacuum_permittivity * cs.molar_gas_constant * T), cs.Faraday_constant ** 2 * 2 * rho * b0, rel=1e-9)
    v.prove("positive", b > 0)


# ---- log gamma ------------------------------------------------------------------------
def _lg_inputs(v):
    IS = v.real("IS", lo=0, hi=5)
    z = v.int("z", lo=-4, hi=4)
    A = v.real("A", lo=0.1, hi=3)
    return IS, z, A


def _sqrt(v, x):
    if v.symbolic:
        from pyvc.stubs import sym_sqrt
        return sym_sqrt(x) if isinstance(x, Sym) else math.sqrt(x)
    return math.sqrt(x)


@harness("C18", "limiting_log_gamma", functions=[MOD + ":limiting_log_gamma"], div_mode="oblige", samples=30)
def _(v):
    from chempy import electrolytes as E
    IS, z, A = _lg_inputs(v)
    r = v.call(E.limiting_log_gamma, IS, z, A)
    v.prove_identity("formula", r, -A * z * z * _sqrt(v, IS))
    v.prove_identity("zero_at_I0", v.call(E.limiting_log_gamma, 0, z, A), 0 * A)
    I0 = v.real("I0", pos=True, hi=2)       # any positive reference (IS in mmol/kg means I0 = 1e-3 in SI); hi: sampling only
    r2 = v.call(E.limiting_log_gamma, IS, z, A, I0)
    v.prove_identity("I0_scaling", r2 * r2 * I0, A * A * z * z * z * z * IS)


@harness("C18", "extended_log_gamma", functions=[MOD + ":extended_log_gamma"], div_mode="oblige", samples=30)
def _(v):
    from chempy import electrolytes as E
    IS, z, A = _lg_inputs(v)
    a, B, C = v.real("a", lo=0, hi=9), v.real("B", lo=0, hi=5), v.real("C", lo=-1, hi=1)
    s = _sqrt(v, IS)
    r = v.call(E.extended_log_gamma, IS, z, a, A, B, C)
    v.prove_identity("formula", r, -A * z * z * s / (1 + B * a * s) + C * IS)
    v.prove_identity("reduces_to_limiting", v.call(E.extended_log_gamma, IS, z, 0, A, B, 0), v.call(E.limiting_log_gamma, IS, z, A))
    v.prove_identity("zero_at_I0", v.call(E.extended_log_gamma, 0, z, a, A, B, C), 0 * A)
    v.prove_identity("default_C_is_zero", v.call(E.extended_log_gamma, IS, z, a, A, B), -A * z * z * s / (1 + B * a * s))
    # reference ionic strength I0 (the unit of IS): the formula is in IS/I0 throughout, with the sign of the limiting law
    I0 = v.real("I0", pos=True, hi=2)       # any positive reference (IS in mmol/kg means I0 = 1e-3 in SI); hi: sampling only
    s0 = _sqrt(v, IS / I0)
    v.prove_identity("with_reference_ionic_strength", v.call(E.extended_log_gamma, IS, z, a, A, B, C, I0), -A * z * z * s0 / (1 + B * a * s0) + C * (IS / I0))
    v.prove_identity("limiting_with_reference_ionic_strength", v.call(E.limiting_log_gamma, IS, z, A, I0), -A * z * z * s0)


@harness("C18", "davies_log_gamma", functions=[MOD + ":davies_log_gamma"], div_mode="oblige", samples=30)
def _(v):
    from chempy import electrolytes as E
    IS, z, A = _lg_inputs(v)
    C = v.real("C", lo=-1, hi=1)
    s = _sqrt(v, IS)
    r = v.call(E.davies_log_gamma, IS, z, A, C)
    v.prove_identity("formula", r, -A * z * z * (s / (1 + s) + C * IS))
    v.prove_identity("zero_at_I0", v.call(E.davies_log_gamma, 0, z, A, C), 0 * A)
    v.prove_identity("default_C", v.call(E.davies_log_gamma, IS, z, A), -A * z * z * (s / (1 + s) - 0.3 * IS))
    I0 = v.real("I0", pos=True, hi=2)       # any positive reference (IS in mmol/kg means I0 = 1e-3 in SI); hi: sampling only
    s0 = _sqrt(v, IS / I0)
    v.prove_identity("with_reference_ionic_strength", v.call(E.davies_log_gamma, IS, z, A, C, I0), -A * z * z * (s0 / (1 + s0) + C * (IS / I0)))


def _exp(v, x):
    from pyvc.stubs import sym_exp
    return sym_exp(x) if v.symbolic else math.exp(x)


def _products(kind, default_C=False):
    """'activity products are the stoichiometry-weighted exponentials of them': exp(sum_j nu_j * log_gamma_j) with A and B of the numeric path.
    default_C=False: the linear coefficient C is an input handed both to the product and to the expected log-gammas;
    default_C=True (harness <kind>_activity_product.default_C): C is handed to neither, i.e. the product called without C must use the value
    that <kind>_log_gamma itself has when called without C (those are pinned by davies_log_gamma.default_C / extended_log_gamma.default_C_is_zero)"""
    @harness("C18", kind + "_activity_product" + (".default_C" if default_C else ""), functions=[MOD + ":%s_activity_product" % kind, MOD + ":%s_log_gamma" % kind], div_mode="assume", samples=30)
    def _(v):
        from chempy import electrolytes as E
        fn = getattr(E, kind + "_activity_product")
        lg = getattr(E, kind + "_log_gamma")
        IS = v.real("IS", lo=0, hi=3)
        # the proof is for the property's whole range of the permittivity (by A10 it is for eps_r >= lo); only the native samples are drawn from
        # eps_r >= 40, where exp() of the sum stays inside the double range for almost all of them (the rest is rejected below)
        T, eps, rho = v.real("T", lo=250, hi=650), v.real("eps_r", lo=5 if v.symbolic else 40, hi=100), v.real("rho", lo=500, hi=1500)
        stoich = v.seq("stoich", "int", lo=-4, hi=4, maxlen=4, minlen=1)      # products positive, reactants negative
        Cc = None if default_C else v.real("C", lo=-1, hi=1)
        copt = () if default_C else (Cc,)
        zs = v.seq("z", "int", lo=-4, hi=4, maxlen=4, minlen=1)
        aa = v.seq("a", "real", lo=0, hi=9, maxlen=4, minlen=1)
        n = len(stoich) if not v.symbolic else stoich.sym_len()
        if not v.symbolic:
            zs = (zs * 4)[:n]
            aa = (aa * 4)[:n]
        else:
            v.assume(SP.conj([zs.sym_len() == n, aa.sym_len() == n]))
        Aval = v.call(E.A, eps, T, rho)
        Bval = v.call(E.B, eps, T, rho)

        def term_at(j):
            if kind == "limiting":
                return SP.select(stoich, j) * v.call(lg, IS, SP.select(zs, j), Aval)
            if kind == "extended":
                return SP.select(stoich, j) * v.call(lg, IS, SP.select(zs, j), SP.select(aa, j), Aval, Bval, *copt)
            return SP.select(stoich, j) * v.call(lg, IS, SP.select(zs, j), Aval, *copt)
        idx = list(range(n)) if not v.symbolic else None
        if v.symbolic:
            from pyvc.containers import SymSeq
            terms = SymSeq(n, term_at, "terms")
        else:
            terms = [term_at(j) for j in idx]
            # a sum outside the double range of exp (possible with negative stoichiometry at the corner of small T and eps_r) says nothing about the
            # property: chempy gives inf there and math.exp below would raise; such a sample is rejected, not failed
            v.assume(abs(SP.ssum(terms)) < 700)
        v.invariant(fn, 0, lambda env, i, seq: env["@acc"] == SP.ssum_prefix(terms, i))
        if kind == "limiting":
            r = v.call(fn, IS, stoich, zs, T, eps, rho)
        else:
            r = v.call(fn, IS, stoich, zs, aa, T, eps, rho, *copt)
        v.prove("post", v.eq(r, _exp(v, SP.ssum(terms))))
    return _


for _k in ("limiting", "extended", "davies"):
    _products(_k)
for _k in ("extended", "davies"):
    _products(_k, default_C=True)


@harness("C18", "ActivityProduct.call", functions=[MOD + ":LimitingDebyeHuckelActivityProduct.__call__", MOD + ":ExtendedDebyeHuckelActivityProduct.__call__"], kind="data")
def _(v):
    from chempy import electrolytes as E
    c = [0.1, 0.1]
    z = [1, -1]
    IS = E.ionic_strength(c, z)
    lim = E.LimitingDebyeHuckelActivityProduct((1, 1), z, 298.15, 78.4, 997.0)
    v.prove("limiting_delegates", SP.approx_eq(lim(c), E.limiting_activity_product(IS, (1, 1), z, 298.15, 78.4, 997.0)))
    ext = E.ExtendedDebyeHuckelActivityProduct((1, 1), z, [4e-10, 3e-10], 298.15, 78.4, 997.0)
    v.prove("extended_delegates", SP.approx_eq(ext(c), E.extended_activity_product(IS, (1, 1), z, [4e-10, 3e-10], 298.15, 78.4, 997.0)))


@harness("C18", "ionic_strength.dict_lookup_by_key", functions=[MOD + ":ionic_strength"], kind="shape-bounded", samples=30)
def _(v):
    """the substances mapping may be ordered differently / hold more species than the molalities: charges are looked up by key"""
    from chempy import electrolytes
    from chempy.chemistry import Substance
    from collections import OrderedDict
    zs = {"Fe+3": v.int("z_Fe", lo=1, hi=4), "Cl-": v.int("z_Cl", lo=-3, hi=-1), "Na+": v.int("z_Na", lo=1, hi=2)}
    substances = OrderedDict((k, make_obj(Substance, name=k, composition={0: zs[k], 1: 1}, data={})) for k in ["Na+", "Cl-", "Fe+3"])
    b1, b2 = v.real("b_Fe", lo=0, hi=5), v.real("b_Cl", lo=0, hi=5)
    out = v.run(electrolytes.ionic_strength, OrderedDict([("Fe+3", b1), ("Cl-", b2)]), substances=substances, warn=False)
    v.prove("returns", out.returned, detail=repr(out.exc))
    if out.returned:
        v.prove("each_ion_with_its_own_charge", v.eq(out.value, (b1 * zs["Fe+3"] * zs["Fe+3"] + b2 * zs["Cl-"] * zs["Cl-"]) / 2))


@harness("C18", "ionic_strength.mapping_forms", functions=[MOD + ":ionic_strength"], kind="data")
def _(v):
    """'with charges read from the formulas when a mapping is given' and 'a charge-imbalance warning is issued when the composition is not neutral and not
    when it is', for the argument forms no other harness reaches: charges parsed from the keys themselves, `substances` given as a whitespace-separated
    string (in another order and with a species that is absent from the molalities), a custom substance_factory, and `warn` left at its default.
    Expected values by hand, I = 1/2 sum b z^2:  Mg+2 6, PO4-3 4: (6*4 + 4*9)/2 = 30, net 12 - 12;  Na+ 1, SO4-2 0.5: (1 + 0.5*4)/2 = 1.5, net 1 - 1;
    FeCl3 0.125: (0.125*9 + 0.375)/2 = 0.75;  'cat' (+2) 0.25, 'an' (-1) 0.5: (0.25*4 + 0.5)/2 = 0.75, net 0.5 - 0.5;  Na+ 1, Cl- 2: (1 + 2)/2 = 1.5, net -1"""
    import warnings
    from chempy.electrolytes import ionic_strength
    from chempy.chemistry import Substance

    def run(f):
        """(value or None, exception or None, number of warnings about the data handed over: recognised by category, not by message text)"""
        with warnings.catch_warnings(record=True) as w:
            warnings.simplefilter("always")
            try:
                val, exc = f(), None
            except Exception as ex:
                val, exc = None, ex
        return val, exc, len([x for x in w if not issubclass(x.category, _WARNINGS_ABOUT_THE_CODE)])

    def check(name, f, want, want_warning):
        val, exc, nwarn = run(f)
        ok = exc is None
        try:
            ok = ok and abs(float(val) - want) <= 1e-12 * want and ((nwarn >= 1) if want_warning else (nwarn == 0))
        except Exception as ex:
            ok, exc = False, exc or ex
        v.prove(name, ok, detail="value %r (expected %r), %d warning(s) about the composition (expected %s), exception %r" % (val, want, nwarn, ">= 1" if want_warning else "none", exc))

    # charges from the formulas of the keys (substances=None)
    check("formula_keys.Mg3PO42", lambda: ionic_strength({"Mg+2": 6, "PO4-3": 4}), 30.0, False)
    check("formula_keys.FeCl3_in_water", lambda: ionic_strength({"Fe+3": 0.125, "Cl-": 0.375, "H2O": 55.5}), 0.75, False)
    # substances as a string: looked up by key, whatever its order, absent species allowed
    check("substances_string", lambda: ionic_strength({"Na+": 1, "SO4-2": .5}, substances="Na+ SO4-2 H2O"), 1.5, False)
    check("substances_string.other_order", lambda: ionic_strength({"SO4-2": .5, "Na+": 1}, substances="H2O Na+ SO4-2"), 1.5, False)
    # a custom factory: the keys are no formulas, so the charges can only have come from the factory
    charge = {"cat": 2, "an": -1, "solv": 0}
    calls = []

    def factory(k):
        calls.append(k)
        return Substance(k, composition={0: charge[k]} if charge[k] else {})
    check("substance_factory.with_substances_string", lambda: ionic_strength({"cat": 0.25, "an": 0.5}, substances="solv an cat", substance_factory=factory), 0.75, False)
    v.prove("substance_factory.asked_for_each_ion", {"cat", "an"} <= set(calls), detail="factory called with %r" % (calls,))
    del calls[:]
    check("substance_factory.keys_only", lambda: ionic_strength({"cat": 0.25, "an": 0.5}, substance_factory=factory), 0.75, False)
    check("substance_factory.not_neutral", lambda: ionic_strength({"cat": 0.25, "an": 0.25}, substance_factory=factory, warn=True), 0.625, True)   # (0.25*4 + 0.25)/2, net +0.25
    # `warn` left at its default: the warning is on
    check("default_warn.list_not_neutral", lambda: ionic_strength([1.0, 1.0], [1, 1]), 1.0, True)
    check("default_warn.list_neutral", lambda: ionic_strength([1.0, 1.0], [1, -1]), 1.0, False)
    check("default_warn.dict_not_neutral", lambda: ionic_strength({"Na+": 1.0, "Cl-": 2.0}), 1.5, True)
    check("default_warn.dict_neutral", lambda: ionic_strength({"Na+": 1.0, "Cl-": 1.0}), 1.0, False)
    check("warn_off.dict_not_neutral", lambda: ionic_strength({"Na+": 1.0, "Cl-": 2.0}, warn=False), 1.5, False)


# ---- 'in any units': generic units of symbolic scale (assumed contract 5.1, pyvc/qmodel.py, as in C19/C09/C10) ----------------
MOLALITY = (0, -1, 0, 0, 0, 0, 1)          # mol/kg over (length, mass, time, current, temperature, luminous intensity, amount)
DENSITY = (-3, 1, 0, 0, 0, 0, 0)


def _units_env(v):
    """(units namespace, table) of the unit abstraction in the proof; the real default_units in the sampled runs"""
    if v.symbolic:
        from pyvc.qmodel import Units, std_table
        t = std_table()
        return Units(t), t
    from chempy.units import default_units
    return default_units, None


def _si(v, q, unit_expr=None):
    if v.symbolic:
        from pyvc.qmodel import si_value
        return si_value(q)
    from chempy.units import to_unitless
    return float(to_unitless(q, unit_expr))


def _dimv(q):
    from pyvc.qmodel import dim_of
    return dim_of(q)


def _is_units(n):
    @harness("C18", "ionic_strength.units%d" % n, functions=[MOD + ":ionic_strength", "chempy.units:allclose"], kind="shape-bounded", samples=20)
    def _(v):
        """'in any units': every molality in a unit of its own (any unit of the dimension amount/mass): the result is a molality whose physical
        value is 1/2 sum b_i z_i^2 of the physical values, and the warning obeys the same band as for plain numbers (ionic_strength.seq)"""
        from chempy import electrolytes
        bs = [v.real("b%d" % i, lo=0, hi=10) for i in range(n)]        # physical values in mol/kg
        zs = [v.int("z%d" % i, lo=-4, hi=4) for i in range(n)]
        warn = v.bool("warn")
        u, table = _units_env(v)
        if v.symbolic:
            mus = [table.generic("mu%d" % i, MOLALITY) for i in range(n)]
            qs = [(b / table.scale["mu%d" % i]) * mu for i, (b, mu) in enumerate(zip(bs, mus))]
        else:
            scales = [(u.mol / u.kg, 1.0), (u.mmol / u.kg, 1e-3), (u.mol / u.gram, 1e3)]
            qs = [(b / scales[i % 3][1]) * scales[i % 3][0] for i, b in enumerate(bs)]
        out = v.run(electrolytes.ionic_strength, qs, zs, warn=warn)
        v.prove("returns", out.returned, detail=repr(out.exc))
        if out.returned:
            tot = sum(b * z * z for b, z in zip(bs, zs))
            net = sum(b * z for b, z in zip(bs, zs))
            if v.symbolic:
                v.prove("is_a_molality", _dimv(out.value) == MOLALITY)
            v.prove("post", v.eq(_si(v, out.value, u.mol / u.kg), tot / 2))
            if n <= 2:      # (three independent symbolic scales make the band a nonlinear goal that z3 decides only some of the time: two units already mix)
                _warning_obligations(v, warn, net, tot)


for _n in (1, 2, 3):
    _is_units(_n)


def _AB_units(which):
    @harness("C18", which + ".units", functions=[MOD + ":" + which, MOD + ":_get_b0"], div_mode="assume", samples=15)
    def _(v):
        """'A and B ... with units agree with the built-in numeric path', 'with and without units/constants objects': density in any density unit and
        the reference molality in any molality unit (or left at its default), temperature in kelvin; with the built-in factor (constants=None, units given)
        and with a constants object whose constants carry units.  Result: a pure number for A, an inverse length for B, of the same physical value
        as the plain call with SI magnitudes"""
        from chempy import electrolytes
        fn = getattr(electrolytes, which)
        eps, T, rho, b0 = _AB_inputs(v)
        dims = (0,) * 7 if which == "A" else (-1, 0, 0, 0, 0, 0, 0)
        u, table = _units_env(v)
        plain = v.call(fn, eps, T, rho, b0)
        plain1 = v.call(fn, eps, T, rho)
        if v.symbolic:
            du = table.generic("du", DENSITY)
            mu = table.generic("mu", MOLALITY)
            rq, bq = (rho / table.scale["du"]) * du, (b0 / table.scale["mu"]) * mu
            c = {k: fractions.Fraction(repr(x)) for k, x in CODATA.items()}
            consts = _Consts(Faraday_constant=c["F"] * u.coulomb / u.mol, Avogadro_constant=c["NA"] / u.mol, vacuum_permittivity=c["eps0"] * u.coulomb / u.volt / u.meter,
                             Boltzmann_constant=c["kB"] * u.joule / u.kelvin, molar_gas_constant=c["R"] * u.joule / u.kelvin / u.mol, pi=math.pi)
            plainc = v.call(fn, eps, T, rho, b0, _Consts(Faraday_constant=c["F"], Avogadro_constant=c["NA"], vacuum_permittivity=c["eps0"], Boltzmann_constant=c["kB"],
                                                         molar_gas_constant=c["R"], pi=math.pi))
        else:
            from chempy.units import default_constants as consts
            rq, bq = (rho / 1000) * u.gram / u.cm ** 3, (b0 * 1000) * u.mmol / u.kg
            plainc = plain
        target = 1 if which == "A" else 1 / u.meter
        for label, kw, want in (("builtin_factor", dict(b0=bq, units=u), plain), ("builtin_factor.default_b0", dict(units=u), plain1),
                                ("constants", dict(b0=bq, constants=consts, units=u), plainc)):
            out = v.run(fn, eps, T * u.kelvin, rq, **kw)
            v.prove(label + ".returns", out.returned, detail=repr(out.exc))
            if out.returned:
                if v.symbolic:
                    v.prove(label + ".dimension", _dimv(out.value) == dims)
                try:
                    got = _si(v, out.value, target)
                except Exception as ex:      # (sampled runs with the real package: a result of the wrong dimension cannot be converted)
                    v.prove(label + ".same_physical_value", False, detail="result %r: %r" % (out.value, ex))
                    continue
                v.prove_identity(label + ".same_physical_value", got, want, rel=1e-9)
    return _


for _w in ("A", "B"):
    _AB_units(_w)


@harness("C18", "log_gamma.units", functions=[MOD + ":limiting_log_gamma", MOD + ":extended_log_gamma", MOD + ":davies_log_gamma"], div_mode="assume", samples=15)
def _(v):
    """'the limiting, extended and Davies log-activity coefficients equal their formulas' 'in any units': the ionic strength and the reference I0 in two
    different units of molality, the ion size in any unit of length against B in 1/metre: a pure number with the value of the plain call on the ratio"""
    from chempy import electrolytes as E
    IS, z, A = _lg_inputs(v)
    I0 = v.real("I0", pos=True, hi=2)
    a, B, C = v.real("a", lo=0, hi=9), v.real("B", lo=0, hi=5), v.real("C", lo=-1, hi=1)
    u, table = _units_env(v)
    if v.symbolic:
        m1, m2, lu = table.generic("mu1", MOLALITY), table.generic("mu2", MOLALITY), table.generic("lu", (1, 0, 0, 0, 0, 0, 0))
        ISq, I0q, aq = (IS / table.scale["mu1"]) * m1, (I0 / table.scale["mu2"]) * m2, (a / table.scale["lu"]) * lu
    else:
        ISq, I0q, aq = (IS * 1000) * u.mmol / u.kg, I0 * u.mol / u.kg, (a * 1e9) * u.nanometer
    Bq = B / u.meter
    for label, fn, args, want in (("limiting", E.limiting_log_gamma, (ISq, z, A, I0q), v.call(E.limiting_log_gamma, IS / I0, z, A)),
                                  ("extended", E.extended_log_gamma, (ISq, z, aq, A, Bq, C, I0q), v.call(E.extended_log_gamma, IS / I0, z, a, A, B, C)),
                                  ("davies", E.davies_log_gamma, (ISq, z, A, C, I0q), v.call(E.davies_log_gamma, IS / I0, z, A, C))):
        out = v.run(fn, *args)
        v.prove(label + ".returns", out.returned, detail=repr(out.exc))
        if out.returned:
            if v.symbolic:
                v.prove(label + ".pure_number", _dimv(out.value) == (0,) * 7)
            try:
                got = _si(v, out.value, 1)
            except Exception as ex:
                v.prove(label + ".same_value", False, detail="result %r: %r" % (out.value, ex))
                continue
            v.prove_identity(label + ".same_value", got, want, rel=1e-9)
