"""C07  Equilibrium equations vanish exactly at, and only at, true equilibrium states."""
import math

from pyvc.api import harness
from pyvc import spec as SP
from pyvc.sym import Sym

META = {
    "explanation": "equilibrium_quotient, vec_dot_vec/mat_dot_vec, prodpow, EqSystem.stoichs/eq_constants/stoichs_constants (no rref), and the residual vectors NumSysLin.f, NumSysSquare.f, NumSysLog.f are proved entry by entry (Q_i/K_i - 1, conservation rows B(y - y0), A ln c - ln K, conservation of exp(y)) for every concentration, initial state and constant at fixed homogeneous systems; zero-iff-equilibrium then follows in SMT; the log form's equivalence to the product form is the standard log-product law (5.3)",
    "trusted_base": ["numpy object-array arithmetic (5.2)", "pyneqsys.symbolic.linear_exprs(A, x, b, rref=False) = [sum_j A_ij x_j - b_i] (5.6; read in the installed source)", "exp/log real functions (5.3)"],
    "not_decided": ["row-reduced configurations (pyneqsys linear_rref, sympy rref), NumSysLinRel / NumSysLinTanh (sympy Min/Piecewise/tanh): bounded stand-in"],
    "assumptions": ["system shapes fixed per harness (two homogeneous systems: water/ammonia, and a 2:1 complexation with a spectator)"],
}
EQ = "chempy._eqsys"


def systems():
    return {
        "ammonia": (["H2O", "H+", "OH-", "NH4+", "NH3"], [({"H2O": 1}, {"H+": 1, "OH-": 1}), ({"NH4+": 1}, {"NH3": 1, "H+": 1})]),
        "complex": (["Fe+3", "SCN-", "FeSCN+2", "Fe(SCN)2+", "Cl-"], [({"Fe+3": 1, "SCN-": 1}, {"FeSCN+2": 1}), ({"FeSCN+2": 1, "SCN-": 1}, {"Fe(SCN)2+": 1}),
                                                                         ({"Fe+3": 1, "SCN-": 2}, {"Fe(SCN)2+": 1})]),
    }


# conservation relations and stoichiometry written by hand from the formulas (atomic numbers: H 1, C 6, N 7, O 8, S 16, Cl 17, Fe 26; 0 = charge),
# rows in ascending key order, columns in the substance order of `systems()`
HAND = {
    "ammonia": {"keys": [0, 1, 7, 8],
                "B": [[0, 1, -1, 1, 0], [2, 1, 1, 4, 3], [0, 0, 0, 1, 1], [1, 0, 1, 0, 0]],
                "A": [[-1, 1, 1, 0, 0], [0, 1, 0, -1, 1]]},
    "complex": {"keys": [0, 6, 7, 16, 17, 26],
                "B": [[3, -1, 2, 1, -1], [0, 1, 1, 2, 0], [0, 1, 1, 2, 0], [0, 1, 1, 2, 0], [0, 0, 0, 0, 1], [1, 0, 1, 1, 0]],
                "A": [[-1, -1, 1, 0, 0], [0, -1, -1, 1, 0], [-1, -2, 0, 1, 0]]},
}


def build(v, name):
    from chempy.chemistry import Equilibrium
    from chempy.equilibria import EqSystem
    subs, eqs = systems()[name]
    Ks = [v.real("K%d" % i, lo=1e-3, hi=1e3) for i in range(len(eqs))]
    rxns = [Equilibrium(r, p, K) for (r, p), K in zip(eqs, Ks)]
    from chempy.chemistry import Species
    from collections import OrderedDict
    eqsys = EqSystem(rxns, OrderedDict((k, Species.from_formula(k)) for k in subs))
    assert len(eqsys.composition_balance_vectors()[1]) >= 3
    return eqsys, subs, eqs, Ks


def spec_Q(eqs, conc, i):
    r, p = eqs[i]
    q = 1
    for k, n in p.items():
        q = q * conc[k] ** n
    for k, n in r.items():
        q = q / conc[k] ** n
    return q


def _residual(name):
    @harness("C07", "residuals." + name, functions=[EQ + ":NumSysLin.f", EQ + ":NumSysSquare.f", EQ + ":NumSysLog.f", EQ + ":_NumSys._get_A_ks", EQ + ":_NumSys._inits_and_eq_params",
                                                    "chempy.equilibria:EqSystem.stoichs_constants", "chempy.equilibria:EqSystem.eq_constants", "chempy.reactionsystem:ReactionSystem.stoichs",
                                                    "chempy._util:prodpow", "chempy._util:mat_dot_vec", "chempy._util:vec_dot_vec", "chempy.reactionsystem:ReactionSystem.composition_balance_vectors"],
             kind="shape-bounded", div_mode="assume", samples=15)
    def _(v):
        from chempy._eqsys import NumSysLin, NumSysSquare, NumSysLog
        eqsys, subs, eqs, Ks = build(v, name)
        y = [v.real("y_" + s, lo=1e-6, hi=10) for s in subs]
        y0 = [v.real("y0_" + s, lo=0, hi=10) for s in subs]
        conc = dict(zip(subs, y))
        B, keys = HAND[name]["B"], HAND[name]["keys"]          # the specification's own matrices, not the object's
        v.prove("system_reports_the_hand_written_conservation_relations", [list(map(int, row)) for row in eqsys.composition_balance_vectors()[0]] == B and list(eqsys.composition_balance_vectors()[1]) == keys)
        nr, nk = len(eqs), len(keys)
        params = list(y0) + list(Ks)
        cons = [sum(B[c][j] * (y[j] - y0[j]) for j in range(len(subs))) for c in range(nk)]
        # --- linear formulation
        f = v.call(NumSysLin(eqsys, backend=math).f, y, params)
        v.prove("lin.length_is_nr_plus_conservation_relations", len(f) == nr + nk)
        for i in range(nr):
            v.prove_identity("lin.equil_%d_is_Q_over_K_minus_1" % i, f[i], spec_Q(eqs, conc, i) / Ks[i] - 1)
        for c in range(nk):
            v.prove_identity("lin.conservation_key%d" % keys[c], f[nr + c] + 0.0, cons[c] + 0.0)
        if v.symbolic:
            at_eq = SP.conj([spec_Q(eqs, conc, i) == Ks[i] for i in range(nr)] + [x == 0 for x in cons])
            v.prove("lin.zero_iff_equilibrium_and_conserving", SP.iff(SP.conj([x == 0 for x in f]), at_eq))
        # --- squared variables
        z = [v.real("z_" + s, lo=-3, hi=3) for s in subs]
        v.assume(SP.conj([SP.neg(zi == 0) for zi in z]))
        fs = v.call(NumSysSquare(eqsys, backend=math).f, z, params)
        fl = v.call(NumSysLin(eqsys, backend=math).f, [zi * zi for zi in z], params)
        v.prove("square.length", len(fs) == nr + nk)
        for i in range(nr + nk):
            v.prove_identity("square.entry_%d_is_lin_of_squares" % i, fs[i] + 0.0, fl[i] + 0.0)
        # and directly against the specification with c = z^2 (either sign of z)
        csq = dict(zip(subs, [zi * zi for zi in z]))
        for i in range(nr):
            v.prove_identity("square.equil_%d_is_Q_of_squares_over_K_minus_1" % i, fs[i], spec_Q(eqs, csq, i) / Ks[i] - 1)
        for c in range(nk):
            v.prove_identity("square.conservation_key%d_of_squares" % keys[c], fs[nr + c] + 0.0, sum(B[c][j] * (z[j] * z[j] - y0[j]) for j in range(len(subs))) + 0.0)
        # --- logarithmic variables
        be = v.backend()
        ly = [v.real("ly_" + s, lo=-10, hi=3) for s in subs]
        flog = v.call(NumSysLog(eqsys, backend=be).f, ly, params)
        v.prove("log.length", len(flog) == nr + nk)
        A = HAND[name]["A"]
        v.prove("system_reports_the_hand_written_stoichiometry", [list(map(int, row)) for row in eqsys.stoichs()] == A)
        for i in range(nr):
            v.prove_identity("log.equil_%d" % i, flog[i], sum(int(A[i][j]) * ly[j] for j in range(len(subs))) - be.log(Ks[i]))
        for c in range(nk):
            v.prove_identity("log.conservation_key%d" % keys[c], flog[nr + c] + 0.0, sum(B[c][j] * (be.exp(ly[j]) - y0[j]) for j in range(len(subs))) + 0.0)
    return _


for _n in systems():
    _residual(_n)


@harness("C07", "equilibrium_quotient", functions=["chempy.chemistry:equilibrium_quotient", "chempy.equilibria:EqSystem.equilibrium_quotients"], kind="shape-bounded", div_mode="assume", samples=20)
def _(v):
    from chempy.chemistry import equilibrium_quotient
    c = [v.real("c%d" % i, lo=0.01, hi=10) for i in range(4)]
    q = v.call(equilibrium_quotient, c, [-2, -1, 3, 0])
    v.prove_identity("product_of_powers", q, c[2] ** 3 / (c[0] ** 2 * c[1]))
    eqsys, subs, eqs, Ks = build(v, "ammonia")
    y = [v.real("y_" + s, lo=1e-6, hi=10) for s in subs]
    if v.symbolic:
        qs = v.call(eqsys.equilibrium_quotients, y)
        for i in range(len(eqs)):
            v.prove_identity("system_quotient_%d" % i, qs[i], spec_Q(eqs, dict(zip(subs, y)), i))


@harness("C07", "mat_dot_vec", functions=["chempy._util:mat_dot_vec", "chempy._util:vec_dot_vec", "chempy._util:reducemap", "chempy._util:prodpow"], kind="shape-bounded", div_mode="assume", samples=20)
def _(v):
    from chempy._util import mat_dot_vec, vec_dot_vec, prodpow
    M = [[v.real("m%d%d" % (i, j), lo=-3, hi=3) for j in range(3)] for i in range(2)]
    x = [v.real("x%d" % j, lo=0.1, hi=3) for j in range(3)]
    t = [v.real("t%d" % i, lo=-3, hi=3) for i in range(2)]
    r = v.call(mat_dot_vec, M, x)
    v.prove("rows", SP.conj([v.eq(r[i], sum(M[i][j] * x[j] for j in range(3))) for i in range(2)] + [len(r) == 2]))
    r = v.call(mat_dot_vec, M, x, t)
    v.prove("rows_plus_term", SP.conj([v.eq(r[i], sum(M[i][j] * x[j] for j in range(3)) + t[i]) for i in range(2)]))
    v.prove("dot", v.eq(v.call(vec_dot_vec, M[0], x), sum(M[0][j] * x[j] for j in range(3))))
    pp = v.call(prodpow, x, [[1, 0, 2], [-1, 1, 0]])
    v.prove_identity("prodpow_0", pp[0], x[0] * x[2] * x[2])
    v.prove_identity("prodpow_1", pp[1], x[1] / x[0])


@harness("C07", "no_hidden_state_between_evaluations", functions=[EQ + ":NumSysLin.f", EQ + ":NumSysLog.f", EQ + ":_NumSys._get_A_ks", EQ + ":_NumSys._inits_and_eq_params"], kind="shape-bounded", div_mode="assume", samples=10)
def _(v):
    """the same formulation object evaluated twice with different constants / initial states must use the current ones"""
    from chempy._eqsys import NumSysLin, NumSysLog
    eqsys, subs, eqs, Ks = build(v, "ammonia")
    K2 = [v.real("K_second%d" % i, lo=1e-3, hi=1e3) for i in range(len(eqs))]
    y = [v.real("y_" + s, lo=1e-6, hi=10) for s in subs]
    y0a = [v.real("y0a_" + s, lo=0, hi=10) for s in subs]
    y0b = [v.real("y0b_" + s, lo=0, hi=10) for s in subs]
    conc = dict(zip(subs, y))
    B, keys = eqsys.composition_balance_vectors()
    nr = len(eqs)
    ns = NumSysLin(eqsys, backend=math)
    v.call(ns.f, y, list(y0a) + list(Ks))
    f2 = v.call(ns.f, y, list(y0b) + list(K2))
    for i in range(nr):
        v.prove_identity("lin.second_call_uses_current_constants_%d" % i, f2[i], spec_Q(eqs, conc, i) / K2[i] - 1)
    for c in range(len(keys)):
        v.prove_identity("lin.second_call_uses_current_initial_state_key%d" % keys[c], f2[nr + c] + 0.0, sum(B[c][j] * (y[j] - y0b[j]) for j in range(len(subs))) + 0.0)
    be = v.backend()
    nl = NumSysLog(eqsys, backend=be)
    v.call(nl.f, y, list(y0a) + list(Ks))
    g2 = v.call(nl.f, y, list(y0b) + list(K2))
    A = eqsys.stoichs()
    for i in range(nr):
        v.prove_identity("log.second_call_uses_current_constants_%d" % i, g2[i], sum(int(A[i][j]) * y[j] for j in range(len(subs))) - be.log(K2[i]))
    # constants taken from the system itself when no parameters are passed (new_eq_params=False): all ns initial concentrations are used
    ns3 = NumSysLin(eqsys, backend=math, new_eq_params=False)
    f3 = v.call(ns3.f, y, list(y0b))
    for c in range(len(keys)):
        v.prove_identity("lin.stored_constants_mode_uses_all_initial_concentrations_key%d" % keys[c], f3[nr + c] + 0.0, sum(B[c][j] * (y[j] - y0b[j]) for j in range(len(subs))) + 0.0)
    for i in range(nr):
        v.prove_identity("lin.stored_constants_mode_equil_%d" % i, f3[i], spec_Q(eqs, conc, i) / Ks[i] - 1)


def _exact_equilibrium(name):
    """a consistent set of constants and an exact equilibrium state of the named system, with an initial state linked to it by reaction extents"""
    from fractions import Fraction as Fr
    subs, eqs = systems()[name]
    y = dict(zip(subs, [Fr(3, 2), Fr(1, 4), Fr(2, 5), Fr(7, 10), Fr(9, 8)]))
    Ks = [spec_Q(eqs, y, i) for i in range(len(eqs))]
    xi = [Fr(1, 10), Fr(-1, 20), Fr(1, 50)][:len(eqs)]
    y0 = dict(y)
    for (r, p), x in zip(eqs, xi):          # y = y0 + sum_i xi_i nu_i   <=>   y0 = y - sum_i xi_i nu_i
        for k, n in p.items():
            y0[k] -= x * n
        for k, n in r.items():
            y0[k] += x * n
    assert all(val > 0 for val in y0.values())
    return subs, eqs, y, y0, Ks


def _rref(name, known_dependent):
    @harness("C07", "row_reduced_configurations." + name, functions=[EQ + ":NumSysLin.f", EQ + ":NumSysLog.f", EQ + ":NumSysSquare.f", EQ + ":_NumSys._get_A_ks", "chempy.equilibria:EqSystem.stoichs_constants",
                                                                     "pyneqsys.symbolic:linear_rref / linear_exprs (external, run natively)"], kind="data")
    def _(v):
        """'with or without row-reduction of the equilibrium or conservation blocks': every configuration, built the way the root finder builds it
        (sympy backend, symbolic parameters), evaluated at an exact equilibrium state reached from the initial state by reaction extents: every
        residual is zero; at a state with one concentration changed some residual is not; the number of equations is reactions + conservation
        relations (independent ones when row-reduced)"""
        import itertools
        import sympy
        from chempy.chemistry import Equilibrium, Species
        from chempy.equilibria import EqSystem
        from chempy import _eqsys as E
        from collections import OrderedDict
        subs, eqs, y, y0, Ks = _exact_equilibrium(name)
        es = EqSystem([Equilibrium(r, p, K) for (r, p), K in zip(eqs, Ks)], OrderedDict((k, Species.from_formula(k)) for k in subs))
        B, keys = es.composition_balance_vectors()
        rankB = sympy.Matrix(B).rank()
        ys = sympy.symbols("y:%d" % len(subs))
        ps = sympy.symbols("p:%d" % (len(subs) + len(eqs)))
        bind_p = dict(zip(ps, [sympy.Rational(y0[s].numerator, y0[s].denominator) for s in subs] + [sympy.Rational(K.numerator, K.denominator) for K in Ks]))
        R = lambda q: sympy.Rational(q.numerator, q.denominator)
        transforms = {"NumSysLin": lambda c: R(c), "NumSysLog": lambda c: sympy.log(R(c)), "NumSysSquare": lambda c: sympy.sqrt(R(c))}
        for cls_name, re_, rp in itertools.product(("NumSysLin", "NumSysLog", "NumSysSquare"), (False, True), (False, True)):
            tag = "%s.rref_equil_%s.rref_preserv_%s" % (cls_name, re_, rp)
            ns = getattr(E, cls_name)(es, backend=sympy, rref_equil=re_, rref_preserv=rp)
            try:
                f = list(ns.f(ys, ps))
            except Exception as ex:
                v.fail(tag + ".builds", repr(ex)[:200])
                continue
            at_eq = dict(zip(ys, [transforms[cls_name](y[s]) for s in subs]))
            vals = [sympy.simplify(sympy.expand_log(e.subs(bind_p).subs(at_eq), force=True)) for e in f]
            n_cons = rankB if rp else len(keys)
            n_eq = sympy.Matrix(es.stoichs()).rank() if re_ else len(eqs)
            v.prove(tag + ".number_of_equations", len(f) == n_eq + n_cons, detail="%d equations, expected %d + %d" % (len(f), n_eq, n_cons))
            v.prove(tag + ".vanishes_at_the_equilibrium_state", all(abs(complex(sympy.N(x, 30))) < 1e-20 for x in vals), detail=str([str(sympy.N(x, 6)) for x in vals]))
            off = dict(y)
            off[subs[1]] = off[subs[1]] * 2
            at_off = dict(zip(ys, [transforms[cls_name](off[s]) for s in subs]))
            vals_off = [sympy.N(e.subs(bind_p).subs(at_off), 30) for e in f]
            v.prove(tag + ".nonzero_off_equilibrium", any(abs(complex(x)) > 1e-6 for x in vals_off))
    return _


_rref("ammonia", False)
_rref("complex", True)


@harness("C07", "batches_and_repeated_evaluation", functions=["chempy.chemistry:equilibrium_quotient", "chempy.equilibria:EqSystem.equilibrium_quotients", "chempy.equilibria:EqSystem.stoichs_constants"], kind="data")
def _(v):
    """a batch of states (2-D array, one state per row) gives the quotient of each state, also when the number of states equals the number of
    substances; the row-reduced constants are those of the constants handed in at THIS call (same system evaluated at two temperatures)"""
    import math
    import numpy as np
    from chempy.chemistry import equilibrium_quotient, Equilibrium, Species
    from chempy.equilibria import EqSystem
    from collections import OrderedDict
    nu = [-1, 2, 1]
    batch = np.array([[2.0, 3.0, 5.0], [7.0, 0.5, 4.0], [1.5, 6.0, 0.25]])          # square on purpose
    want = [row[0] ** -1 * row[1] ** 2 * row[2] for row in batch]
    got = equilibrium_quotient(batch, nu)
    v.prove("square_batch_row_by_row", np.allclose(got, want, rtol=1e-14, atol=0) and np.allclose([equilibrium_quotient(row, nu) for row in batch], want, rtol=1e-14, atol=0), detail=repr(got))
    wide = np.array([[2.0, 3.0, 5.0], [7.0, 0.5, 4.0]])
    v.prove("non_square_batch_row_by_row", np.allclose(equilibrium_quotient(wide, nu), want[:2], rtol=1e-14, atol=0))
    subs, eqs = systems()["ammonia"]
    es = EqSystem([Equilibrium(r, p, K) for (r, p), K in zip(eqs, [1e-14 / 55.5, 5.6e-10])], OrderedDict((k, Species.from_formula(k)) for k in subs))
    sq = np.array([[55.5, 1e-7, 1e-7, 1e-3, 1e-3], [55.4, 2e-7, 3e-7, 2e-3, 1e-3], [50.0, 1e-6, 1e-8, 5e-3, 4e-3], [55.5, 1e-3, 1e-11, 1e-2, 1e-9], [40.0, 3e-7, 3e-7, 1e-4, 2e-3]])
    qs = es.equilibrium_quotients(sq)
    ok = all(np.allclose(qs[0], sq[:, 1] * sq[:, 2] / sq[:, 0], rtol=1e-13, atol=0) for _ in [0]) and np.allclose(qs[1], sq[:, 4] * sq[:, 1] / sq[:, 3], rtol=1e-13, atol=0)
    v.prove("system_quotients_of_as_many_states_as_substances", ok, detail=repr(qs))
    A1, k1 = es.stoichs_constants(eq_params=[2.0, 3.0], rref=True, backend=math)
    A2, k2 = es.stoichs_constants(eq_params=[5.0, 7.0], rref=True, backend=math)
    plain1 = es.stoichs_constants(eq_params=[2.0, 3.0])[1]

    def consistent(A, ks, Ks):
        # the reduced system (A', k') must be implied by the original one: for every state with Q_i = K_i, prod c^A'_j = k'_j.  Check on exact solutions
        # c parametrised by two free log-concentrations: here simply that log k' = M log K with the same row operations M as A' = M A
        A0 = np.array(es.stoichs(), dtype=float)
        M = np.linalg.lstsq(A0.T, np.array(A, dtype=float).T, rcond=None)[0].T
        return np.allclose(M.dot(A0), np.array(A, dtype=float), atol=1e-12) and np.allclose(M.dot(np.log(Ks)), np.log(np.array(ks, dtype=float)), atol=1e-12)
    v.prove("reduced_constants_follow_the_constants_given", consistent(A1, k1, [2.0, 3.0]) and consistent(A2, k2, [5.0, 7.0]) and list(plain1) == [2.0, 3.0], detail="%r %r" % (k1, k2))


@harness("C07", "reported_element_totals", functions=["chempy.equilibria:EqSystem.composition_conservation"], kind="data")
def _(v):
    """the conservation report of an equilibrium system returns the element/charge totals of the state and of the initial state as they are,
    B c and B c0 in the order of the composition keys: a state that misses conservation by a trace amount (3e-13 of a 4e-13 M total) is reported
    with different totals, not rounded into agreement"""
    import numpy as np
    from chempy.chemistry import Equilibrium
    from chempy.equilibria import EqSystem
    from chempy.chemistry import Species
    subs = [Species.from_formula(k) for k in ("H2O", "H+", "OH-", "NH4+", "NH3")]
    es = EqSystem([Equilibrium({"H2O": 1}, {"H+": 1, "OH-": 1}, 1e-14 / 55.4), Equilibrium({"NH4+": 1}, {"H+": 1, "NH3": 1}, 10 ** -9.26)], subs)
    c0 = np.array([55.4, 1e-7, 1e-7, 3e-13, 1e-13])
    c = c0 + np.array([0.0, 3e-13, 0.0, -2e-13, -1e-13])            # nitrogen 4e-13 -> 1e-13, charge +1e-13
    keys, tot, tot0 = es.composition_conservation(c, c0)
    B, bkeys = es.composition_balance_vectors()
    B = np.array(B, dtype=float)
    v.prove("totals_are_B_times_the_state", list(keys) == list(bkeys) and np.array_equal(np.asarray(tot, dtype=float), B.dot(c)) and np.array_equal(np.asarray(tot0, dtype=float), B.dot(c0)),
            detail=repr((tot, tot0)))
    iN, iq = list(keys).index(7), list(keys).index(0)
    v.prove("trace_violations_stay_visible", abs((tot[iN] - tot0[iN]) + 3e-13) < 1e-20 + 1e-3 * 3e-13 and abs((tot[iq] - tot0[iq]) - 1e-13) < 2e-16 * 1e-7 + 1e-3 * 1e-13,
            detail=repr((tot[iN] - tot0[iN], tot[iq] - tot0[iq])))
