"""C09  Unit conversion is exact, reversible, and refuses incompatible dimensions."""
import fractions

from pyvc.api import harness
from pyvc import spec as SP
from pyvc.sym import Sym

META = {
    "explanation": "under the unit abstraction 5.1 with generic units of symbolic scale: to_unitless returns magnitude times the exact unit ratio (so multiplying back reproduces the quantity, conversions compose, scaling is linear), element-wise for lists and dicts, and raises for an incompatible target; magnitude/unit_of/rescale/is_unitless; get_derived_unit equals the product of registry units to the SI exponents of an independent table for every key, for every registry; the unit-aware array helpers have the delegation shape numpy_f(magnitudes in one common unit) * unit (polyfit coefficient i carries u_y*u_x^(i-deg)); the Backend wrapper sends every positional argument through to_unitless; chemistry-specific unit definitions and the abstraction itself are checked against the real quantities package (data obligations)",
    "trusted_base": ["assumed contract 5.1 (pyvc/qmodel.py) for `quantities`, validated on every run against the installed package by abstraction_validation (fixed behaviours) and abstraction_differential (1400 seeded random expressions: value, dimension, truth value, refusal)", "numpy array routines are uninterpreted (delegation shape only, 5.2)", "SI exponent table typed into this file"],
    "not_decided": ["correctness of the quantities package itself", "get_physical_dimensionality / default_unit_in_registry / unitless_in_registry / registry human-readable round trip (walk quantities internals): bounded stand-in"],
    "assumptions": [],
}
U = "chempy.units"
Fr = fractions.Fraction
# SI exponents (length, mass, time, current, temperature, luminous_intensity, amount)
SI = {
    "diffusivity": (2, 0, -1, 0, 0, 0, 0), "diffusion": (2, 0, -1, 0, 0, 0, 0), "electrical_mobility": (0, -1, 2, 1, 0, 0, 0),
    "permittivity": (-3, -1, 4, 2, 0, 0, 0), "charge": (0, 0, 1, 1, 0, 0, 0), "energy": (2, 1, -2, 0, 0, 0, 0),
    "concentration": (-3, 0, 0, 0, 0, 0, 1), "density": (-3, 1, 0, 0, 0, 0, 0), "radiolytic_yield": (-2, -1, 2, 0, 0, 0, 1),
    "doserate": (2, 0, -3, 0, 0, 0, 0), "linear_energy_transfer": (1, 1, -2, 0, 0, 0, 0),
}
DIMS = ("length", "mass", "time", "current", "temperature", "luminous_intensity", "amount")


def _table(v):
    from pyvc.qmodel import std_table
    return std_table()


@harness("C09", "to_unitless.scalar", functions=[U + ":to_unitless", U + ":magnitude", U + ":unit_of", U + ":rescale"], div_mode="assume", samples=0)
def _(v):
    from chempy import units as CU
    from pyvc.qmodel import si_value
    t = _table(v)
    dimv = v.choice("dimension", [(1, 0, 0, 0, 0, 0, 0), (-3, 0, 0, 0, 0, 0, 1), (2, 1, -2, 0, 0, 0, -1), (0, 0, -1, 0, 0, 0, 0)])
    u1, u2, u3 = t.generic("u1", dimv), t.generic("u2", dimv), t.generic("u3", dimv)
    m = v.real("mag", lo=-1e6, hi=1e6)
    q = m * u1
    r = v.call(CU.to_unitless, q, u2)
    s1, s2, s3 = t.scale["u1"], t.scale["u2"], t.scale["u3"]
    v.prove_identity("magnitude_times_exact_unit_ratio", r * s2, m * s1)
    v.prove_identity("multiply_back_reproduces_quantity", si_value(r * u2), si_value(q))
    r13 = v.call(CU.to_unitless, q, u3)
    r23 = v.call(CU.to_unitless, r * u2, u3)
    v.prove_identity("conversions_compose", r13, r23)
    a = v.real("a", lo=-10, hi=10)
    v.prove_identity("linear", v.call(CU.to_unitless, (a * m) * u1, u2), a * r)
    v.prove("same_unit_is_magnitude", v.call(CU.to_unitless, q, u1) == m)
    v.prove("magnitude", SP.conj([v.call(CU.magnitude, q) == m, v.call(CU.magnitude, 3.5) == 3.5]))
    uo = v.call(CU.unit_of, q)
    v.prove("unit_of", uo.u == {"u1": 1} and uo.mag == 1 and v.call(CU.unit_of, 3.5) == 1)
    v.prove("plain_number_passthrough", v.call(CU.to_unitless, 3.5, 1) == 3.5)
    # products of powers of different symbols, with a symbol shared between quantity and target cancelling
    ua, ub, uc, ud = (t.generic(n, dd) for n, dd in (("ua", (1, 0, 0, 0, 0, 0, 0)), ("ub", (0, 0, 1, 0, 0, 0, 0)), ("uc", (1, 0, 0, 0, 0, 0, 0)), ("ud", (0, 0, 1, 0, 0, 0, 0))))
    sa, sb, sc, sd = (t.scale[n] for n in ("ua", "ub", "uc", "ud"))
    rc = v.call(CU.to_unitless, m * ua ** 2 / ub, uc ** 2 / ud)
    v.prove_identity("compound_units", rc * sc * sc * sb, m * sa * sa * sd)
    rs_ = v.call(CU.to_unitless, m * ua ** 2 / ub, ua * uc / ub)
    v.prove_identity("shared_symbols_cancel", rs_ * sc, m * sa)
    a2 = v.real("a2", lo=-10, hi=10)
    v.prove_identity("additive_across_units", v.call(CU.to_unitless, m * ua + a2 * uc, ua), m + a2 * sc / sa)


@harness("C09", "to_unitless.incompatible_raises", functions=[U + ":to_unitless", U + ":rescale"], div_mode="assume", samples=0)
def _(v):
    from chempy import units as CU
    t = _table(v)
    base = [1, 0, -1, 0, 0, 0, 0]
    which = v.choice("off_dimension", [0, 1, 2, 3, 4, 6])
    by = v.choice("off_by", [-1, 1, 2])
    other = list(base)
    other[which] += by
    u1, u2 = t.generic("u1", tuple(base)), t.generic("u2", tuple(other))
    m = v.real("mag", lo=-1e6, hi=1e6)
    out = v.run(CU.to_unitless, m * u1, u2)
    v.prove("raises_instead_of_returning_a_number", out.raised(ValueError), detail=repr(out.value if out.returned else out.exc))
    out = v.run(CU.to_unitless, m * u1)
    v.prove("dimensional_to_dimensionless_raises", out.raised(ValueError))


@harness("C09", "to_unitless.containers", functions=[U + ":to_unitless", U + ":uniform"], div_mode="assume", samples=0)
def _(v):
    from chempy import units as CU
    t = _table(v)
    d = (1, 0, 0, 0, 0, 0, 0)
    u1, u2, u3 = t.generic("u1", d), t.generic("u2", d), t.generic("u3", d)
    a, b = v.real("a", lo=-100, hi=100), v.real("b", lo=-100, hi=100)
    s1, s2, s3 = t.scale["u1"], t.scale["u2"], t.scale["u3"]
    r = v.call(CU.to_unitless, {"x": a * u1, "y": b * u2}, u3)
    v.prove("dict_keys", set(r) == {"x", "y"})
    v.prove_identity("dict_x", r["x"] * s3, a * s1)
    v.prove_identity("dict_y", r["y"] * s3, b * s2)
    un = v.call(CU.uniform, {"x": a * u1, "y": b * u2})
    v.prove("uniform_dict_takes_first_unit", un["x"].u == {"u1": 1} and un["y"].u == {"u1": 1})
    v.prove_identity("uniform_dict_value", un["y"].mag * s1, b * s2)


@harness("C09", "to_unitless.scaled_dimensionless_target", functions=[U + ":to_unitless", U + ":is_unitless", U + ":rescale", U + ":unit_of", U + ":magnitude"], div_mode="assume", samples=0)
def _(v):
    """a target unit that is dimensionless but not 1 (percent, ppm, degree...; here: dimension zero, ANY scale): plain numbers, lists and plain
    numpy arrays are all expressed in it (value / scale), element-wise the same"""
    import numpy as np
    from chempy import units as CU
    t = _table(v)
    pc = t.generic("pc", (0, 0, 0, 0, 0, 0, 0))
    s = t.scale["pc"]
    m = v.real("m", lo=-1e6, hi=1e6)
    v.prove_identity("plain_number", v.call(CU.to_unitless, m, pc) * s, m)
    r = v.call(CU.to_unitless, [m, 2.5], pc)
    v.prove("list_length", len(r) == 2)
    v.prove_identity("list_0", r[0] * s, m)
    v.prove_identity("list_1", r[1] * s, 2.5)
    arr = np.array([0.5, 2.0, -3.0])
    r = v.call(CU.to_unitless, arr, pc)
    v.prove("plain_array_length", len(r) == 3)
    for i, x in enumerate([0.5, 2.0, -3.0]):
        v.prove_identity("plain_array_%d" % i, r[i] * s, x)
    r1 = v.call(CU.to_unitless, arr, 1)
    v.prove("plain_array_to_one_unchanged", [float(x) for x in r1] == [0.5, 2.0, -3.0])
    q = v.call(CU.to_unitless, m * pc)
    v.prove_identity("quantity_in_it_to_plain_number", q, m * s)


@harness("C09", "is_unitless", functions=[U + ":is_unitless"], div_mode="assume", samples=0)
def _(v):
    from chempy import units as CU
    t = _table(v)
    u1, u2 = t.generic("u1", (1, 0, 0, 0, 0, 0, 0)), t.generic("u2", (1, 0, 0, 0, 0, 0, 0))
    m = v.real("m")
    v.prove("plain_numbers", v.call(CU.is_unitless, 3.0) is True and v.call(CU.is_unitless, [1, 2.0]) is True)
    v.prove("dimensional_is_not", v.call(CU.is_unitless, m * u1) is False)
    v.prove("ratio_of_same_dimension_is", bool(v.call(CU.is_unitless, (m * u1) / u2)) is True)
    v.prove("containers", v.call(CU.is_unitless, {"a": m * u1}) is False and v.call(CU.is_unitless, [m * u1 / u1]) is True)
    # a container is unit-less iff EVERY element is (both truth values for every container type, mixed contents)
    v.prove("mixed_containers", bool(v.call(CU.is_unitless, {"a": 1.0, "b": (m * u1) / u2})) is True and bool(v.call(CU.is_unitless, {"a": 1.0, "b": m * u1})) is False
            and bool(v.call(CU.is_unitless, [1.0, m * u1])) is False and bool(v.call(CU.is_unitless, (1.0, (m * u1) / u2))) is True and bool(v.call(CU.is_unitless, (m * u1, 1.0))) is False
            and bool(v.call(CU.is_unitless, [])) is True)


@harness("C09", "get_derived_unit", functions=[U + ":get_derived_unit"], div_mode="assume", samples=0)
def _(v):
    from chempy import units as CU
    from pyvc.qmodel import si_value, dim_of
    t = _table(v)
    reg = {}
    for i, name in enumerate(DIMS):
        dv = tuple(1 if j == i else 0 for j in range(7))
        reg[name] = t.generic("r_" + name, dv)
    for key, exps in SI.items():
        got = v.call(CU.get_derived_unit, reg, key)
        want = 1
        for name, e in zip(DIMS, exps):
            sc = t.scale["r_" + name]
            want = want * (sc ** e if e >= 0 else 1 / sc ** (-e))
        v.prove(key + ".dimension", dim_of(got) == exps)
        v.prove_identity(key + ".value", si_value(got), want)
    v.prove("base_key_passthrough", v.call(CU.get_derived_unit, reg, "mass") is reg["mass"])
    v.prove("no_registry", v.call(CU.get_derived_unit, None, "energy") == 1.0)


@harness("C09", "array_helpers.delegation", functions=[U + ":linspace", U + ":logspace_from_lin", U + ":concatenate", U + ":tile", U + ":polyfit", U + ":polyval"], div_mode="assume", samples=0)
def _(v):
    from chempy import units as CU
    from pyvc.qmodel import NPCall, Quantity
    t = _table(v)
    L = (1, 0, 0, 0, 0, 0, 0)
    T = (0, 0, 1, 0, 0, 0, 0)
    x1, x2, y1, y2 = t.generic("x1", L), t.generic("x2", L), t.generic("y1", T), t.generic("y2", T)
    sx1, sx2, sy1, sy2 = (t.scale[k] for k in ("x1", "x2", "y1", "y2"))
    a, b, c, d = (v.real(n, lo=0.1, hi=100) for n in "abcd")
    r = v.call(CU.linspace, a * x1, b * x2, 7)
    v.prove("linspace.shape", isinstance(r, Quantity) and r.u == {"x1": 1} and isinstance(r.mag, NPCall) and r.mag.name == "linspace" and r.mag.args[2] == 7)
    v.prove("linspace.start_in_first_unit", r.mag.args[0] == a)
    v.prove_identity("linspace.stop_converted_to_first_unit", r.mag.args[1] * sx1, b * sx2)
    r = v.call(CU.concatenate, [[a * x1], [b * x2]])
    v.prove("concatenate.shape", r.u == {"x1": 1} and r.mag.name == "concatenate")
    parts = r.mag.args[0]
    v.prove("concatenate.first_kept", parts[0][0] == a)
    v.prove_identity("concatenate.second_converted", parts[1][0] * sx1, b * sx2)
    r = v.call(CU.tile, [a * x1, b * x2], 3)
    v.prove("tile.shape", r.u == {"x1": 1} and r.mag.name == "tile" and r.mag.args[1] == 3 and r.mag.args[0][0] == a)
    v.prove_identity("tile.converted", r.mag.args[0][1] * sx1, b * sx2)
    coef = v.call(CU.polyfit, [a * x1, b * x2], [c * y1, d * y2], 1)
    # coefficient i carries u_y * u_x**(i - deg)
    v.prove("polyfit.units", coef[0].u == {"y1": 1, "x1": -1} and coef[1].u == {"y1": 1})
    pf_args = coef[0].mag.args[0]
    v.prove("polyfit.numpy_called_with_degree", pf_args[2] == 1 and coef[0].mag.name == "polyfit_coef")
    # coefficient i of the result is coefficient i of numpy's result (highest power first), not a permutation of it
    v.prove("polyfit.coefficients_in_numpys_order", [cf.mag.args[1] for cf in coef] == [0, 1] and len(coef) == 2)
    coef2 = v.call(CU.polyfit, [a * x1, b * x2, a * x2], [c * y1, d * y2, c * y2], 2)
    v.prove("polyfit.degree_two", len(coef2) == 3 and [cf.mag.args[1] for cf in coef2] == [0, 1, 2] and coef2[0].u == {"y1": 1, "x1": -2} and coef2[1].u == {"y1": 1, "x1": -1} and coef2[2].u == {"y1": 1}
            and coef2[0].mag.args[0][2] == 2)
    v.prove_identity("polyfit.x_magnitudes_in_first_x_unit", pf_args[0][1] * sx1, b * sx2)
    v.prove_identity("polyfit.y_magnitudes_in_first_y_unit", pf_args[1][1] * sy1, d * sy2)
    p0, p1 = v.real("p0", lo=-5, hi=5), v.real("p1", lo=-5, hi=5)
    r = v.call(CU.polyval, [p1 * (y1 / x1), p0 * y2], [a * x1, b * x2])
    v.prove("polyval.unit_of_last_coefficient", r.u == {"y2": 1} and r.mag.name == "polyval")
    _p, _x = r.mag.args
    v.prove_identity("polyval.leading_coefficient_in_u_y_per_u_x", _p[0] * sy2, p1 * sy1)
    v.prove("polyval.constant_term", _p[1] == p0)
    v.prove_identity("polyval.x_in_first_unit", _x[1] * sx1, b * sx2)


@harness("C09", "Backend.wrapper", functions=[U + ":Backend.__getattr__"], div_mode="assume", samples=0)
def _(v):
    from chempy import units as CU
    import math
    t = _table(v)
    u1, u2 = t.generic("u1", (1, 0, 0, 0, 0, 0, 0)), t.generic("u2", (1, 0, 0, 0, 0, 0, 0))
    m = v.real("m", lo=0.1, hi=10)
    be = CU.Backend("math")
    out = v.run(v.getattr(be, "exp"), m * u1)
    v.prove("dimensional_argument_refused", out.raised(ValueError))
    r = v.call(v.getattr(be, "exp"), (m * u1) / u2)
    from pyvc.stubs import sym_exp
    v.prove("dimensionless_ratio_is_scaled_before_the_call", r == sym_exp(m * t.scale["u1"] / t.scale["u2"]))
    v.prove("constants_passthrough", v.getattr(be, "pi") == math.pi)


@harness("C09", "unit_definitions", functions=[U + ":<module unit definitions>"], kind="data")
def _(v):
    from chempy.units import default_units as u, default_constants as c, to_unitless as tu, SI_base_registry
    close = lambda a, b: abs(a / b - 1) < 1e-12
    v.prove("molar", close(tu(1 * u.molar, u.mol / u.m ** 3), 1000.0))
    v.prove("millimolar_micromolar_nanomolar", close(tu(1 * u.millimolar, u.molar), 1e-3) and close(tu(1 * u.micromolar, u.molar), 1e-6) and close(tu(1 * u.nanomolar, u.molar), 1e-9))
    v.prove("molal", close(tu(1 * u.molal, u.mol / u.kg), 1.0))
    v.prove("decimetre_and_litre", close(tu(1 * u.decimetre, u.m), 0.1) and close(tu(1 * u.dm3, u.m ** 3), 1e-3))
    v.prove("per100eV", close(tu(1 * u.per100eV, u.mol / u.joule), 1 / (100 * 1.602176634e-19 * 6.02214076e23)) or abs(tu(1 * u.per100eV, u.mol / u.joule) / 1.0364e-7 - 1) < 1e-3)
    v.prove("umol_per_J", close(tu(1 * u.umol_per_J, u.mol / u.joule), 1e-6))
    v.prove("centipoise", close(tu(1 * u.centipoise, u.pascal * u.second), 1e-3))
    import numpy as np
    v.prove("percent_is_a_scaled_dimensionless_unit", close(tu(1 * u.percent), 0.01) and close(tu(0.5, u.percent), 50.0)
            and [float(x) for x in tu(np.array([0.5, 1.0]), u.percent)] == [float(x) for x in tu([0.5, 1.0], u.percent)] == [50.0, 100.0])
    v.prove("SI_base_registry", [tu(SI_base_registry[k], getattr(u, n)) for k, n in zip(DIMS, ("metre", "kilogram", "second", "ampere", "kelvin", "candela", "mole"))] == [1.0] * 7)


@harness("C09", "abstraction_validation", functions=["pyvc.qmodel (assumed contract 5.1)"], kind="data")
def _(v):
    """the behaviours of the real quantities package that the abstraction relies on"""
    import math
    import numpy as np
    from chempy.units import default_units as u
    q = 3.0 * u.mM / u.M
    v.prove("different_symbols_do_not_cancel", str(q.dimensionality) != "dimensionless" and q.simplified.dimensionality.string == "dimensionless")
    v.prove("float_ignores_units", float(q) == 3.0 and abs(float(q.simplified) - 3e-3) < 1e-15)
    try:
        np.exp(q); ok = False
    except ValueError:
        ok = True
    v.prove("numpy_function_refuses_uncancelled_units", ok)
    try:
        10 ** q; ok = False
    except ValueError:
        ok = True
    v.prove("number_to_quantity_power_refused", ok)
    v.prove("math_function_takes_raw_magnitude", math.exp(q) == math.exp(3.0))
    s = 1.0 * u.m + 1.0 * u.cm
    v.prove("addition_takes_first_operands_unit", s.dimensionality.string == "m" and abs(float(s) - 1.01) < 1e-12)
    try:
        1.0 * u.m + 1.0 * u.s; ok = False
    except ValueError:
        ok = True
    v.prove("adding_different_dimensions_raises", ok)
    try:
        1.0 * u.m + 1.0; ok = False
    except ValueError:
        ok = True
    v.prove("adding_plain_number_to_dimensional_raises", ok)
    v.prove("comparison_rescales", bool(1.0 * u.m > 50 * u.cm))
    v.prove("comparison_with_a_bare_number_uses_the_magnitude_only", bool(3.0 * u.m == 3) and bool(u.percent == 1) and not bool(u.percent == 0.01) and bool(2.0 * u.km > 1.5)
            and bool(3.0 * u.m != 4) and not bool(3.0 * u.m == 3 * u.s))
    v.prove("same_symbols_cancel", (1.0 * u.K / u.K).dimensionality.string == "dimensionless")
    v.prove("power_scales_exponents", ((2.0 * u.m) ** 3).dimensionality.string == "m**3" and float((2.0 * u.m) ** 3) == 8.0)
    try:
        (1.0 * u.m).rescale(u.s); ok = False
    except ValueError:
        ok = True
    v.prove("rescale_refuses_dimension_mismatch", ok)


@harness("C09", "abstraction_differential", functions=["pyvc.qmodel (assumed contract 5.1) against the installed quantities package"], kind="data")
def _(v):
    """differential validation of the assumed contract 5.1: seeded random expressions over the units the abstraction knows are evaluated with the
    abstraction (exact rationals) and with the real package; value, dimension, truth value and refusal (ValueError) must agree"""
    import random
    from fractions import Fraction as Fr
    import quantities as pq
    from chempy.units import default_units as u
    from pyvc.qmodel import Units, ALIASES, Quantity as MQ, std_table
    t = std_table()
    mu = Units(t)
    names = sorted(n for n in ALIASES if hasattr(u, n) and n not in ("C",))      # 'C' would be coulomb here and Celsius-like elsewhere
    v.prove("enough_common_units", len(names) >= 30, detail=str(len(names)))
    bad_scale = []
    for n in names:
        real = getattr(u, n)
        model = getattr(mu, n)
        rs = real.simplified
        if abs(float(rs.magnitude) / float(model.si()) - 1) > 1e-12:
            bad_scale.append((n, float(rs.magnitude), float(model.si())))
    v.prove("every_common_unit_has_the_same_SI_value", not bad_scale, detail=str(bad_scale[:5]))
    rng = random.Random(20260927)

    def leaf():
        n = rng.choice(names)
        m = Fr(rng.randint(-40, 40), rng.choice([1, 2, 4, 5, 8]))
        if rng.random() < 0.15:
            return m, float(m)                                        # a bare number
        return m * getattr(mu, n), float(m) * getattr(u, n)

    def same_value(a, b):
        if isinstance(a, MQ) != isinstance(b, pq.Quantity):
            return False
        if isinstance(a, MQ):
            if abs(float(a.mag) - float(b.magnitude)) > 1e-9 * max(1.0, abs(float(b.magnitude))):
                return False
            sb = b.simplified
            sa = float(a.si())
            if abs(sa - float(sb.magnitude)) > 1e-9 * max(1e-300, abs(float(sb.magnitude))):
                return False
            dv = a.dimv()
            want = tuple(sb.dimensionality.get(k, 0) for k in (pq.m, pq.kg, pq.s, pq.A, pq.K, pq.cd, pq.mol))
            return tuple(dv) == tuple(want)
        return abs(float(a) - float(b)) <= 1e-9 * max(1.0, abs(float(b)))

    ops = ["mul", "div", "pow", "add", "sub", "lt", "eq", "ne", "rescale", "float", "neg", "abs", "simplified", "eq_bare", "gt_bare"]
    mismatches, count, raised = [], 0, 0
    for case in range(1500):
        (a, ra), (b, rb) = leaf(), leaf()
        op = rng.choice(ops)
        k = rng.choice([-2, -1, 2, 3])
        bare = rng.choice([float(rng.randint(-3, 3)), 1.0])
        funs = {
            "mul": lambda x, y: x * y, "div": lambda x, y: x / y if y != 0 else None, "pow": lambda x, y: x ** k, "add": lambda x, y: x + y, "sub": lambda x, y: x - y,
            "lt": lambda x, y: bool(x < y), "eq": lambda x, y: bool(x == y), "ne": lambda x, y: bool(x != y), "rescale": lambda x, y: x.rescale(y.units),
            "float": lambda x, y: float(x), "neg": lambda x, y: -x, "abs": lambda x, y: abs(x), "simplified": lambda x, y: x.simplified,
            "eq_bare": lambda x, y: bool(x == bare), "gt_bare": lambda x, y: bool(x > bare),
        }
        if op in ("rescale", "simplified") and not (isinstance(a, MQ) and isinstance(b, MQ)):
            continue
        if op in ("div", "pow") and ((op == "div" and float(rb if not isinstance(rb, pq.Quantity) else rb.magnitude) == 0) or (op == "pow" and float(ra if not isinstance(ra, pq.Quantity) else ra.magnitude) == 0)):
            continue
        if op == "float" and isinstance(a, MQ):
            got_m = ("ok", float(a.raw_float()))
        else:
            try:
                got_m = ("ok", funs[op](a, b))
            except ValueError:
                got_m = ("ValueError", None)
        try:
            got_r = ("ok", funs[op](ra, rb))
        except ValueError:
            got_r = ("ValueError", None)
        count += 1
        if got_m[0] != got_r[0]:
            mismatches.append((case, op, repr(a), repr(ra), repr(b), repr(rb), got_m[0], got_r[0]))
            continue
        if got_m[0] == "ValueError":
            raised += 1
            continue
        x, y = got_m[1], got_r[1]
        ok = (x == y) if isinstance(x, bool) or isinstance(y, bool) else same_value(x, y)
        if not ok:
            mismatches.append((case, op, repr(a), repr(ra), repr(b), repr(rb), repr(x), repr(y)))
    v.prove("abstraction_agrees_with_the_real_package", not mismatches, detail="%d of %d: %s" % (len(mismatches), count, mismatches[:4]))
    v.prove("refusals_were_exercised", raised >= 50 and count >= 1000, detail="%d refusals in %d cases" % (raised, count))


@harness("C09", "rescale", functions=[U + ":rescale"], div_mode="assume", samples=0)
def _(v):
    """rescale: a quantity is expressed in the target unit (same physical value), a plain number is returned only for a target that is exactly
    one, and a plain number with a dimensional target is refused ('raises instead of returning a number')"""
    from chempy import units as CU
    from pyvc.qmodel import si_value
    t = _table(v)
    d = (1, 0, -1, 0, 0, 0, 0)
    u1, u2 = t.generic("u1", d), t.generic("u2", d)
    other = t.generic("other", (0, 1, 0, 0, 0, 0, 0))
    m = v.real("m", lo=-1e6, hi=1e6)
    r = v.call(CU.rescale, m * u1, u2)
    v.prove("result_is_in_the_target_unit", r.u == {"u2": 1})
    v.prove_identity("same_physical_value", si_value(r), si_value(m * u1))
    v.prove("incompatible_target_refused", v.run(CU.rescale, m * u1, other).raised(ValueError))
    v.prove("plain_number_and_one", v.call(CU.rescale, 3.5, 1) == 3.5)
    out = v.run(CU.rescale, 3.5, u1)
    v.prove("plain_number_with_dimensional_target_refused", not out.returned, detail=repr(out.value if out.returned else None))


@harness("C09", "helpers_on_the_real_package", functions=[U + ":rescale", U + ":polyfit", U + ":Backend.__getattr__", U + ":default_unit_in_registry", U + ":unitless_in_registry", U + ":get_derived_unit"], kind="data")
def _(v):
    """behaviours that involve the real quantities/numpy objects: refusal of a plain number with a dimensional target, keyword arguments of the
    numerical routine are passed on, every positional argument of a wrapped function is made unitless, and a registry is read as it is NOW"""
    import math
    import numpy as np
    from chempy import units as CU
    from chempy.units import default_units as u, SI_base_registry
    refused = []
    for target in (u.metre, u.km, 2 * u.metre, u.percent):
        try:
            CU.rescale(3.0, target)
            refused.append(False)
        except Exception:
            refused.append(True)
    v.prove("rescale_plain_number_refused_unless_target_is_one", all(refused) and CU.rescale(3.0, 1) == 3.0 and CU.rescale(3.0, 1.0) == 3.0)
    x = np.array([0.0, 1.0, 2.0, 3.0]) * u.s
    y = np.array([-1.4, 1.7, 4.8, 100.0]) * u.m
    w = [1, 1, 1, 1e-6]
    ref = np.polyfit([0.0, 1.0, 2.0, 3.0], [-1.4, 1.7, 4.8, 100.0], 1, w=w)
    got = CU.polyfit(x, y, 1, w=w)
    v.prove("polyfit_weights_are_used", abs(float(CU.to_unitless(got[0], u.m / u.s)) - ref[0]) < 1e-9 and abs(float(CU.to_unitless(got[1], u.m)) - ref[1]) < 1e-9, detail=repr(got))
    quad = CU.polyfit(x, np.array([1.0, 2.0, 7.0, 16.0]) * u.m, 2)
    refq = np.polyfit([0.0, 1.0, 2.0, 3.0], [1.0, 2.0, 7.0, 16.0], 2)
    v.prove("polyfit_degree_two_highest_power_first", all(abs(float(CU.to_unitless(c, u.m / u.s ** (2 - i))) - refq[i]) < 1e-9 for i, c in enumerate(quad)))
    be = CU.Backend("math")
    try:
        vals = (be.pow(3.0, 2000 * u.m / u.km), be.atan2(1, 1000 * u.mm / u.m))
        ok2, det = abs(vals[0] - 9.0) < 1e-12 and abs(vals[1] - math.pi / 4) < 1e-12, repr(vals)
    except Exception as ex:
        ok2, det = False, repr(ex)
    v.prove("backend_second_argument_made_unitless", ok2, detail=det)
    try:
        be.pow(2.0, 3 * u.metre)
        ok = False
    except Exception:
        ok = True
    v.prove("backend_dimensional_second_argument_refused", ok)
    reg = dict(SI_base_registry)
    first = float(CU.unitless_in_registry(3 * u.molar, reg))
    reg["length"] = u.decimetre
    second = float(CU.unitless_in_registry(3 * u.molar, reg))
    du = CU.default_unit_in_registry(3 * u.molar, reg)
    v.prove("registry_edited_in_place_is_read_again", abs(first - 3000.0) < 1e-9 and abs(second - 3.0) < 1e-12 and abs(float(CU.to_unitless(du, u.mol / u.decimetre ** 3)) - 1) < 1e-12
            and abs(float(CU.to_unitless(CU.get_derived_unit(reg, "concentration"), u.molar)) - 1) < 1e-12, detail="%r %r %r" % (first, second, du))
    other = dict(SI_base_registry, time=u.minute)
    v.prove("another_registry_alive_at_the_same_time", abs(float(CU.unitless_in_registry(2 / u.second, other)) - 120.0) < 1e-9 and abs(float(CU.unitless_in_registry(2 / u.second, reg)) - 2.0) < 1e-12)


@harness("C09", "bare_units_and_exact_registry_round_trip", functions=[U + ":Backend.__getattr__", U + ":unit_registry_to_human_readable", U + ":unit_registry_from_human_readable"], kind="data")
def _(v):
    """(a) an argument that carries a unit without being a number-times-unit product (a bare unit object such as metre or percent, an object
    array holding quantities) is made unitless by the Backend wrapper like any other quantity: refused when dimensional, converted with the exact
    unit ratio when a scaled pure number; (b) the human-readable round trip of a registry reproduces every unit with ratio exactly one, also for
    scale factors that need all 17 significant digits (1/3 nm, 1/60 s, 1/N_A mol)"""
    import math
    import numpy as np
    from chempy import units as CU
    from chempy.units import default_units as u
    be = CU.Backend("math")
    out = []
    for arg in (u.metre, u.second, 3 * u.metre):
        try:
            out.append(("returned", be.exp(arg)))
        except Exception:
            out.append("refused")
    v.prove("dimensional_bare_unit_refused", out == ["refused"] * 3, detail=repr(out))
    try:
        got = (be.exp(u.percent), be.exp(1 * u.percent), be.log10(u.km / u.m))
        ok, det = abs(got[0] - math.exp(0.01)) < 1e-15 and got[0] == got[1] and abs(got[2] - 3) < 1e-12, repr(got)
    except Exception as ex:
        ok, det = False, repr(ex)
    v.prove("scaled_pure_number_unit_converted", ok, detail=det)
    nbe = CU.Backend("numpy")
    try:
        arr = nbe.exp(np.array([1 * u.percent, 200 * u.percent], dtype=object))
        ok, det = np.allclose(np.asarray(arr, dtype=float), [math.exp(0.01), math.exp(2.0)], rtol=1e-14), repr(arr)
    except Exception as ex:
        ok, det = False, repr(ex)
    v.prove("object_array_of_quantities_converted", ok, detail=det)
    try:
        nbe.exp(np.array([1 * u.metre, 2 * u.metre], dtype=object))
        ok = False
    except Exception:
        ok = True
    v.prove("object_array_of_dimensional_quantities_refused", ok)
    reg = dict(CU.SI_base_registry, length=(1 / 3.0) * u.nanometre, time=(1 / 60.0) * u.second, amount=(1 / 6.02214076e23) * u.mole, mass=0.1 * 3 * u.gram)
    back = CU.unit_registry_from_human_readable(CU.unit_registry_to_human_readable(reg))
    ratios = {k: float(CU.to_unitless(reg[k], back[k])) for k in reg}
    v.prove("round_trip_ratio_exactly_one", set(back) == set(reg) and all(r == 1.0 for r in ratios.values()), detail=repr(ratios))
    q = 7 * u.nanometre / u.second
    v.prove("round_trip_same_magnitudes", float(CU.unitless_in_registry(q, reg)) == float(CU.unitless_in_registry(q, back)))


@harness("C09", "closeness_and_logarithmic_spacing", functions=[U + ":allclose", U + ":logspace_from_lin"], div_mode="assume", samples=0)
def _(v):
    """'closeness test' and 'logarithmic spacing' of the property: allclose on two quantities in two different compatible units decides
    |a - b| <= rtol*|a| (+ atol) on the PHYSICAL values, whatever the two units are (so it is what the numerical comparison returns on magnitudes
    in one common unit); incompatible dimensions are not close; logspace_from_lin hands numpy the logarithms of the magnitudes in the first
    argument's unit and returns the result times that unit"""
    from chempy import units as CU
    from pyvc.qmodel import NPCall, Quantity
    t = _table(v)
    L = (1, 0, 0, 0, 0, 0, 0)
    T = (0, 0, 1, 0, 0, 0, 0)
    x1, x2, x3, y1 = t.generic("x1", L), t.generic("x2", L), t.generic("x3", L), t.generic("y1", T)
    sx1, sx2, sx3 = (t.scale[k] for k in ("x1", "x2", "x3"))
    a, b = v.real("a", lo=-100, hi=100), v.real("b", lo=-100, hi=100)
    rtol, atol = v.real("rtol", lo=0, hi=1), v.real("atol", lo=0, hi=10)
    from pyvc.sym import wrap, to_z3
    import z3
    iff = lambda got, want: wrap(to_z3(got) == to_z3(want)) if not isinstance(got, bool) else (wrap(to_z3(want)) if got else ~wrap(to_z3(want)))
    r = v.call(CU.allclose, a * x1, b * x2, rtol)
    v.prove("allclose.relative_on_physical_values", iff(r, abs(a * sx1 - b * sx2) <= abs(a * sx1) * rtol))
    r = v.call(CU.allclose, a * x1, b * x2, rtol, atol * x3)
    v.prove("allclose.absolute_term_in_any_unit", iff(r, abs(a * sx1 - b * sx2) <= abs(a * sx1) * rtol + atol * sx3))
    r = v.call(CU.allclose, a * x1, b * y1, rtol)
    v.prove("allclose.incompatible_dimensions_are_not_close", r is False or r == False)  # noqa: E712
    r = v.call(CU.allclose, [a * x1, b * x1], [a * x2, b * x2], rtol)
    v.prove("allclose.lists_element_wise", iff(r, (abs(a * sx1 - a * sx2) <= abs(a * sx1) * rtol) & (abs(b * sx1 - b * sx2) <= abs(b * sx1) * rtol)))
    c, d = v.real("c", lo=0.1, hi=100), v.real("d", lo=0.1, hi=100)
    r = v.call(CU.logspace_from_lin, c * x1, d * x2, 9)
    v.prove("logspace.shape", isinstance(r, Quantity) and r.u == {"x1": 1} and isinstance(r.mag, NPCall) and r.mag.name == "exp2")
    inner = r.mag.args[0]
    v.prove("logspace.linear_spacing_of_logarithms", isinstance(inner, NPCall) and inner.name == "linspace" and inner.args[2] == 9)
    lo_, hi_ = inner.args[0], inner.args[1]
    from pyvc.sym import wrap_num
    zlo, zhi = to_z3(lo_), to_z3(hi_)
    v.prove("logspace.both_ends_are_log2_of_a_magnitude", zlo.decl().name() == "log2" and zhi.decl().name() == "log2" and zlo.num_args() == 1 and zhi.num_args() == 1)
    v.prove_identity("logspace.start_in_first_unit", wrap_num(zlo.arg(0)), c)
    v.prove_identity("logspace.stop_converted_to_first_unit", wrap_num(zhi.arg(0)) * sx1, d * sx2)


@harness("C09", "closeness_of_containers_of_different_length", functions=[U + ":allclose"], kind="data")
def _(v):
    """the closeness test on containers: two containers of different length are never close (as with numpy's routine, a shape mismatch is not a
    match) -- uniform-unit arrays, mixed-unit lists, and an empty container against a non-empty one; equal lengths are compared element-wise"""
    import warnings
    from chempy.units import allclose, default_units as u
    out = {}
    with warnings.catch_warnings():
        warnings.simplefilter("ignore")
        for label, a, b in (("array_prefix", [1, 2] * u.m, [1, 2, 3] * u.m), ("mixed_units_prefix", [1 * u.m, 2 * u.km], [1 * u.m, 2 * u.km, 3 * u.m]), ("empty_left", [], [1 * u.m]),
                            ("empty_right", [1 * u.m], []), ("longer_left", [1 * u.m, 2 * u.km, 3 * u.m], [1 * u.m, 2 * u.km])):
            try:
                out[label] = bool(allclose(a, b))
            except Exception:
                out[label] = False
    v.prove("different_lengths_are_not_close", not any(out.values()), detail=repr(out))
    v.prove("equal_lengths_element_wise", bool(allclose([1 * u.m, 2 * u.km], [100 * u.cm, 2000 * u.m])) and not bool(allclose([1 * u.m, 2 * u.km], [100 * u.cm, 2001 * u.m])))


@harness("C09", "polyfit_with_further_outputs", functions=[U + ":polyfit"], kind="data")
def _(v):
    """'polynomial fit … returns what the plain numerical routine returns on the magnitudes expressed in one common unit, times that unit', also
    when the routine is asked for more than the coefficients (cov=True, full=True): the coefficients still carry u_y*u_x**(i-deg) each -- the
    intercept is a length, not a velocity -- and nothing that is not a coefficient is labelled as one; the further outputs are the numbers the
    numerical routine returns for the magnitudes (or the request is refused)"""
    import numpy as np
    from chempy import units as CU
    from chempy.units import default_units as u
    xs, ys = [0.0, 1.0, 2.0, 3.0, 4.0], [0.0, 1.1, 1.9, 3.2, 3.9]
    x, y = np.array(xs) * u.s, np.array(ys) * u.m
    for kw, ref in (({"cov": True}, np.polyfit(xs, ys, 1, cov=True)), ({"full": True}, np.polyfit(xs, ys, 1, full=True))):
        label = list(kw)[0]
        try:
            r = CU.polyfit(x, y, 1, **kw)
        except (ValueError, TypeError, NotImplementedError):
            v.prove(label + ".coefficients_keep_their_units", True, detail="refused")
            continue
        try:
            coeffs, rest = r[0], r[1:]
            ok = (len(coeffs) == 2 and abs(float(CU.to_unitless(coeffs[0], u.m / u.s)) - ref[0][0]) < 1e-12 and abs(float(CU.to_unitless(coeffs[1], u.m)) - ref[0][1]) < 1e-12
                  and len(rest) == len(ref) - 1 and all(np.allclose(np.asarray(CU.magnitude(a), dtype=float), np.asarray(b, dtype=float)) for a, b in zip(rest, ref[1:])))
            det = repr(r)[:300]
        except Exception as ex:
            ok, det = False, "%r -> %r" % (r, ex)
        v.prove(label + ".coefficients_keep_their_units", ok, detail=det[:300])
