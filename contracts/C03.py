"""C03  Mass-action rate of each substance is net stoichiometry times k*prod(c^nu)."""
import math

from pyvc.api import harness
from pyvc import spec as SP
from pyvc.objs import make_obj
from pyvc.sym import Sym

META = {
    "explanation": "stoichiometry tuples, reaction order and the active concentration product proved for reactions of any size (symbolic maps, quantified postconditions, loop invariant); Reaction.rate, ReactionSystem.rates (incl. stirred-tank feed terms), dCdt_list and law_of_mass_action_rates proved for every coefficient/concentration/rate constant at fixed system shapes that include catalysts on both sides, inactive parts, repeated species and spectators",
    "trusted_base": ["numpy object arrays hold and return the stored elements (5.2)", "pow(x, n) axioms (5.3) for symbolic exponents"],
    "not_decided": ["get_coeff_mtx (integer numpy array, native only: bounded stand-in)", "systems larger than the proved shapes for rates()/dCdt_list (bounded stand-in)"],
    "assumptions": ["numeric / Fraction / sympy variables are instances of the same commutative-ring axioms"],
}
CH = "chempy.chemistry"
RS = "chempy.reactionsystem"
KEYS = ["A", "B", "C", "D", "E", "H2O", "Na+"]


def sym_reaction(v, **kw):
    from chempy.chemistry import Reaction
    d = lambda n: v.dict(n, K="str", V="int", val_lo=1, val_hi=4, keys=KEYS, maxlen=3)
    return make_obj(Reaction, reac=d("reac"), prod=d("prod"), inact_reac=d("inact_reac"), inact_prod=d("inact_prod"), param=kw.get("param"), name=None, ref=None, data={})


def _len(v, s):
    return s.sym_len() if v.symbolic else len(s)


def _at(v, s, j):
    return s.at(j) if v.symbolic else s[j]


def _stoich_specs(rxn):
    """per method: coefficient of substance key k, written out from the property's four maps (active / inactive reactants and products)"""
    g = SP.dget
    return {
        "net_stoich": lambda k: g(rxn.prod, k) - g(rxn.reac, k) + g(rxn.inact_prod, k) - g(rxn.inact_reac, k),
        "all_reac_stoich": lambda k: g(rxn.reac, k) + g(rxn.inact_reac, k),
        "active_reac_stoich": lambda k: g(rxn.reac, k),
        "all_prod_stoich": lambda k: g(rxn.prod, k) + g(rxn.inact_prod, k),
        "active_prod_stoich": lambda k: g(rxn.prod, k),
    }


def _stoich_tuple(name):
    # one harness per method (obligation names unchanged: C03.stoich_tuples.<method>.<what>), so that a construct outside the accepted subset in
    # ONE of the five methods leaves the obligations about the other four (and about order()) decided
    @harness("C03", "stoich_tuples." + name, functions=[CH + ":Reaction." + name], samples=40)
    def _(v):
        rxn = sym_reaction(v)
        keys = v.seq("substance_keys", "str", maxlen=5, pool=KEYS)
        n = _len(v, keys)
        sp = _stoich_specs(rxn)[name]
        r = v.call(getattr(rxn, name), keys)
        v.prove("length", _len(v, r) == n)
        v.prove("pointwise", SP.forall_int(0, n, lambda j: _at(v, r, j) == sp(_at(v, keys, j))))
        if name == "net_stoich" and (v.symbolic or n > 0):
            v.prove("canary", SP.implies(n > 0, SP.neg(_at(v, r, 0) == sp(_at(v, keys, 0)) + 1)))
    return _


for _n in ("net_stoich", "all_reac_stoich", "active_reac_stoich", "all_prod_stoich", "active_prod_stoich"):
    _stoich_tuple(_n)


@harness("C03", "stoich_tuples", functions=[CH + ":Reaction.order"], samples=40)
def _(v):
    rxn = sym_reaction(v)
    v.prove("order", v.call(rxn.order) == SP.ssum(rxn.reac, lambda kv: kv[1]))


@harness("C03", "active_conc_prod", functions=["chempy.kinetics.rates:MassAction.active_conc_prod", "chempy.kinetics.rates:MassAction.__call__", "chempy.kinetics.rates:MassAction.rate_coeff"],
         samples=40)
def _(v):
    from chempy.kinetics.rates import MassAction
    rxn = sym_reaction(v)
    conc = v.dict("variables", K="str", V="real", val_lo=0, val_hi=5, keys=KEYS, maxlen=7)
    if not v.symbolic:
        for k in KEYS:
            conc.setdefault(k, 1.5)
    v.assume(SP.forall(rxn.reac, lambda k, nu: SP.dhas(conc, k)))
    # the same precondition once more, position by position of the map's key sequence (a consequence of the line above, every position holds a key
    # of the map; the solver derives it when asked to, so nothing is added to what is assumed): in this form it settles `key in variables` for the
    # element at a BOUND position, which is what the code asks when the product is written as a fold over a generator
    # (functools.reduce(mul, (variables[k] ** nu for k, nu in reac.items()), 1)) instead of a loop
    v.assume(SP.forall(rxn.reac.keys(), lambda k: SP.dhas(conc, k)))
    k_rate = v.real("k", lo=0, hi=9)
    ma = MassAction([k_rate])

    def term(kv):
        return SP.spow(SP.dget(conc, kv[0], 0.0), kv[1])

    def term_of(el):
        """the factor that belongs to one element of the loop's sequence, whatever the loop iterates: (key, coefficient) pairs of the map
        (`.items()`) or its keys alone (`for key in reac` / `.keys()`), where the coefficient of a key is reac[key].  Which sequence the code
        iterates is not prescribed here: the postconditions below compare the result with the product over rxn.reac itself."""
        return term(el) if isinstance(el, tuple) else term((el, rxn.reac.value(el)))
    v.invariant(MassAction.active_conc_prod, 0, lambda env, i, seq: env["@acc"] == SP.sprod_prefix(seq, i, term_of))
    cp = v.call(ma.active_conc_prod, conc, reaction=rxn)
    v.prove("only_active_reactants", v.eq(cp, SP.sprod(rxn.reac, term)))
    r = v.call(ma, conc, reaction=rxn)
    v.prove("rate_is_k_times_product", v.eq(r, k_rate * SP.sprod(rxn.reac, term)))


# ---------------------------------------------------------------------------------- fixed shapes
def shapes():
    """(reac, prod, inact_reac, inact_prod) key layouts; coefficients are symbolic"""
    return {
        "plain": (["A", "B"], ["C"], [], []),
        "catalyst": (["A", "B"], ["B", "C"], [], []),
        "inactive": (["A"], ["C"], ["A", "B"], ["C", "D"]),
        "dimer": (["A"], ["B"], [], []),
        "source": ([], ["A"], [], []),
    }


def build_reaction(v, tag, layout, param):
    from chempy.chemistry import Reaction
    reac, prod, ireac, iprod = layout
    mk = lambda side, ks: {k: v.int("%s_%s_%s" % (tag, side, k), lo=1, hi=3) for k in ks}
    d = [mk("r", reac), mk("p", prod), mk("ir", ireac), mk("ip", iprod)]
    return Reaction(d[0], d[1], param, d[2] or None, d[3] or None, checks=()), d


def spec_net(d, k):
    return d[1].get(k, 0) - d[0].get(k, 0) + d[3].get(k, 0) - d[2].get(k, 0)


def spec_cp(d, conc):
    r = 1
    for k, nu in d[0].items():
        r = r * SP.spow(conc[k], nu)
    return r


def _rate_shape(name, layout):
    @harness("C03", "Reaction.rate." + name, functions=[CH + ":Reaction.rate", CH + ":Reaction.rate_expr", CH + ":Reaction.keys"], kind="shape-bounded", samples=25)
    def _(v):
        subst = ["C", "A", "E", "B", "D"]      # neither alphabetical nor order of appearance
        conc = {k: v.real("c" + k, lo=-5, hi=5) for k in subst}
        kk = v.real("k", lo=0, hi=9)
        rxn, d = build_reaction(v, "r", layout, kk)
        r = v.call(rxn.rate, conc, substance_keys=subst)
        srat = kk * spec_cp(d, conc)
        # one entry per requested substance; the ORDER of the entries in the returned dict is not part of the property
        v.prove("domain", set(r.keys()) == set(subst))
        v.prove("value", SP.conj([v.eq(r[k], spec_net(d, k) * srat) for k in subst]))
        v.prove("spectator_zero", v.eq(r["E"], 0))
        # default substance keys: every species of the reaction has its entry; a further entry (a substance on neither side) is
        # allowed by the property only with the value zero
        r2 = v.call(rxn.rate, conc)
        own = set(d[0]) | set(d[1]) | set(d[2]) | set(d[3])
        v.prove("default_keys", own <= set(r2.keys()) and SP.conj([v.eq(r2[k], 0) for k in sorted(set(r2.keys()) - own)]))
        v.prove("default_value", SP.conj([v.eq(r2[k], spec_net(d, k) * srat) for k in own]))
        # string parameter -> looked up in variables
        rxn3, d3 = build_reaction(v, "r", layout, "kf")
        r3 = v.call(rxn3.rate, dict(conc, kf=kk), substance_keys=subst)
        v.prove("named_param", SP.conj([v.eq(r3[k], spec_net(d, k) * srat) for k in subst]))
        # 'inactive reactants never enter the concentration product', nor do products or spectators: variables that hold ONLY the
        # active reactants' concentrations are enough (nothing else may be looked up)
        r4 = v.call(rxn.rate, {k: conc[k] for k in d[0]}, substance_keys=subst)
        v.prove("only_active_reactants_are_looked_up", set(r4.keys()) == set(subst) and SP.conj([v.eq(r4[k], spec_net(d, k) * srat) for k in subst]))
        # argument ratex: a mass-action expression given by the caller replaces the reaction's own k (here k2), nothing else changes
        from chempy.kinetics.rates import MassAction
        k2 = v.real("k_ratex", lo=0, hi=9)
        r5 = v.call(rxn.rate, conc, substance_keys=subst, ratex=MassAction([k2]))
        v.prove("ratex_replaces_the_rate_constant", set(r5.keys()) == set(subst) and SP.conj([v.eq(r5[k], spec_net(d, k) * k2 * spec_cp(d, conc)) for k in subst]))
    return _


for _n, _l in shapes().items():
    _rate_shape(_n, _l)


def _systems():
    s = shapes()
    return {
        "two_shared": [s["plain"], s["catalyst"]],
        "inactive_mix": [s["inactive"], s["dimer"], s["plain"]],
        "source_sink": [s["source"], s["dimer"]],
    }


def _rsys_shape(name, layouts):
    @harness("C03", "ReactionSystem.rates." + name, functions=[RS + ":ReactionSystem.rates", CH + ":Reaction.rate"], kind="shape-bounded", samples=25)
    def _(v):
        from chempy.reactionsystem import ReactionSystem
        from chempy.chemistry import Substance
        subst = ["C", "A", "E", "B", "D"]      # neither alphabetical nor order of appearance
        conc = {k: v.real("c" + k, lo=-5, hi=5) for k in subst}
        rxns, ds, ks = [], [], []
        for i, lay in enumerate(layouts):
            kk = v.real("k%d" % i, lo=0, hi=9)
            rxn, d = build_reaction(v, "r%d" % i, lay, kk)
            rxns.append(rxn); ds.append(d); ks.append(kk)
        rsys = ReactionSystem(rxns, [Substance(k) for k in subst], checks=())
        spec = {k: sum(spec_net(d, k) * kk * spec_cp(d, conc) for d, kk in zip(ds, ks)) for k in subst}
        r = v.call(rsys.rates, conc)
        v.prove("every_substance_has_a_rate", set(r.keys()) == set(subst))
        v.prove("sum_of_contributions", SP.conj([v.eq(r[k], spec[k]) for k in subst]))
        # order independence
        rsys_rev = ReactionSystem(rxns[::-1], [Substance(k) for k in subst], checks=())
        r2 = v.call(rsys_rev.rates, conc)
        v.prove("order_independent", SP.conj([v.eq(r2[k], spec[k]) for k in subst]))
        # stirred tank: F*(c_feed - c) per substance
        F = v.real("F", lo=0, hi=3)
        feed = {k: v.real("feed" + k, lo=0, hi=5) for k in subst}
        var = dict(conc, fr=F, **{"fc_" + k: feed[k] for k in subst})
        r3 = v.call(rsys.rates, var, cstr_fr_fc=("fr", {k: "fc_" + k for k in subst}))
        v.prove("cstr_feed_terms", SP.conj([v.eq(r3[k], spec[k] + F * (feed[k] - conc[k])) for k in subst]))
        # only concentrations of active reactants (of some reaction) are needed: inactive reactants, products and spectators are never looked up
        needed = {k: conc[k] for k in subst if any(k in d[0] for d in ds)}
        r4 = v.call(rsys.rates, needed)
        v.prove("only_active_reactants_are_looked_up", set(r4.keys()) == set(subst) and SP.conj([v.eq(r4[k], spec[k]) for k in subst]))
        # argument ratexs (one entry per reaction): None keeps the reaction's own rate expression; a mass-action expression replaces the
        # k of THAT reaction only
        r5 = v.call(rsys.rates, conc, ratexs=[None] * len(rxns))
        v.prove("ratexs_all_None_is_the_default", set(r5.keys()) == set(subst) and SP.conj([v.eq(r5[k], spec[k]) for k in subst]))
        from chempy.kinetics.rates import MassAction
        k_new = v.real("k_ratex", lo=0, hi=9)
        last = len(rxns) - 1
        spec6 = {k: sum(spec_net(d, k) * (k_new if i == last else kk) * spec_cp(d, conc) for i, (d, kk) in enumerate(zip(ds, ks))) for k in subst}
        r6 = v.call(rsys.rates, conc, ratexs=[None] * last + [MassAction([k_new])])
        v.prove("ratexs_entry_replaces_the_constant_of_its_reaction", set(r6.keys()) == set(subst) and SP.conj([v.eq(r6[k], spec6[k]) for k in subst]))
    return _


for _n, _l in _systems().items():
    _rsys_shape(_n, _l)


def _array_shape(name, layouts):
    @harness("C03", "array_forms." + name, functions=["chempy.kinetics.ode:law_of_mass_action_rates", "chempy.kinetics.ode:dCdt_list", RS + ":ReactionSystem._stoichs",
                                                      RS + ":ReactionSystem.net_stoichs", RS + ":ReactionSystem.as_substance_index"], kind="shape-bounded", samples=25)
    def _(v):
        from chempy.reactionsystem import ReactionSystem
        from chempy.chemistry import Substance
        from chempy.kinetics.ode import law_of_mass_action_rates, dCdt_list
        subst = ["C", "A", "E", "B", "D"]      # position in the concentration vector != alphabetical rank
        conc = [v.real("c" + k, lo=-5, hi=5) for k in subst]
        cd = dict(zip(subst, conc))
        rxns, ds, ks = [], [], []
        for i, lay in enumerate(layouts):
            kk = v.real("k%d" % i, lo=0, hi=9)
            rxn, d = build_reaction(v, "r%d" % i, lay, kk)
            rxns.append(rxn); ds.append(d); ks.append(kk)
        rsys = ReactionSystem(rxns, [Substance(k) for k in subst], checks=())
        rates = list(v.call(law_of_mass_action_rates, conc, rsys))
        # exactly one rate per reaction, in the order of the reactions (zip alone would hide a generator that stops early)
        v.prove("law_of_mass_action", len(rates) == len(ds) and SP.conj([v.eq(r, kk * spec_cp(d, cd)) for r, kk, d in zip(rates, ks, ds)]))
        # entries of the concentration vector that belong to no active reactant are never touched (inactive reactants, products, spectators)
        sparse = [c if any(k in d[0] for d in ds) else None for k, c in zip(subst, conc)]
        rates_sp = list(v.call(law_of_mass_action_rates, sparse, rsys))
        v.prove("law_of_mass_action.only_active_reactants_are_read", len(rates_sp) == len(ds) and SP.conj([v.eq(r, kk * spec_cp(d, cd)) for r, kk, d in zip(rates_sp, ks, ds)]))
        f = v.call(dCdt_list, rsys, rates)
        v.prove("dCdt_list", SP.conj([v.eq(f[i], sum(spec_net(d, k) * kk * spec_cp(d, cd) for d, kk in zip(ds, ks))) for i, k in enumerate(subst)]))
        # dCdt_list weights ANY rate vector with the net stoichiometry (one entry per substance, in substance order)
        free = [v.real("rate%d" % i, lo=-9, hi=9) for i in range(len(ds))]
        g = v.call(dCdt_list, rsys, free)
        v.prove("dCdt_list_any_rate_vector", len(g) == len(subst) and SP.conj([v.eq(g[i], sum(spec_net(d, k) * rr for d, rr in zip(ds, free))) for i, k in enumerate(subst)]))
        # the same rates when the constants are wrapped as mass-action expressions, with and without extra variables; a variable that happens to
        # carry a substance key must not replace the concentration vector
        from chempy.kinetics.rates import MassAction
        rxns_ma = [type(r)(dict(r.reac), dict(r.prod), MassAction([kk]), dict(r.inact_reac) or None, dict(r.inact_prod) or None, checks=()) for r, kk in zip(rxns, ks)]
        rsys_ma = ReactionSystem(rxns_ma, [Substance(k) for k in subst], checks=())
        other = v.real("unrelated", lo=-9, hi=9)
        for label, var in (("empty_variables", {}), ("unrelated_variable", {"T": other}), ("variable_named_like_a_substance", {"A": other, "T": other})):
            rates_ma = list(v.call(law_of_mass_action_rates, conc, rsys_ma, var))
            v.prove("law_of_mass_action.MassAction_param." + label, len(rates_ma) == len(ds) and SP.conj([v.eq(r, kk * spec_cp(d, cd)) for r, kk, d in zip(rates_ma, ks, ds)]))
        ns = v.call(rsys.net_stoichs)
        v.prove("net_stoichs_matrix", ns.shape == (len(ds), len(subst)) and SP.conj([v.eq(ns[ri, si], spec_net(d, k)) for ri, d in enumerate(ds) for si, k in enumerate(subst)]))
        ar = v.call(rsys.active_reac_stoichs)
        v.prove("active_reac_stoichs_matrix", ar.shape == (len(ds), len(subst)) and SP.conj([v.eq(ar[ri, si], d[0].get(k, 0)) for ri, d in enumerate(ds) for si, k in enumerate(subst)]))
        # the other three matrices and a caller-chosen subset / order of keys (d = [active reac, active prod, inactive reac, inactive prod])
        for label, meth, entry in (("all_reac", rsys.all_reac_stoichs, lambda d, k: d[0].get(k, 0) + d[2].get(k, 0)), ("all_prod", rsys.all_prod_stoichs, lambda d, k: d[1].get(k, 0) + d[3].get(k, 0)),
                                   ("active_prod", rsys.active_prod_stoichs, lambda d, k: d[1].get(k, 0))):
            mtx = v.call(meth)
            v.prove(label + "_stoichs_matrix", mtx.shape == (len(ds), len(subst)) and SP.conj([v.eq(mtx[ri, si], entry(d, k)) for ri, d in enumerate(ds) for si, k in enumerate(subst)]))
        sub_keys = ["D", "A"]
        nsub = v.call(rsys.net_stoichs, sub_keys)
        v.prove("net_stoichs_for_given_keys", nsub.shape == (len(ds), 2) and SP.conj([v.eq(nsub[ri, si], spec_net(d, k)) for ri, d in enumerate(ds) for si, k in enumerate(sub_keys)]))
    return _


for _n, _l in _systems().items():
    _array_shape(_n, _l)


@harness("C03", "get_coeff_mtx", functions=["chempy.util.stoich:get_coeff_mtx"], kind="data")
def _(v):
    from chempy.util.stoich import get_coeff_mtx
    import itertools
    subst = ["A", "B", "C"]
    ok = True
    n = 0
    for ra, rb, pa, pc in itertools.product(range(3), repeat=4):
        reac = {k: c for k, c in (("A", ra), ("B", rb)) if c}
        prod = {k: c for k, c in (("A", pa), ("C", pc)) if c}
        m = get_coeff_mtx(subst, [(reac, prod), (prod, reac)])
        exp = [[prod.get(s, 0) - reac.get(s, 0), reac.get(s, 0) - prod.get(s, 0)] for s in subst]
        ok = ok and m.tolist() == exp and m.shape == (3, 2)
        n += 1
    v.prove("all_81_small_cases", ok and n == 81)
    # tie to the property: for reactions without inactive parts the coefficient matrix is the transposed net stoichiometry matrix of the system
    from chempy.chemistry import Reaction, Substance
    from chempy.reactionsystem import ReactionSystem
    rxns = [Reaction({"B": 2, "A": 1}, {"C": 3}, checks=()), Reaction({"C": 1, "A": 1}, {"A": 2, "D": 1}, checks=()), Reaction({}, {"B": 1}, checks=())]
    names = ["C", "A", "D", "B"]
    rs = ReactionSystem(rxns, [Substance(k) for k in names], checks=())
    m = get_coeff_mtx(names, [(r.reac, r.prod) for r in rxns])
    v.prove("is_the_transposed_net_stoichiometry", m.tolist() == [[int(x) for x in row] for row in rs.net_stoichs().T.tolist()] == [[3, -1, 0], [-1, 1, 0], [0, 1, 0], [-2, 0, 1]])


@harness("C03", "no_hidden_state_between_evaluations", functions=[CH + ":Reaction.rate", CH + ":Reaction.rate_expr", RS + ":ReactionSystem.rates"], kind="shape-bounded", samples=25)
def _(v):
    """a second evaluation with other concentrations / after re-assigning the public attribute `param` must use the
    current values (no memoised rate expression, no state carried between calls)"""
    from chempy.reactionsystem import ReactionSystem
    from chempy.chemistry import Substance
    subst = ["A", "B", "C", "D", "E"]
    c1 = {k: v.real("c1" + k, lo=0, hi=5) for k in subst}
    c2 = {k: v.real("c2" + k, lo=0, hi=5) for k in subst}
    k1, k2 = v.real("k_first", lo=0, hi=9), v.real("k_second", lo=0, hi=9)
    rxn, d = build_reaction(v, "r", shapes()["catalyst"], k1)
    r1 = v.call(rxn.rate, c1, substance_keys=subst)
    first = {k: r1[k] for k in subst}
    rxn.param = k2
    r2 = v.call(rxn.rate, c2, substance_keys=subst)
    v.prove("second_call_uses_current_param_and_concentrations", SP.conj([v.eq(r2[k], spec_net(d, k) * k2 * spec_cp(d, c2)) for k in subst]))
    v.prove("first_result_not_modified", SP.conj([v.eq(r1[k], first[k]) for k in subst] + [v.eq(first[k], spec_net(d, k) * k1 * spec_cp(d, c1)) for k in subst]))
    rsys = ReactionSystem([rxn], [Substance(k) for k in subst], checks=())
    s1 = v.call(rsys.rates, c1)
    rxn.param = k1
    s2 = v.call(rsys.rates, c2)
    v.prove("system_second_call", SP.conj([v.eq(s2[k], spec_net(d, k) * k1 * spec_cp(d, c2)) for k in subst]))
    v.prove("system_first_call", SP.conj([v.eq(s1[k], spec_net(d, k) * k2 * spec_cp(d, c1)) for k in subst]))


@harness("C03", "system_without_reactions", functions=[RS + ":ReactionSystem.rates", "chempy.kinetics.ode:dCdt_list"], kind="shape-bounded", samples=10)
def _(v):
    """'any number of reactions' includes none: the sum over no contributions is zero for every substance, and a stirred tank is a pure mixing tank"""
    from chempy.reactionsystem import ReactionSystem
    from chempy.chemistry import Substance
    from chempy.kinetics.ode import dCdt_list
    subst = ["B", "A"]
    rsys = ReactionSystem([], [Substance(k) for k in subst], checks=())
    conc = {k: v.real("c" + k, lo=-5, hi=5) for k in subst}
    r = v.call(rsys.rates, conc)
    v.prove("every_substance_has_rate_zero", set(r.keys()) == set(subst) and SP.conj([v.eq(r[k], 0) for k in subst]))
    F = v.real("F", lo=0, hi=3)
    feed = {k: v.real("feed" + k, lo=0, hi=5) for k in subst}
    r3 = v.call(rsys.rates, dict(conc, fr=F, **{"fc_" + k: feed[k] for k in subst}), cstr_fr_fc=("fr", {k: "fc_" + k for k in subst}))
    v.prove("pure_mixing_tank", SP.conj([v.eq(r3[k], F * (feed[k] - conc[k])) for k in subst]))
    v.prove("array_form", list(v.call(dCdt_list, rsys, [])) == [0, 0])
    # the stoichiometry matrix of no reactions still has one column per substance (dCdt_list never indexes it when there is no reaction)
    shp = lambda m: tuple(getattr(m, "shape", ()))
    v.prove("stoichiometry_matrices_have_no_rows_and_one_column_per_substance",
            all(shp(v.call(getattr(rsys, a))) == (0, 2) for a in ("net_stoichs", "all_reac_stoichs", "all_prod_stoichs", "active_reac_stoichs", "active_prod_stoichs"))
            and shp(v.call(rsys.net_stoichs, ["A"])) == (0, 1))


@harness("C03", "array_valued_concentrations", functions=[CH + ":Reaction.rate", RS + ":ReactionSystem.rates", "chempy.kinetics.rates:MassAction.active_conc_prod"], kind="data")
def _(v):
    """concentrations given as numpy arrays (a batch of states) or as quantities: every substance's rate is still the sum of ITS contributions
    (no result object shared between substances), the caller's variables are left as they were, and a second evaluation agrees"""
    import numpy as np
    from chempy.chemistry import Reaction, Substance
    from chempy.reactionsystem import ReactionSystem
    from contracts._purity import deep_equal
    rsys = ReactionSystem([Reaction({"A": 1}, {"B": 1, "C": 1}, 2.0), Reaction({"B": 1}, {"D": 1}, 3.0), Reaction({"A": 1, "B": 2}, {"C": 1}, 5.0, inact_reac={"D": 1})],
                          [Substance(k) for k in "ABCD"], checks=())
    mk = lambda: (({"A": np.array([1.0, 2.0, 3.0]), "B": np.array([2.0, 3.0, 5.0]), "C": np.array([0.5, 0.25, 4.0]), "D": np.array([1.0, 1.0, 2.0])},), {})
    r = _pure(v, "system", rsys.rates, mk)
    c = mk()[0][0]
    r0, r1, r2 = 2.0 * c["A"], 3.0 * c["B"], 5.0 * c["A"] * c["B"] ** 2
    want = {"A": -r0 - r2, "B": r0 - r1 - 2 * r2, "C": r0 + r2, "D": r1 - r2}
    v.prove("system.each_substance_is_the_sum_of_its_own_contributions", r is not None and all(np.allclose(r[k], want[k], rtol=1e-14, atol=0) for k in "ABCD"), detail=repr(r))
    rr, err = _attempt(lambda: ReactionSystem(rsys.rxns[::-1], [Substance(k) for k in "ABCD"], checks=()).rates(mk()[0][0]))
    v.prove("system.independent_of_reaction_order", err is None and all(np.allclose(rr[k], want[k], rtol=1e-14, atol=0) for k in "ABCD"), detail=err or repr(rr))
    _pure(v, "single_reaction", rsys.rxns[2].rate, mk)
    try:
        from chempy.units import default_units as u, to_unitless
        mq = lambda: (({"A": 1.0 * u.molar, "B": 2.0 * u.molar, "C": 0.5 * u.molar, "D": 1.0 * u.molar},), {})
        rq_sys = ReactionSystem([Reaction({"A": 1}, {"B": 1, "C": 1}, 2.0 / u.second), Reaction({"B": 1}, {"D": 1}, 3.0 / u.second)], [Substance(k) for k in "ABCD"], checks=())
        rq = _pure(v, "quantities", rq_sys.rates, mq, materialise=lambda d: {k: float(to_unitless(x, u.molar / u.second)) for k, x in d.items()})
        v.prove("quantities.values", rq is not None and deep_equal(rq, {"A": -2.0, "B": 2.0 - 6.0, "C": 2.0, "D": 6.0}), detail=repr(rq))
    except ImportError:
        return
    # quantities in different but compatible units: the SECOND factor of the concentration product (3000 mol/m3 = 3 M), two rate constants
    # in different time units (30/min = 0.5/s) summed for one substance, and a feed term with units. Hand values, in M/s.
    M_s = u.molar / u.second

    def in_M_per_s(name, thunk, want):
        try:
            got = {k: float(to_unitless(x, M_s)) for k, x in thunk().items()}
            v.prove(name, set(got) == set(want) and all(abs(got[k] - want[k]) <= 1e-12 * max(1.0, abs(want[k])) for k in want), detail="%r want %r" % (got, want))
        except Exception as e:
            v.prove(name, False, detail="%s: %s" % (type(e).__name__, e))
    in_M_per_s("quantities.second_factor_in_a_compatible_unit",
               lambda: Reaction({"A": 1, "B": 1}, {"C": 1}, 2.0 / u.molar / u.second).rate({"A": 2.0 * u.molar, "B": 3000.0 * u.mol / u.m3, "C": 0.0 * u.molar}),
               {"A": -12.0, "B": -12.0, "C": 12.0})            # 2 * 2 * 3
    two_k = ReactionSystem([Reaction({"A": 1}, {"B": 1}, 2.0 / u.second), Reaction({"B": 1}, {"A": 1}, 30.0 / u.minute)], [Substance(k) for k in "AB"], checks=())
    in_M_per_s("quantities.rate_constants_in_different_time_units", lambda: two_k.rates({"A": 1.0 * u.molar, "B": 2.0 * u.molar}), {"A": -2.0 + 1.0, "B": 2.0 - 1.0})
    in_M_per_s("quantities.feed_terms_with_units",
               lambda: two_k.rates({"A": 1.0 * u.molar, "B": 2.0 * u.molar, "fr": 0.5 / u.second, "fa": 3.0 * u.molar, "fb": 6000.0 * u.mol / u.m3}, cstr_fr_fc=("fr", {"A": "fa", "B": "fb"})),
               {"A": -1.0 + 0.5 * (3.0 - 1.0), "B": 1.0 + 0.5 * (6.0 - 2.0)})


@harness("C03", "fractional_coefficients_in_the_array_forms", functions=[RS + ":ReactionSystem._stoichs", RS + ":ReactionSystem.net_stoichs", RS + ":ReactionSystem.all_reac_stoichs", RS + ":ReactionSystem.all_prod_stoichs",
                                                                    RS + ":ReactionSystem.active_reac_stoichs", RS + ":ReactionSystem.active_prod_stoichs", "chempy.kinetics.ode:dCdt_list",
                                                                    "chempy.kinetics.ode:law_of_mass_action_rates"], kind="data")
def _(v):
    """non-integer coefficients (yields such as 'A -> 1/2 B + 3/2 C', given as Fraction or float) reach the matrix/array forms unchanged: the five
    stoichiometry matrices hold the coefficients as written, and dCdt_list(law_of_mass_action_rates) is (products - reactants) x k x prod c**nu,
    equal to what the dict path ReactionSystem.rates reports"""
    from fractions import Fraction as Fr
    from chempy.chemistry import Reaction, Substance
    from chempy.reactionsystem import ReactionSystem
    from chempy.kinetics.ode import dCdt_list, law_of_mass_action_rates
    for label, half, threehalves in (("fraction", Fr(1, 2), Fr(3, 2)), ("float", 0.5, 1.5)):
        rsys = ReactionSystem([Reaction({"A": 1}, {"B": half, "C": threehalves}, 3, checks=()), Reaction({"B": 2, "C": threehalves}, {"A": 1}, 2, inact_prod={"C": half}, checks=())],
                              [Substance(k) for k in "ABC"], checks=())
        mats, err = _attempt(lambda: {a: [list(row) for row in getattr(rsys, a)()] for a in ("net_stoichs", "all_reac_stoichs", "all_prod_stoichs", "active_reac_stoichs", "active_prod_stoichs")})
        want = {"net_stoichs": [[-1, half, threehalves], [1, -2, half - threehalves]], "all_reac_stoichs": [[1, 0, 0], [0, 2, threehalves]],
                "all_prod_stoichs": [[0, half, threehalves], [1, 0, half]], "active_reac_stoichs": [[1, 0, 0], [0, 2, threehalves]], "active_prod_stoichs": [[0, half, threehalves], [1, 0, 0]]}
        v.prove(label + ".matrices_hold_the_coefficients_as_written", err is None and mats == want, detail=err or repr({k: m for k, m in mats.items() if m != want[k]}))
        c = {"A": 7, "B": 4, "C": 9}
        conc = [c[k] for k in "ABC"]
        r1, r2 = 3 * 7, 2 * 4 ** 2 * 27            # 9**(3/2) = 27
        expect = [-r1 + r2, half * r1 - 2 * r2, threehalves * r1 + (half - threehalves) * r2]
        got, err = _attempt(lambda: list(dCdt_list(rsys, list(law_of_mass_action_rates(conc, rsys)))))
        v.prove(label + ".array_path", err is None and len(got) == 3 and all(abs(float(g) - float(e)) <= 1e-12 * abs(float(e)) for g, e in zip(got, expect)), detail=err or "%r want %r" % (got, expect))
        viadict, err = _attempt(lambda: rsys.rates(c))
        v.prove(label + ".dict_path_agrees", err is None and all(abs(float(viadict[k]) - float(e)) <= 1e-12 * abs(float(e)) for k, e in zip("ABC", expect)), detail=err or repr(viadict))


@harness("C03", "feed_and_restricted_keys_together", functions=[RS + ":ReactionSystem.rates"], kind="data")
def _(v):
    """the two optional arguments of ReactionSystem.rates together: rates asked for a subset of the substances while the feed map names more of
    them. Every entry that is returned must be the COMPLETE rate of that substance (all reaction contributions plus its feed term); a substance
    outside the requested subset is either absent (or the call refused), never present with only a part of its rate"""
    from chempy.chemistry import Reaction, Substance
    from chempy.reactionsystem import ReactionSystem
    rsys = ReactionSystem([Reaction({"A": 1}, {"B": 1, "C": 1}, 2), Reaction({"B": 1, "C": 2}, {"A": 1}, 3)], [Substance(k) for k in "ABC"], checks=())
    c = {"A": 5, "B": 7, "C": 11, "fr": 13, "fA": 17, "fB": 19, "fC": 23}
    r1, r2 = 2 * 5, 3 * 7 * 11 ** 2
    full = {"A": -r1 + r2 + 13 * (17 - 5), "B": r1 - r2 + 13 * (19 - 7), "C": r1 - 2 * r2 + 13 * (23 - 11)}

    def attempt(thunk):
        """(value, None) or (None, 'ExceptionType: message') - an exception of the code under test becomes a failed obligation, not a checker error"""
        try:
            return thunk(), None
        except Exception as e:
            return None, "%s: %s" % (type(e).__name__, e)
    got_all, err = attempt(lambda: rsys.rates(c, cstr_fr_fc=("fr", {"A": "fA", "B": "fB", "C": "fC"})))
    v.prove("all_substances", err is None and got_all == full, detail=err or repr(got_all))
    matching = lambda: rsys.rates(c, substance_keys=["A", "B"], cstr_fr_fc=("fr", {"A": "fA", "B": "fB"}))
    sub, err = attempt(matching)
    v.prove("subset_with_matching_feed", err is None and sub == {k: full[k] for k in "AB"}, detail=err or repr(sub))
    partial, err = attempt(lambda: rsys.rates(c, cstr_fr_fc=("fr", {"B": "fB"})))
    v.prove("feed_for_one_substance_only", err is None and partial == {"A": -r1 + r2, "B": full["B"], "C": r1 - 2 * r2}, detail=err or repr(partial))
    # feed map wider than the requested keys: the correct answer (complete rates only) or a refusal with ANY exception type (KeyError today; a
    # deliberate ValueError would be as good). That the refusal is caused by the extra entry 'C' and by nothing else (say a mistyped lookup of
    # 'fr') follows from the same call with the matching map succeeding on the same object and variables - before (above) and again afterwards.
    more, err = attempt(lambda: rsys.rates(c, substance_keys=["A", "B"], cstr_fr_fc=("fr", {"A": "fA", "B": "fB", "C": "fC"})))
    again, err2 = attempt(matching)
    matching_ok = err2 is None and again == {k: full[k] for k in "AB"}
    if err is None:
        ok, det = set(more) >= {"A", "B"} and all(k in full and more[k] == full[k] for k in more), repr(more)
    else:
        ok, det = True, "refused (%s)" % err
    v.prove("feed_map_wider_than_the_requested_keys", ok and matching_ok, detail=det + ("" if matching_ok else "; afterwards the matching feed map gave %s" % (err2 or repr(again))))


def _attempt(thunk):
    """(value, None) or (None, 'ExceptionType: message'): in a data harness an exception of the code under test is a failed obligation"""
    try:
        return thunk(), None
    except Exception as e:
        return None, "%s: %s" % (type(e).__name__, e)


def _pure(v, name, f, make_args, **kw):
    """contracts._purity.prove_pure (proves <name>.inputs_not_modified / .second_evaluation_gives_the_same_result / .same_result_on_fresh_inputs and
    returns the first result); an exception of the code under test is the failed obligation <name>.evaluates and the result None"""
    from contracts._purity import prove_pure
    try:
        return prove_pure(v, name, f, make_args, **kw)
    except Exception as e:
        v.prove(name + ".evaluates", False, detail="%s: %s" % (type(e).__name__, e))
        return None


@harness("C03", "substance_keys_differ_from_substance_names", functions=[RS + ":ReactionSystem.rates", RS + ":ReactionSystem._stoichs", RS + ":ReactionSystem.as_substance_index",
                                                                   "chempy.kinetics.ode:law_of_mass_action_rates", "chempy.kinetics.ode:dCdt_list"], kind="data")
def _(v):
    """reactions, variables and the concentration vector go by the KEYS of the system's substances, never by Substance.name: here every name
    differs from its key and the spectator's NAME equals another substance's KEY. 2 a -> b with k = 3 at a = 2: rate 3 * 2**2 = 12, so
    b: +12, a: -24, c: 0 (vector order b, a, c)"""
    from collections import OrderedDict
    from chempy.chemistry import Reaction, Substance
    from chempy.reactionsystem import ReactionSystem
    from chempy.kinetics.ode import dCdt_list, law_of_mass_action_rates
    rs, err = _attempt(lambda: ReactionSystem([Reaction({"a": 2}, {"b": 1}, 3.0)], OrderedDict([("b", Substance("Beta")), ("a", Substance("Alpha")), ("c", Substance("a"))]), checks=()))
    if err:
        v.prove("system_is_built", False, detail=err)
        return
    r, err = _attempt(lambda: rs.rates({"a": 2.0, "b": 1.0, "c": 7.0}))
    v.prove("dict_form", err is None and r == {"b": 12.0, "a": -24.0, "c": 0.0}, detail=err or repr(r))
    lr, err = _attempt(lambda: list(law_of_mass_action_rates([1.0, 2.0, 7.0], rs)))
    v.prove("law_of_mass_action_rates", err is None and lr == [12.0], detail=err or repr(lr))
    f, err = _attempt(lambda: list(dCdt_list(rs, [12.0])))
    v.prove("dCdt_list", err is None and f == [12.0, -24.0, 0.0], detail=err or repr(f))
    m, err = _attempt(lambda: [list(row) for row in rs.net_stoichs()])
    v.prove("net_stoichs", err is None and m == [[1, -2, 0]], detail=err or repr(m))


@harness("C03", "rate_expression_given_by_the_caller", functions=[CH + ":Reaction.rate", RS + ":ReactionSystem.rates", "chempy.kinetics.rates:MassAction.__call__", "chempy.kinetics.rates:MassAction.rate_coeff"], kind="data")
def _(v):
    """the arguments that replace or re-interpret the factor k*prod(c^nu): `ratex` / `ratexs` (a mass-action expression whose constant is a
    number or is named in the variables) and `backend` (sympy, with genuine sympy symbols: 'symbolic variables' of the quantifier).
    Hand values: 2 A -> B at A = 2 has prod = 4; B -> A at B = 1 has prod = 1."""
    from chempy.chemistry import Reaction, Substance
    from chempy.reactionsystem import ReactionSystem
    from chempy.kinetics.rates import MassAction
    rxn = Reaction({"A": 2}, {"B": 1}, 3.0)
    r, err = _attempt(lambda: rxn.rate({"A": 2.0, "B": 1.0, "kk": 7.0}, ratex=MassAction.fk("kk")))
    v.prove("ratex_with_a_named_constant", err is None and r == {"A": -2 * 7.0 * 4, "B": 7.0 * 4}, detail=err or repr(r))
    rsys = ReactionSystem([rxn, Reaction({"B": 1}, {"A": 1}, 2.0)], [Substance(k) for k in "ABC"], checks=())
    c = {"A": 2.0, "B": 1.0, "C": 0.0}
    r, err = _attempt(lambda: rsys.rates(c, ratexs=[MassAction([5.0]), None]))
    v.prove("ratexs_first_reaction_replaced", err is None and r == {"A": -2 * 5.0 * 4 + 2.0, "B": 5.0 * 4 - 2.0, "C": 0}, detail=err or repr(r))
    r, err = _attempt(lambda: rsys.rates(c, ratexs=[None, MassAction([5.0])]))
    v.prove("ratexs_second_reaction_replaced", err is None and r == {"A": -2 * 3.0 * 4 + 5.0, "B": 3.0 * 4 - 5.0, "C": 0}, detail=err or repr(r))
    r, err = _attempt(lambda: rsys.rates(dict(c, kk=7.0), ratexs=[None, MassAction.fk("kk")]))
    v.prove("ratexs_with_a_named_constant", err is None and r == {"A": -2 * 3.0 * 4 + 7.0, "B": 3.0 * 4 - 7.0, "C": 0}, detail=err or repr(r))
    try:
        import sympy
    except ImportError:
        return
    A, B, C, k, k1, F, fA = sympy.symbols("A B C k k1 F fA")
    zero = lambda d, want: set(d) == set(want) and all(sympy.expand(sympy.sympify(d[s]) - want[s]) == 0 for s in want)
    r, err = _attempt(lambda: Reaction({"A": 2, "B": 1}, {"C": 1}, k).rate({"A": A, "B": B}, backend=sympy))
    want = {"A": -2 * k * A ** 2 * B, "B": -k * A ** 2 * B, "C": k * A ** 2 * B}
    v.prove("sympy_backend.reaction", err is None and zero(r, want), detail=err or repr(r))
    ssys = ReactionSystem([Reaction({"A": 2, "B": 1}, {"C": 1}, k), Reaction({"C": 1}, {"A": 1, "B": 1}, k1, inact_reac={"B": 1})], [Substance(s) for s in "ABC"], checks=())
    q1, q2 = k * A ** 2 * B, k1 * C                      # the inactive B of the second reaction is not in its product
    want = {"A": -2 * q1 + q2, "B": -q1, "C": q1 - q2}   # B: -1 from reaction 1; +1 - 1 (inactive) = 0 from reaction 2
    r, err = _attempt(lambda: ssys.rates({"A": A, "B": B, "C": C}, backend=sympy))
    v.prove("sympy_backend.system", err is None and zero(r, want), detail=err or repr(r))
    r, err = _attempt(lambda: ssys.rates({"A": A, "B": B, "C": C, "F": F, "fA": fA}, backend=sympy, cstr_fr_fc=("F", {"A": "fA"})))
    v.prove("sympy_backend.system_with_feed", err is None and zero(r, dict(want, A=want["A"] + F * (fA - A))), detail=err or repr(r))


@harness("C03", "ways_of_writing_the_reaction", functions=[CH + ":Reaction.__init__", CH + ":Reaction._init_stoich", CH + ":Reaction.from_string", CH + ":Reaction.rate"], kind="data")
def _(v):
    """the property is about the reaction however it was written down: sides given as sets (every coefficient 1), as OrderedDicts in
    non-alphabetical order, or as text - where a repeated species ('A + A', '2 A + A') counts with its total coefficient
    ('repeated species' of the quantifier)"""
    from collections import OrderedDict
    from chempy.chemistry import Reaction
    r, err = _attempt(lambda: Reaction({"A", "B"}, {"C"}, 3.0).rate({"A": 2.0, "B": 5.0}))
    v.prove("sides_given_as_sets", err is None and r == {"A": -30.0, "B": -30.0, "C": 30.0}, detail=err or repr(r))                 # 3 * 2 * 5
    r, err = _attempt(lambda: Reaction(OrderedDict([("B", 1), ("A", 2)]), OrderedDict([("C", 1)]), 3.0).rate({"A": 2.0, "B": 5.0}))
    v.prove("sides_given_as_ordered_dicts", err is None and r == {"A": -120.0, "B": -60.0, "C": 60.0}, detail=err or repr(r))      # 3 * 5 * 2**2 = 60
    r, err = _attempt(lambda: Reaction.from_string("A + A -> B; 3").rate({"A": 2.0, "B": 0.0}))
    v.prove("text_A_plus_A_is_2A", err is None and r == {"A": -24.0, "B": 12.0}, detail=err or repr(r))                              # 3 * 2**2 = 12
    r, err = _attempt(lambda: Reaction.from_string("2 A + A -> B; 3").rate({"A": 2.0, "B": 0.0}))
    v.prove("text_2A_plus_A_is_3A", err is None and r == {"A": -72.0, "B": 24.0}, detail=err or repr(r))                             # 3 * 2**3 = 24
    r, err = _attempt(lambda: Reaction.from_string("A + B -> B + B + C; 3").rate({"A": 2.0, "B": 5.0, "C": 0.0}))
    v.prove("text_repeated_product_and_catalyst", err is None and r == {"A": -30.0, "B": 30.0, "C": 30.0}, detail=err or repr(r))   # B: 2 - 1 = +1
