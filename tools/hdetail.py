#!/usr/bin/env python3
"""debug helper: run one harness symbolically and print the detail of failed obligations. usage: hdetail.py PROP SUBSTRING [REPO]"""
import sys, importlib
sys.path.insert(0, '/verif')
repo = sys.argv[3] if len(sys.argv) > 3 else '/repo'
sys.path.insert(0, repo)
from pyvc import api, run
importlib.import_module('contracts.' + sys.argv[1])
for h in api.HARNESSES[sys.argv[1]]:
    if sys.argv[2] in h.ident:
        r = run.run_symbolic(h, repo)
        for ob in r.get('obligations', []):
            if ob['status'] != 'discharged':
                print(ob['name'], ob['status'], str(ob.get('detail'))[:600])
        print(r.get('error'), r.get('unsupported'))
