#!/bin/bash
# Every fix: commit of /repo, reverted on a scratch copy, must make the check of its property exit 1 (tools/mutest.py; nothing is changed in /repo).
cd "$(dirname "$0")/.."
PY=.venv/bin/python
[ -x $PY ] || ./vcheck --setup >/dev/null
fail=0
/venv/bin/python - <<'PY' > /tmp/_reverts.txt
import json
d=json.load(open('known_findings.json'))
for f in d['findings']:
    if f['status']=='fixed':
        print(f['commit'], f['property'], f['id'])
PY
while read commit prop id; do
  patch=mutants/reverts/revert_$commit.diff
  if [ ! -f $patch ]; then echo "$id $commit: no reverse patch"; fail=1; continue; fi
  out=$($PY tools/mutest.py $prop --patch $patch 2>&1)
  rc=$(echo "$out" | sed -n 's/^== .* exit=\([0-9]*\)$/\1/p' | head -1)
  first=$(echo "$out" | grep -o 'obligation=[^ ]*' | head -1)
  printf '%-8s %-8s %s exit=%s %s\n' "$id" "$commit" "$prop" "${rc:-?}" "$first"
  [ "$rc" = "1" ] || fail=1
done < /tmp/_reverts.txt
rm -f /tmp/_reverts.txt
exit $fail
