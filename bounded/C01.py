# -*- coding: utf-8 -*-
"""Bounded stand-ins for C01: formula text -> elemental composition and charge.

Real code under check : chempy.util.parsing.formula_to_composition, chempy.Substance.from_formula
Oracle                : bounded/_formulas.py -- the expected mapping is computed from the DERIVATION
                        TREE the text was rendered from (exact rationals); no text is parsed by the
                        oracle, and the element table is /verif/spec/iupac.py, not chempy's.

Stand-ins
  adjacency  exhaustive: every ordered pair of the 118 symbols written side by side (118^2), and
             every symbol x count {none,2,10,2.5} x wrapper {bare,( ),[ ],{ }, hydrate part '..2X',
             charge '+', charge '-2'}
  grammar    seeded derivations: nesting depth <= 3, <= 3 terms per group, <= 4 top-level terms,
             <= 3 parts joined by '..' or U+00B7 with leading counts 1..99, subscripts 1..999 or
             decimals, charges -12..+12, one greek prefix, radical dot, (s)(l)(g)(aq), prime/star
             marks.  Elements are drawn from a small per-formula pool so that the same element occurs
             repeatedly at different nesting levels (the summing paths).
  rejection  exhaustive over three finite classes of ill-formed text (must raise, any exception type):
             capitalised non-symbol tokens, unbalanced-bracket shapes, contradictory charge marks.
Tolerance: formulas without a decimal subscript are compared with ==; with decimals 1e-9 relative.
"""
import itertools
import string

from . import _formulas as F

_STATE = {}


def _api():
    if not _STATE:
        from chempy.util.parsing import formula_to_composition
        from chempy import Substance
        _STATE["f2c"] = formula_to_composition
        _STATE["Substance"] = Substance
        formula_to_composition("H2O")        # build the memoised pyparsing grammar before forking
    return _STATE


# ----------------------------------------------------------------------------------------------
def _check_tree(tree, via):
    """Run the real parser on render(tree); None if the result is the tree's composition."""
    api = _api()
    text = F.render(tree)
    exp = F.expected(tree)
    try:
        if via == "Substance.from_formula":
            s = api["Substance"].from_formula(text)
            obs = s.composition
            if s.name != text:
                return "Substance.from_formula(%r).name == %r" % (text, s.name)
        else:
            obs = api["f2c"](text)
    except Exception as e:  # valid input: an exception is a violation
        return "%s(%r) raised %s: %s; expected %s" % (via, text, type(e).__name__, str(e)[:120], F.comp_jsonable(exp))
    d = F.compare_comp(obs, exp, exact=not F.has_decimal(tree))
    if d:
        return "%s(%r) -> %r; %s (expected %s)" % (via, text, obs, d, F.comp_jsonable(exp))
    return None


def _check_reject(text, via):
    api = _api()
    try:
        if via == "Substance.from_formula":
            obs = api["Substance"].from_formula(text).composition
        else:
            obs = api["f2c"](text)
    except Exception:
        return None
    return "%s(%r) returned %r; expected an exception (ill-formed text)" % (via, text, obs)


def _simple_tree(terms, charge="", parts_extra=None):
    parts = [{"mult": "", "terms": terms}] + (parts_extra or [])
    return {"greek": None, "radical": False, "sep": "..", "parts": parts, "marks": "", "charge": charge, "suffix": ""}


# ----------------------------------------------------------------------------------------------
COUNTS = ("", "2", "10", "2.5")


def _adjacency_trees(i):
    """All adjacency cases whose first symbol is SYMBOLS[i]."""
    a = F.SYMBOLS[i]
    for b in F.SYMBOLS:
        yield _simple_tree([["e", a, ""], ["e", b, ""]])
    water = [["e", "H", "2"], ["e", "O", ""]]
    for c in COUNTS:
        yield _simple_tree([["e", a, c]])
        for br in F.OPEN:
            yield _simple_tree([["g", br, [["e", a, c]], "3"]])
        yield _simple_tree(water, parts_extra=[{"mult": "2", "terms": [["e", a, c]]}])
        yield _simple_tree([["e", a, c]], charge="+")
        yield _simple_tree([["e", a, c]], charge="-2")


def _w_adjacency(job):
    lo, hi = job
    n, keys, viol, samples = 0, [], [], []
    for i in range(lo, hi):
        for tree in _adjacency_trees(i):
            text = F.render(tree)
            terms = tree["parts"][0]["terms"]
            if len(tree["parts"]) == 1 and len(terms) == 2:
                # the written pair must also be what an independent longest-match tokeniser reads
                if F.tokenize_symbols(text) != [terms[0][1], terms[1][1]]:
                    raise AssertionError("stand-in bug: %r is not uniquely decodable" % text)
            d = _check_tree(tree, "formula_to_composition")
            n += 1
            keys.append(F.key_of(text))
            if d:
                viol.append({"inputs": {"tree": tree, "text": text, "via": "formula_to_composition"}, "detail": d})
            elif len(samples) < 1 and i == lo:
                samples.append({"text": text, "expected": F.comp_jsonable(F.expected(tree))})
    return {"n": n, "keys": keys, "violations": viol, "samples": samples}


def _w_grammar(job):
    seed, chunk, ncases = job
    rng = F.rng_for(seed, "C01.grammar", chunk)
    n, keys, viol, samples = 0, [], [], []
    for j in range(ncases):
        tree = F.gen_tree(rng, depth=3, decimals=(j % 3 != 0))
        via = "Substance.from_formula" if j % 8 == 7 else "formula_to_composition"
        text = F.render(tree)
        d = _check_tree(tree, via)
        n += 1
        keys.append(F.key_of(via[0] + text))
        if d:
            viol.append({"inputs": {"tree": tree, "text": text, "via": via}, "detail": d})
        elif len(samples) < 1 and chunk < 4:
            samples.append({"text": text, "expected": F.comp_jsonable(F.expected(tree))})
    return {"n": n, "keys": keys, "violations": viol, "samples": samples}


# ---------------------------------------------------------------------------------------------- rejection
def _bad_tokens():
    """Capitalised tokens [A-Z][a-z]* that are not one of the 118 symbols: every 1- and 2-letter one,
    and every 2-letter symbol followed by one more lower-case letter (maximal token is not a symbol)."""
    up, lo = string.ascii_uppercase, string.ascii_lowercase
    out = [u for u in up if u not in F.SYMSET]
    out += [u + l for u in up for l in lo if (u + l) not in F.SYMSET]
    out += [s + l for s in F.SYMBOLS if len(s) == 2 for l in lo]
    return out


def _token_contexts(t):
    return [t, t + "2", "H2" + t, t + "O", "(" + t + ")2", "H2O..2" + t, "Na" + t + "+", "[" + t + "O4]-2(aq)"]


def _bracket_cases():
    inner = ("H2O", "NH4", "Fe(CN)6", "Na2.5")
    tails = ("", "2", "+", "-2", "(aq)", "2+(s)")
    heads = ("", "Na", "alpha-", ".")
    kinds = "([{"
    out = []
    for o in kinds:
        c = F.CLOSE[o]
        shapes = []
        for x in inner:
            shapes += [o + x, x + c, x + o, c + x + o, o + x + c + c, o + o + x + c, o + x + c + "2" + c]
            for o2 in kinds:
                if o2 != o:
                    c2 = F.CLOSE[o2]
                    shapes += [o + x + c2, o + o2 + x + c + c2, o + x + o2 + c]
        for sh in shapes:
            for h in heads:
                for tl in tails:
                    out.append(h + sh + tl)
    return sorted(set(out))


def _charge_cases():
    bases = ("Fe", "SO4", "H2O", "[Fe(CN)6]", "Na2CO3..10H2O", "UO2.5")
    marks = ("+-", "-+", "++", "--", "+2-", "-2+", "+2-3", "-2+3", "+2+", "-2-", "+-2", "-+2", "+2+3", "-1-1",
             "+3-3", "-+", "+--", "-++")
    out = []
    for b in bases:
        for m in marks:
            for pre in ("", ".", "beta-"):
                for suf in ("", "(aq)", "(s)"):
                    out.append(pre + b + m + suf)
    return sorted(set(out))


def _reject_cases():
    cases = []
    for t in _bad_tokens():
        for s in _token_contexts(t):
            cases.append(("non-symbol token", s))
    cases += [("unbalanced brackets", s) for s in _bracket_cases()]
    cases += [("contradictory charge", s) for s in _charge_cases()]
    return cases


def _w_reject(job):
    k, nchunks = job
    cases = _reject_cases()[k::nchunks]
    n, keys, viol, samples = 0, [], [], []
    for idx, (cls, text) in enumerate(cases):
        via = "Substance.from_formula" if idx % 16 == 15 else "formula_to_composition"
        try:    # the independent reader must agree that the text is ill-formed
            F.ref_parse(text)
        except F.RefError:
            pass
        else:
            raise AssertionError("stand-in bug: %r (%s) is well-formed for the reference reader" % (text, cls))
        d = _check_reject(text, via)
        n += 1
        keys.append(F.key_of(via[0] + text))
        if d:
            viol.append({"inputs": {"reject": cls, "text": text, "via": via}, "detail": d})
        elif len(samples) < 1 and k < 3:
            samples.append({"class": cls, "text": text})
    return {"n": n, "keys": keys, "violations": viol, "samples": samples}


# ----------------------------------------------------------------------------------------------
def run(tier, seed):
    F.self_test(300, seed)      # generator / oracle / reference reader agree (no chempy involved)
    _api()
    procs = 16
    res_adj = F.pmap(_w_adjacency, [(i, min(i + 4, 118)) for i in range(0, 118, 4)], procs)
    nchunks, per = (64, 700) if tier == "quick" else (640, 3000)
    res_gen = F.pmap(_w_grammar, [(seed, c, per) for c in range(nchunks)], procs)
    res_rej = F.pmap(_w_reject, [(k, 32) for k in range(32)], procs)
    return {"standins": [
        F.merge(res_adj, "adjacency",
                "every ordered pair of the 118 reference symbols written side by side, and every symbol x count "
                "{none,2,10,2.5} x {bare, ( )3, [ ]3, { }3, hydrate part 'H2O..2X', charge +, charge -2}; real "
                "formula_to_composition vs the composition of the derivation (independent symbol table); "
                "integer cases compared exactly, decimal ones to 1e-9 relative",
                "118^2 pairs + 118*4*7 single-symbol cases", exhaustive=True),
        F.merge(res_gen, "grammar",
                "seeded derivation trees rendered to text; formula_to_composition (7/8) and "
                "Substance.from_formula(...).composition (1/8) vs the tree's composition: exact key set incl. key 0 "
                "iff a charge is written, values == (no decimal subscript) or 1e-9 relative; an exception is a "
                "violation; non-trivial = distinct text",
                "nesting depth <= 3, <= 3 terms per group, <= 4 top-level terms, <= 3 parts ('..' or U+00B7, leading "
                "count 1..99), subscripts 1..999 / decimals with <= 3 places, charge -12..+12, 24 greek prefixes, "
                "radical dot, 4 phase suffixes, 6 prime/star marks"),
        F.merge(res_rej, "rejection",
                "ill-formed texts that must raise (any exception): (i) all capitalised tokens [A-Z], [A-Z][a-z] that "
                "are not symbols and all two-letter symbols followed by a lower-case letter, each in 8 contexts; (ii) "
                "unbalanced / crossed / mismatched bracket shapes for the three bracket kinds around 4 inner formulas, "
                "4 heads, 6 tails; (iii) 18 contradictory charge-mark shapes on 6 bases, 3 prefixes, 3 suffixes",
                "finite classes enumerated completely", exhaustive=True),
    ]}


def replay(case):
    inp = case["inputs"]
    if "reject" in inp:
        d = _check_reject(inp["text"], inp["via"])
    else:
        d = _check_tree(inp["tree"], inp["via"])
    return (d is None), (d or "holds: %s(%r)" % (inp["via"], inp["text"]))
