"""C11  Arithmetic on equilibria keeps the constant consistent with the stoichiometry."""
from pyvc.api import harness
from pyvc import spec as SP
from pyvc.sym import Sym

META = {
    "explanation": "intdiv proved for all integers; integer scaling, negation, addition and subtraction of equilibria proved (net stoichiometry, positivity, netted form, side swap, constant = product of powers) for every coefficient and constant at fixed key layouts that include species on opposite sides and shared species; cancel and as_reactions likewise; the induction over operation histories is the Lean lemma history_invariant",
    "trusted_base": ["pow(K, n) axioms (5.3)", "Lean lemma history_invariant (lemmas/C11_history.lean): correspondence to the Python spec by inspection"],
    "not_decided": ["Equilibrium.eliminate: the common multiple comes from sympy.primefactors (bounded stand-in, exhaustive on [-60,60]^2)"],
    "assumptions": ["key layouts fixed per harness (shape-bounded)", "scaling by a non-zero integer (scaling by 0 lists zero coefficients: outside 'every listed coefficient positive')"],
}
CH = "chempy.chemistry"


@harness("C11", "intdiv", functions=["chempy._util:intdiv"], samples=60)
def _(v):
    from chempy._util import intdiv
    p = v.int("p", lo=-50, hi=50)
    q = v.int("q", lo=-9, hi=9)
    v.assume(q != 0)
    r = v.call(intdiv, p, q)
    # truncation toward zero: p = q*r + rem with |rem| < |q| and rem having the sign of p (or 0)
    rem = p - q * r
    v.prove("trunc", SP.conj([abs(rem) < abs(q), SP.implies(p >= 0, rem >= 0), SP.implies(p <= 0, rem <= 0)]))
    out = v.run(intdiv, p, 0)
    v.prove("zero_divisor_raises", out.raised(ZeroDivisionError))


@harness("C11", "ArithmeticDict.scalar", functions=["chempy.util.arithmeticdict:ArithmeticDict.__mul__", "chempy.util.arithmeticdict:ArithmeticDict.__rmul__",
                                                    "chempy.util.arithmeticdict:ArithmeticDict.__imul__", "chempy.util.arithmeticdict:_imul", "chempy.util.arithmeticdict:ArithmeticDict.copy"],
         kind="shape-bounded", samples=30)
def _(v):
    from chempy.util.arithmeticdict import ArithmeticDict
    import operator
    a, b, n = v.int("a", lo=-5, hi=5), v.int("b", lo=-5, hi=5), v.int("n", lo=-4, hi=4)
    d = ArithmeticDict(int, {"A": a, "B": b})
    r = v.call(d.__rmul__, n)
    v.prove("rmul", SP.conj([set(r.keys()) == {"A", "B"}, r["A"] == n * a, r["B"] == n * b]))
    r2 = v.call(d.__mul__, n)
    v.prove("mul", SP.conj([set(r2.keys()) == {"A", "B"}, r2["A"] == n * a, r2["B"] == n * b]))
    v.prove("operand_unchanged", SP.conj([d["A"] == a, d["B"] == b, r is not d]))
    c = v.call(d.copy)
    v.prove("copy", SP.conj([c is not d, c["A"] == a, c["B"] == b, type(c) is ArithmeticDict]))


LAY = {
    "opposite": ((["A", "B"], ["C"]), (["C", "D"], ["A"])),        # C and A appear on opposite sides
    "same_side": ((["A"], ["B", "C"]), (["A", "D"], ["C"])),
    "disjoint": ((["A"], ["B"]), (["C"], ["D"])),
}


def mk_eq(v, tag, lay):
    from chempy.chemistry import Equilibrium
    reac = {k: v.int("%s_r_%s" % (tag, k), lo=1, hi=4) for k in lay[0]}
    prod = {k: v.int("%s_p_%s" % (tag, k), lo=1, hi=4) for k in lay[1]}
    K = v.real("K_" + tag, lo=0.01, hi=50)
    return Equilibrium(dict(reac), dict(prod), K, checks=()), reac, prod, K


def netof(reac, prod, k):
    return prod.get(k, 0) - reac.get(k, 0)


def _pow(K, n):
    return SP.spow(K, n)


def _scale(name, lay):
    @harness("C11", "scale." + name, functions=[CH + ":Equilibrium.__rmul__", CH + ":Equilibrium.__mul__", CH + ":Equilibrium.__neg__"], kind="shape-bounded", div_mode="assume", samples=30)
    def _(v):
        e, reac, prod, K = mk_eq(v, "e", lay)
        n = v.int("n", lo=-4, hi=4)
        v.assume(n != 0)
        keys = sorted(set(reac) | set(prod))
        for label, r in (("rmul", v.call(e.__rmul__, n)), ("mul", v.call(e.__mul__, n))):
            v.prove(label + ".net", SP.conj([netof(r.reac, r.prod, k) == n * netof(reac, prod, k) for k in keys]))
            v.prove(label + ".positive", SP.conj([c > 0 for c in list(r.reac.values()) + list(r.prod.values())]))
            an = SP.ite(n < 0, -n, n)
            if v.symbolic:
                pos = n > 0
                v.prove(label + ".sides", SP.ite(pos, True, False) == pos)
            v.prove(label + ".coefficients", SP.conj([SP.ite(n > 0, r.reac.get(k, 0), r.prod.get(k, 0)) == an * c for k, c in reac.items()] +
                                                     [SP.ite(n > 0, r.prod.get(k, 0), r.reac.get(k, 0)) == an * c for k, c in prod.items()]))
            v.prove(label + ".constant", v.eq(r.param, _pow(K, n)))
            v.prove(label + ".no_inactive", not r.inact_reac and not r.inact_prod)
        m = v.call(e.__neg__)
        v.prove("neg.swaps", SP.conj([m.reac.get(k, 0) == c for k, c in prod.items()] + [m.prod.get(k, 0) == c for k, c in reac.items()] +
                                     [set(m.reac) == set(prod), set(m.prod) == set(reac)]))
        v.prove("neg.constant", v.eq(m.param, _pow(K, -1)))
    return _


for _n, _l in LAY.items():
    _scale(_n, _l[0])


def _add(name, l1, l2):
    @harness("C11", "add." + name, functions=[CH + ":Equilibrium.__add__", CH + ":Equilibrium.__sub__"], kind="shape-bounded", div_mode="assume", samples=40)
    def _(v):
        e1, r1, p1, K1 = mk_eq(v, "e1", l1)
        e2, r2, p2, K2 = mk_eq(v, "e2", l2)
        keys = sorted(set(r1) | set(p1) | set(r2) | set(p2))
        s = v.call(e1.__add__, e2)
        nets = {k: netof(r1, p1, k) + netof(r2, p2, k) for k in keys}
        v.prove("net", SP.conj([netof(s.reac, s.prod, k) == nets[k] for k in keys]))
        v.prove("netted_no_species_on_both_sides", not (set(s.reac) & set(s.prod)))
        v.prove("positive_and_cancelled_removed", SP.conj([c > 0 for c in list(s.reac.values()) + list(s.prod.values())]))
        v.prove("only_given_species", set(s.reac) | set(s.prod) <= set(keys))
        v.prove("present_iff_nonzero", SP.conj([SP.iff((k in s.reac) or (k in s.prod), SP.neg(nets[k] == 0)) for k in keys]))
        v.prove("constant_is_product", v.eq(s.param, K1 * K2))
        d = v.call(e1.__sub__, e2)
        netd = {k: netof(r1, p1, k) - netof(r2, p2, k) for k in keys}
        v.prove("sub.net", SP.conj([netof(d.reac, d.prod, k) == netd[k] for k in keys]))
        v.prove("sub.netted", not (set(d.reac) & set(d.prod)))
        v.prove("sub.positive", SP.conj([c > 0 for c in list(d.reac.values()) + list(d.prod.values())]))
        v.prove_identity("sub.constant_is_quotient", d.param * K2, K1 + 0 * K2) if v.symbolic else v.prove("sub.constant_is_quotient", v.eq(d.param, K1 / K2, rel=1e-9))
    return _


for _n, _l in LAY.items():
    _add(_n, _l[0], _l[1])


@harness("C11", "add.none_params", functions=[CH + ":Equilibrium.__add__"], kind="data")
def _(v):
    from chempy.chemistry import Equilibrium
    s = Equilibrium({"A": 1}, {"B": 1}) + Equilibrium({"B": 1}, {"C": 2})
    v.prove("param_none", s.param is None and s.reac == {"A": 1} and s.prod == {"C": 2})


def _cancel(name, l1, l2):
    @harness("C11", "cancel." + name, functions=[CH + ":Equilibrium.cancel", "chempy._util:intdiv"], kind="shape-bounded", samples=40)
    def _(v):
        from chempy._util import intdiv
        e1, r1, p1, K1 = mk_eq(v, "e1", l1)
        e2, r2, p2, K2 = mk_eq(v, "e2", l2)
        keys2 = sorted(set(r2) | set(p2))
        n2 = {k: netof(r2, p2, k) for k in keys2}
        n1 = {k: netof(r1, p1, k) for k in keys2}
        v.assume(SP.conj([SP.neg(n2[k] == 0) for k in keys2]))
        c = v.call(e1.cancel, e2)
        qs = [v.call(intdiv, -n1[k], n2[k]) for k in keys2]
        absv = lambda x: SP.ite(x >= 0, x, -x)
        v.prove("is_one_of_the_quotients", SP.disj([c == q for q in qs]))
        v.prove("minimal_magnitude", SP.conj([absv(c) <= absv(q) for q in qs]))
    return _


for _n, _l in LAY.items():
    _cancel(_n, _l[0], _l[1])


@harness("C11", "as_reactions", functions=[CH + ":Equilibrium.as_reactions"], kind="shape-bounded", div_mode="assume", samples=30)
def _(v):
    from chempy.chemistry import Equilibrium, Reaction
    K, kf, kb = v.real("K", lo=0.01, hi=50), v.real("kf", lo=0.01, hi=50), v.real("kb", lo=0.01, hi=50)
    e = Equilibrium({"A": 2, "B": 1}, {"C": 1}, K, inact_reac={"X": 1}, inact_prod={"Y": 2}, checks=())
    fw, bw = v.call(e.as_reactions, kf=kf)
    v.prove_identity("kb_from_kf", bw.param * K, kf + 0 * K) if v.symbolic else v.prove("kb_from_kf", v.eq(bw.param, kf / K))
    v.prove("forward_param", v.eq(fw.param, kf))
    v.prove("sides", fw.reac == e.reac and fw.prod == e.prod and bw.reac == e.prod and bw.prod == e.reac)
    v.prove("inactive_swapped", fw.inact_reac == e.inact_reac and fw.inact_prod == e.inact_prod and bw.inact_reac == e.inact_prod and bw.inact_prod == e.inact_reac)
    v.prove("types", type(fw) is Reaction and type(bw) is Reaction)
    fw2, bw2 = v.call(e.as_reactions, kb=kb)
    v.prove("kf_from_kb", v.eq(fw2.param, kb * K))
    v.prove("backward_param", v.eq(bw2.param, kb))
    out = v.run(e.as_reactions, kf=kf, kb=kb)
    v.prove("both_given_raises", out.raised(ValueError))
    out = v.run(e.as_reactions)
    v.prove("none_given_raises", out.raised(ValueError))
