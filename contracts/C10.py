"""C10  Kinetic results do not depend on the units rate constants or registries use."""
from pyvc.api import harness
from pyvc import spec as SP
from pyvc.sym import Sym

META = {
    "explanation": "under the unit abstraction 5.1: Reaction.check_consistent_units accepts a unit-carrying constant iff its dimension is concentration^(1-order)/time for orders 0..3 and any time/concentration units (generic scales), and rejects each one-off dimension; Equilibrium.check_consistent_units never accepts a constant of another dimension than concentration^(products-reactants); the args_dimensionality of MassAction/Arrhenius/Eyring/EyringHS/Radiolytic/RampedTemp/SinTemp equal the dimension algebra of their formulas for EVERY reaction order (symbolic order); Expr.dedimensionalisation returns per argument the registry unit and the magnitude with phys(arg) = magnitude * phys(unit), recursively for nested expressions, defaults converted likewise; hence the dedimensionalised mass-action rate times the registry's rate unit equals the physical rate for any registry (orders 0-3)",
    "trusted_base": ["assumed contract 5.1 (pyvc/qmodel.py)", "contracts assumed at call sites for default_unit_in_registry / unitless_in_registry (they walk quantities internals; bounded stand-in): unit = product of registry units to the argument's SI exponents"],
    "not_decided": ["get_odesys's to_arrays/post-processing callbacks end to end and the alternative builder's validation (pyodesys in the loop): bounded metamorphic stand-in over three registries"],
    "assumptions": [],
}
CH = "chempy.chemistry"
DIMS = ("length", "mass", "time", "current", "temperature", "luminous_intensity", "amount")
CONC = (-3, 0, 0, 0, 0, 0, 1)
TIME = (0, 0, 1, 0, 0, 0, 0)


def _env(v):
    from pyvc.qmodel import Units, std_table
    t = std_table()
    u = Units(t)
    v.override_global("chempy.chemistry", "default_units", u)
    return t, u


def _reac(order):
    return {0: {}, 1: {"A": 1}, 2: {"A": 1, "B": 1}, 3: {"A": 2, "B": 1}}[order]


def _rate_dim(order, off=None):
    d = [CONC[i] * (1 - order) - TIME[i] for i in range(7)]
    if off is not None:
        d[off[0]] += off[1]
    return tuple(d)


def _rcu(order):
    @harness("C10", "Reaction.check_consistent_units.order%d" % order, functions=[CH + ":Reaction.check_consistent_units", "chempy.units:is_quantity", "chempy.units:to_unitless"],
             kind="shape-bounded", div_mode="assume", samples=0)
    def _(v):
        from chempy.chemistry import Reaction
        t, u = _env(v)
        m = v.real("k", lo=1e-9, hi=1e9)
        off = v.choice("off", [None, (0, 1), (0, -3), (2, 1), (2, -1), (6, 1), (6, -1), (1, 1), (4, 1), (3, -1)])
        ku = t.generic("ku", _rate_dim(order, off))       # a unit of (possibly wrong) dimension and arbitrary scale
        rxn = Reaction(_reac(order), {"P": 1}, m * ku, checks=())
        ok = v.call(rxn.check_consistent_units)
        v.prove("accepted_iff_dimension_is_conc_pow_1_minus_order_per_time", ok is (off is None))
        out = v.run(rxn.check_consistent_units, throw=True)
        v.prove("throw_mode", out.returned if off is None else out.raised(Exception))
        plain = Reaction(_reac(order), {"P": 1}, m, checks=())
        v.prove("plain_numbers_are_not_checked", v.call(plain.check_consistent_units) is True)
    return _


for _o in (0, 1, 2, 3):
    _rcu(_o)


@harness("C10", "Reaction.constructor_runs_unit_check", functions=[CH + ":Reaction.__init__"], kind="data")
def _(v):
    from chempy.chemistry import Reaction
    from chempy.units import default_units as u, UncertainQuantity
    v.prove("default_checks_include_units", "consistent_units" in Reaction.default_checks)
    cases = [(1 / u.s, True), (1 / u.minute, True), (1 / u.molar / u.s, False), (u.molar / u.s, False), (1 / u.m, False)]
    res = []
    for unit, expect in cases:
        try:
            Reaction({"A": 1}, {"B": 1}, 3.0 * unit); got = True
        except Exception:
            got = False
        res.append(got == expect)
    v.prove("first_order_examples_with_real_quantities", all(res), str(res))
    try:
        Reaction({"A": 1, "B": 1}, {"C": 1}, UncertainQuantity(3, 1 / u.s, 0.1)); got = True
    except Exception:
        got = False
    v.prove("uncertain_quantity_is_checked_too", got is False)


def _ecu(nreac, nprod):
    @harness("C10", "Equilibrium.check_consistent_units.r%dp%d" % (nreac, nprod), functions=[CH + ":Equilibrium.check_consistent_units", "chempy.units:unit_of"], kind="shape-bounded", div_mode="assume", samples=0)
    def _(v):
        from chempy.chemistry import Equilibrium
        from pyvc.qmodel import dim_of
        t, u = _env(v)
        m = v.real("K", lo=1e-9, hi=1e9)
        expo = nprod - nreac
        off = v.choice("off", [None, (0, 3), (6, 1), (2, 1), (6, -1)])
        d = [CONC[i] * expo for i in range(7)]
        if off:
            d[off[0]] += off[1]
        ku = t.generic("ku", tuple(d))
        eq = Equilibrium({"A": nreac}, {"B": nprod}, m * ku, checks=())
        ok = v.call(eq.check_consistent_units)
        if off is not None:
            v.prove("wrong_dimension_never_accepted", ok is False or ok == False)   # noqa
            v.prove("wrong_dimension_throws", v.run(eq.check_consistent_units, throw=True).raised(ValueError))
        else:
            # right dimension: accepted exactly when the scale is that of molar**expo (stricter than the property; documented)
            v.prove("right_dimension_accepted_iff_molar_scale", SP.iff(ok, t.scale["ku"] == 1000 ** expo if expo >= 0 else t.scale["ku"] * 1000 ** (-expo) == 1))
        molar = Equilibrium({"A": nreac}, {"B": nprod}, m * (u.molar ** expo if expo else 1), checks=())
        v.prove("molar_units_accepted", bool(v.call(molar.check_consistent_units)) is True)
    return _


for _r, _p in ((1, 1), (1, 2), (2, 1), (1, 3)):
    _ecu(_r, _p)


@harness("C10", "Equilibrium.check_consistent_units.inactive_species_do_not_count", functions=[CH + ":Equilibrium.check_consistent_units"], kind="shape-bounded", div_mode="assume", samples=0)
def _(v):
    """the constant of  A + (S) = B + C  has the dimension of the ACTIVE stoichiometry: concentration^(2-1)"""
    from chempy.chemistry import Equilibrium
    t, u = _env(v)
    m = v.real("K", lo=1e-9, hi=1e9)
    for tag, ir, ip, expo in (("solvent_reactant", {"S": 1}, None, 1), ("solid_product", None, {"P(s)": 1}, 1), ("both", {"S": 2}, {"X": 1}, 1)):
        good = Equilibrium({"A": 1}, {"B": 1, "C": 1}, m * u.molar ** expo, inact_reac=ir, inact_prod=ip, checks=())
        v.prove(tag + ".active_dimension_accepted", bool(v.call(good.check_consistent_units)) is True)
        net_expo = expo + (sum(ip.values()) if ip else 0) - (sum(ir.values()) if ir else 0)
        if net_expo != expo:
            bad = Equilibrium({"A": 1}, {"B": 1, "C": 1}, m * u.molar ** net_expo, inact_reac=ir, inact_prod=ip, checks=())
            v.prove(tag + ".dimension_counting_inactive_species_rejected", bool(v.call(bad.check_consistent_units)) is False)


@harness("C10", "args_dimensionality", functions=["chempy.kinetics.rates:MassAction.args_dimensionality", "chempy.kinetics.rates:Arrhenius.args_dimensionality", "chempy.kinetics.rates:Eyring.args_dimensionality",
                                                   "chempy.kinetics.rates:EyringHS.args_dimensionality", "chempy.kinetics.rates:RampedTemp.args_dimensionality", "chempy.kinetics.rates:SinTemp.args_dimensionality"],
         samples=20)
def _(v):
    """for EVERY reaction order (symbolic): dimension of k is time^-1 amount^(1-order) length^(3(order-1))"""
    from chempy.kinetics import rates as R
    from chempy.chemistry import Reaction
    from pyvc.objs import make_obj
    n = v.int("order", lo=0, hi=50)
    rxn = make_obj(Reaction, reac={"A": n}, prod={"P": 1}, inact_reac={}, inact_prod={}, param=None)
    kdim = {"time": -1, "amount": 1 - n, "length": 3 * (n - 1)}

    def same(d, exp):
        return SP.conj([set(d) == set(exp)] + [d[k] == exp[k] for k in exp])
    (d,) = v.call(R.MassAction([1.0]).args_dimensionality, rxn)
    v.prove("MassAction", same(d, kdim))
    dA, dE = v.call(R.Arrhenius([1.0, 1.0]).args_dimensionality, rxn)
    v.prove("Arrhenius", SP.conj([same(dA, kdim), dE == {"temperature": 1}]))
    BASE = ("length", "mass", "time", "current", "temperature", "luminous_intensity", "amount")

    def lin(*terms):
        # dimension of a product of powers: sum of factor * exponent-vector
        return {b: sum(f * d.get(b, 0) for f, d in terms) for b in BASE}

    def dim_eq(a, b):
        return SP.conj([a.get(k, 0) == b.get(k, 0) for k in BASE])
    Tdim = {"temperature": 1}
    # Eyring: k = arg0 * T * exp(-arg1 / T) * conc0**(1 - order)  (the formula in Eyring.__call__, proved in C16): the dimensions declared for the
    # arguments must make the exponent dimensionless and k a rate constant of this order -- taken from the formula, not from the declaration
    d0, d1, d2 = v.call(R.Eyring([1.0, 1.0]).args_dimensionality, rxn)
    v.prove("Eyring.exponent_dimensionless", dim_eq(lin((1, d1), (-1, Tdim)), {}))
    v.prove("Eyring.standard_state_is_a_concentration", dict(d2) == {"amount": 1, "length": -3})
    v.prove("Eyring.formula_has_the_dimension_of_a_rate_constant_of_this_order", dim_eq(lin((1, d0), (1, Tdim), (1 - n, d2)), kdim))
    h0, h1, h2 = v.call(R.EyringHS([1.0, 1.0]).args_dimensionality)
    energy = {"mass": 1, "length": 2, "time": -2}
    v.prove("EyringHS", dict(h0) == dict(energy, amount=-1) and dict(h1) == dict(energy, amount=-1, temperature=-1) and dict(h2) == {"amount": 1, "length": -3})
    # EyringHS: k = kB/h * T * exp(-(dH - T*dS)/(R*T)) * c0**(1 - order);  kB/h*T is 1/time, R = energy/(amount*temperature)
    Rdim = dict(energy, amount=-1, temperature=-1)
    v.prove("EyringHS.exponent_dimensionless", SP.conj([dim_eq(lin((1, h0), (-1, Rdim), (-1, Tdim)), {}), dim_eq(lin((1, h1), (-1, Rdim)), {})]))
    v.prove("EyringHS.formula_has_the_dimension_of_a_rate_constant_of_this_order", dim_eq(lin((1, {"time": -1}), (1 - n, h2)), kdim))
    # Arrhenius: k = A * exp(-Ea_over_R / T)
    v.prove("Arrhenius.exponent_dimensionless", dim_eq(lin((1, dE), (-1, Tdim)), {}))
    v.prove("RampedTemp", v.call(R.RampedTemp([1.0, 1.0]).args_dimensionality) == ({"temperature": 1}, {"temperature": 1, "time": -1}))
    v.prove("SinTemp", v.call(R.SinTemp([1.0, 1.0, 1.0, 1.0]).args_dimensionality) == ({"temperature": 1}, {"temperature": 1}, {"time": -1}, {}))


@harness("C10", "Radiolytic.args_dimensionality", functions=["chempy.kinetics.rates:mk_Radiolytic.<locals>._Radiolytic.args_dimensionality"], kind="data")
def _(v):
    from chempy.kinetics.rates import Radiolytic, mk_Radiolytic
    d = Radiolytic([1.0]).args_dimensionality(None)
    v.prove("amount_per_energy", len(d) == 1 and {k: x for k, x in d[0].items() if x} == {"amount": 1, "mass": -1, "length": -2, "time": 2})
    d2 = mk_Radiolytic("a", "b")([1.0, 2.0]).args_dimensionality(None)
    v.prove("one_per_doserate", len(d2) == 2 and d2[0] == d2[1])


def _registry(v, t):
    reg = {}
    for i, name in enumerate(DIMS):
        reg[name] = t.generic("r_" + name, tuple(1 if j == i else 0 for j in range(7)))
    return reg


def _unit_in_registry(t, reg, q):
    from pyvc.qmodel import dim_of
    d = dim_of(q)
    out = 1
    for name, e in zip(DIMS, d):
        if e:
            out = out * reg[name] ** e
    return out


def _dedim(order):
    @harness("C10", "dedimensionalisation.order%d" % order, functions=["chempy.util._expr:Expr.dedimensionalisation"], kind="shape-bounded", div_mode="assume", samples=0)
    def _(v):
        from chempy.kinetics.rates import MassAction, Arrhenius
        from chempy import units as CU
        from pyvc.qmodel import si_value, dim_of, std_table, Quantity
        t = std_table()
        reg = _registry(v, t)
        v.contract(CU.default_unit_in_registry, "default_unit_in_registry", None, lambda v_, value, registry: _unit_in_registry(t, registry, value) if isinstance(value, Quantity) else 1)
        v.contract(CU.unitless_in_registry, "unitless_in_registry", None,
                   lambda v_, value, registry: v_.interp.call(CU.to_unitless, (value, _unit_in_registry(t, registry, value))) if isinstance(value, Quantity) else value)
        A, EaR = v.real("A", lo=1e-9, hi=1e9), v.real("Ea_over_R", lo=0, hi=1e4)
        ku = t.generic("ku", _rate_dim(order))
        Tu = t.generic("Tu", (0, 0, 0, 0, 1, 0, 0))
        # nested expression: MassAction(Arrhenius([A, Ea/R])) with arguments in arbitrary compatible units
        ma = MassAction([Arrhenius([A * ku, EaR * Tu])])
        units, inst = v.call(ma.dedimensionalisation, reg)
        (inner_units,) = units
        arr = inst.args[0]
        v.prove("structure_kept", type(inst) is MassAction and type(arr) is Arrhenius and len(arr.args) == 2 and len(inner_units) == 2)
        v.prove("units_have_argument_dimensions", dim_of(inner_units[0]) == _rate_dim(order) and dim_of(inner_units[1]) == (0, 0, 0, 0, 1, 0, 0))
        v.prove_identity("rate_constant_physical_value_preserved", arr.args[0] * si_value(inner_units[0]), si_value(A * ku))
        v.prove_identity("activation_temperature_physical_value_preserved", arr.args[1] * si_value(inner_units[1]), si_value(EaR * Tu))
        # units are built from the registry only: same registry unit for the same dimension
        cu = t.generic("cu", CONC)
        plain = MassAction([A * ku], unique_keys=("kk",))
        u2, i2 = v.call(plain.dedimensionalisation, reg)
        v.prove("unique_keys_kept", i2.unique_keys == ("kk",))
        v.prove_identity("flat_argument", i2.args[0] * si_value(u2[0]), si_value(A * ku))
        # registry independence of the mass-action rate (orders 0..3): dedim rate * registry rate unit == physical rate
        concs = {k: v.real("c" + k, lo=0, hi=10) for k in ("A", "B")}
        from chempy.chemistry import Reaction
        rxn = Reaction(_reac(order), {"P": 1}, None, checks=())
        conc_unit = reg["amount"] / reg["length"] ** 3
        rate_unit = conc_unit / reg["time"]
        dd = {k: v.interp.call(CU.to_unitless, (c * cu, conc_unit)) for k, c in concs.items()}
        r_reg = v.call(i2, dd, reaction=rxn)
        phys = si_value(A * ku)
        for k, nu in _reac(order).items():
            phys = phys * si_value(concs[k] * cu) ** nu
        v.prove_identity("rate_independent_of_registry", r_reg * si_value(rate_unit), phys)
    return _


for _o in (0, 1, 2, 3):
    _dedim(_o)


@harness("C10", "unit_aware_system_on_the_real_package", functions=["chempy.kinetics.ode:get_odesys", "chempy.kinetics.ode:get_odesys.<locals>._reg_unique", "chempy.util._expr:Expr.dedimensionalisation",
                                                                  "chempy.units:default_unit_in_registry", "chempy.units:unitless_in_registry"], kind="data")
def _(v):
    """end to end with real quantities: free named constants that also carry a (non registry-coherent) value, three reaction orders, three
    registries -- the reported parameter units are the registry's units for the dimension of each constant, and the physical rate from
    to_arrays + f_cb equals the rate computed by hand in M and s; a registry dict edited in place is read as it is at the time of the call"""
    import warnings
    import numpy as np
    from chempy.chemistry import Reaction
    from chempy.reactionsystem import ReactionSystem
    from chempy.kinetics.ode import get_odesys
    from chempy.kinetics.rates import MassAction
    from chempy.units import SI_base_registry, default_units as u, get_derived_unit, to_unitless
    warnings.simplefilter("ignore")
    k1, k2, k3 = 3.0 / u.mM / u.minute, 0.5 / u.hour, 7.0 * u.uM / u.s
    rsys = ReactionSystem([Reaction({"A": 2}, {"B": 1}, MassAction([k1], unique_keys=["k1"])), Reaction({"B": 1}, {"A": 2}, MassAction([k2], unique_keys=["k2"])),
                           Reaction({}, {"C": 1}, MassAction([k3], unique_keys=["k3"]), checks=())], "A B C")
    c0 = {"A": 2 * u.mM, "B": 1 * u.uM, "C": 0 * u.M}
    _k1, _k2, _k3, _A, _B = 3e3 / 60, 0.5 / 3600, 7e-6, 2e-3, 1e-6
    ref = [-2 * _k1 * _A ** 2 + 2 * _k2 * _B, _k1 * _A ** 2 - _k2 * _B, _k3]
    regs = {"SI": dict(SI_base_registry), "dm_min_umol": dict(SI_base_registry, length=u.decimetre, time=u.minute, amount=u.micromole), "cm_h": dict(SI_base_registry, length=u.centimetre, time=u.hour),
            "scaled_base_units": dict(SI_base_registry, length=0.1 * u.metre, time=60 * u.second)}
    bad = []
    for name, reg in regs.items():
        try:
            odesys, extra = get_odesys(rsys, include_params=False, unit_registry=reg)
            conc, tm = get_derived_unit(reg, "concentration"), reg["time"]
            want_units = [1 / conc / tm, 1 / tm, conc / tm]
            pu = dict(zip(odesys.param_names, extra["p_units"]))
            for key, wu in zip(("k1", "k2", "k3"), want_units):
                if abs(float(to_unitless(1 * pu[key], wu)) - 1) > 1e-12:
                    bad.append((name, key, str(pu[key])))
            x, y, p = odesys.to_arrays(0 * u.s, c0, {"k1": k1, "k2": k2, "k3": k3})
            f = np.asarray(odesys.f_cb(np.ravel(x)[0], np.ravel(y), np.ravel(p)), dtype=float).ravel()
            phys = [float(to_unitless(fi * conc / tm, u.molar / u.s)) for fi in f]
            if not np.allclose(phys, ref, rtol=1e-10, atol=0):
                bad.append((name, "rate", phys, ref))
        except Exception as ex:
            bad.append((name, repr(ex)[:200]))
    v.prove("reported_parameter_units_and_physical_rates", not bad, detail=repr(bad[:4]))
    try:
        reg = dict(SI_base_registry)
        ma = MassAction([k1])
        rxn = rsys.rxns[0]
        (u1,), inst1 = ma.dedimensionalisation(reg)
        reg["length"], reg["time"] = u.decimetre, u.minute
        (u2,), inst2 = ma.dedimensionalisation(reg)
        a1, a2 = float(inst1.args[0]), float(inst2.args[0])
        # 3/(mM*min) = 3000 dm3/(mol*min) = 0.05 m3/(mol*s)
        ok = abs(a1 / 0.05 - 1) < 1e-9 and abs(a2 / 3000.0 - 1) < 1e-9
        det = "%r %r %s %s" % (a1, a2, u1, u2)
    except Exception as ex:
        ok, det = False, repr(ex)
    v.prove("registry_edited_in_place_is_read_again", ok, detail=det)


@harness("C10", "wrapped_constants", functions=["chempy.chemistry:Reaction.check_consistent_units", "chempy.util._expr:Expr.dedimensionalisation", "chempy.kinetics.ode:get_odesys"], kind="data")
def _(v):
    """'accepts a unit-carrying rate constant iff its dimension is concentration^(1-order)/time' also when the constant is wrapped in a rate
    expression or handed in through `substitutions`: a constant of the wrong dimension must be refused somewhere on the way to the ODE system,
    or at least must not produce a physical rate that depends on the registry"""
    import warnings
    import numpy as np
    from chempy.chemistry import Reaction
    from chempy.reactionsystem import ReactionSystem
    from chempy.kinetics.ode import get_odesys
    from chempy.kinetics.rates import MassAction, Arrhenius
    from chempy.units import SI_base_registry, default_units as u, get_derived_unit, to_unitless
    warnings.simplefilter("ignore")
    c0 = {"A": 1 * u.molar, "B": 2 * u.molar, "C": 0 * u.molar}
    regs = (SI_base_registry, dict(SI_base_registry, length=u.cm), dict(SI_base_registry, length=u.dm))

    def rates(rxn, p, **kw):
        out = []
        rsys = ReactionSystem([rxn], "A B C")
        for reg in regs:
            o, e = get_odesys(rsys, unit_registry=reg, **kw)
            x, y, pp = o.to_arrays(1 * u.s, c0, p)
            f = np.asarray(o.f_cb(np.ravel(x)[0], np.ravel(y), np.ravel(pp)), dtype=float).ravel()
            out.append(float(to_unitless(f[0] * get_derived_unit(reg, "concentration") / reg["time"], u.molar / u.s)))
        return out

    def verdict(make):
        try:
            r = make()
        except Exception:
            return "refused", None
        return ("independent" if max(r) - min(r) <= 1e-9 * max(abs(x) for x in r) else "registry dependent"), r
    good = verdict(lambda: rates(Reaction({"A": 1, "B": 1}, {"C": 1}, MassAction([3 / u.molar / u.s])), {}))
    v.prove("right_dimension_wrapped_is_accepted_and_registry_independent", good[0] == "independent" and abs(good[1][0] + 6.0) < 1e-9, detail=repr(good))
    for label, make in (("MassAction", lambda: rates(Reaction({"A": 1, "B": 1}, {"C": 1}, MassAction([3 / u.s])), {})),
                        ("MassAction_of_Arrhenius", lambda: rates(Reaction({"A": 1, "B": 1}, {"C": 1}, MassAction(Arrhenius([3 / u.s, 0 * u.K]))), {"temperature": 300 * u.K})),
                        ("substitution", lambda: rates(Reaction({"A": 1, "B": 1}, {"C": 1}, "k1"), {}, substitutions={"k1": 3 / u.s}))):
        res = verdict(make)
        v.prove("wrong_dimension_" + label + "_refused_or_harmless", res[0] in ("refused", "independent"), detail=repr(res))


@harness("C10", "alternative_builder.dedimensionalisation_of_a_problem", functions=["chempy.kinetics.ode:_mk_dedim", "chempy.kinetics.ode:_mk_dedim.<locals>.dedim_tcp", "chempy.units:get_derived_unit", "chempy.units:to_unitless"],
         kind="shape-bounded", div_mode="assume", samples=0, max_paths=400)
def _(v):
    """what the alternative builder's unit-aware solve hands to the integrator: time, concentrations and parameters given in ANY compatible units
    become numbers in registry units with the same physical value, and the units reported for them are the registry's units of their dimension"""
    from chempy.kinetics.ode import _mk_dedim
    from chempy import units as CU
    from pyvc.qmodel import si_value, dim_of, std_table, Quantity
    t = std_table()
    reg = _registry(v, t)
    v.contract(CU.default_unit_in_registry, "default_unit_in_registry", None, lambda v_, value, registry: _unit_in_registry(t, registry, value) if isinstance(value, Quantity) else 1)
    tu, cu, ku = t.generic("tu", TIME), t.generic("cu", CONC), t.generic("ku", _rate_dim(2))
    tm, cA, cB, k = v.real("t", lo=0, hi=1e6), v.real("cA", lo=0, hi=1e3), v.real("cB", lo=0, hi=1e3), v.real("k", lo=1e-9, hi=1e9)
    ctx = v.call(_mk_dedim, reg)
    (_t, _c, _p), extra = v.call(ctx["dedim_tcp"], tm * tu, {"A": cA * cu, "B": cB * cu}, {"k": k * ku})
    ut, uc, up = extra["unit_time"], extra["unit_conc"], extra["param_units"]["k"]
    v.prove("units_are_the_registrys", dim_of(ut) == TIME and dim_of(uc) == CONC and dim_of(up) == _rate_dim(2))
    v.prove_identity("registry_time_unit", si_value(ut), si_value(reg["time"]))
    v.prove_identity("registry_concentration_unit", si_value(uc), si_value(reg["amount"] / reg["length"] ** 3))
    v.prove_identity("time_same_physical_value", _t * si_value(ut), si_value(tm * tu))
    v.prove_identity("concentration_A_same_physical_value", _c["A"] * si_value(uc), si_value(cA * cu))
    v.prove_identity("concentration_B_same_physical_value", _c["B"] * si_value(uc), si_value(cB * cu))
    v.prove_identity("parameter_same_physical_value", _p["k"] * si_value(up), si_value(k * ku))
    v.prove("keys_kept", set(_c) == {"A", "B"} and set(_p) == {"k"})


@harness("C10", "parameters_given_at_run_time", functions=["chempy.kinetics.ode:get_odesys", "chempy.kinetics.ode:get_odesys.<locals>.<lambda>", "chempy.util._expr:Expr.dedimensionalisation",
                                                         "chempy.kinetics.rates:Eyring", "chempy.units:to_unitless"], kind="data")
def _(v):
    """(a) a value handed in at run time for a free constant is checked against the unit reported for its key: wrong dimension (a first-order unit
    for a second-order step, a concentration, a bare number) is refused, a compatible unit is converted; (b) an argument DEFAULT that carries a unit
    (the standard concentration 1 M of an Eyring expression whose other arguments are given by key only) is expressed in the registry's
    concentration unit like any explicit argument: the physical rate is the hand-computed one in every registry, for orders 1, 2 and 3"""
    import math
    import warnings
    import numpy as np
    from chempy.chemistry import Reaction
    from chempy.reactionsystem import ReactionSystem
    from chempy.kinetics.ode import get_odesys
    from chempy.kinetics.rates import MassAction, Eyring
    from chempy.units import SI_base_registry, default_units as u, to_unitless
    warnings.simplefilter("ignore")
    regs = {"SI": dict(SI_base_registry), "dm_min_umol": dict(SI_base_registry, length=u.decimetre, time=u.minute, amount=u.micromole), "cm_h": dict(SI_base_registry, length=u.centimetre, time=u.hour),
            "scaled_base_units": dict(SI_base_registry, length=0.1 * u.metre, time=60 * u.second)}
    k1, k2 = 3.0 / u.mM / u.minute, 0.5 / u.hour
    rsys = ReactionSystem([Reaction({"A": 2}, {"B": 1}, MassAction([k1], unique_keys=["k1"])), Reaction({"B": 1}, {"A": 2}, MassAction([k2], unique_keys=["k2"]))], "A B")
    c0 = {"A": 2 * u.mM, "B": 1 * u.uM}
    accepted, converted = [], []
    for name, reg in regs.items():
        odesys, extra = get_odesys(rsys, include_params=False, unit_registry=reg)
        for label, wrong in (("first_order_unit_for_k1", {"k1": 4.0 / u.s, "k2": k2}), ("second_order_unit_for_k2", {"k1": k1, "k2": 4.0 / u.mM / u.s}), ("concentration_for_k2", {"k1": k1, "k2": 4.0 * u.mM}),
                             ("bare_number_for_k1", {"k1": 4.0, "k2": k2})):
            try:
                odesys.to_arrays(0 * u.s, c0, wrong)
                accepted.append((name, label))
            except Exception:
                pass
        x, y, p = odesys.to_arrays(0 * u.s, c0, {"k1": 50.0 / u.M / u.s, "k2": 0.5 / 60 / u.minute})
        x2, y2, p2 = odesys.to_arrays(0 * u.s, c0, {"k1": k1, "k2": k2})
        if not np.allclose(np.asarray(p, dtype=float), np.asarray(p2, dtype=float), rtol=1e-12, atol=0):
            converted.append((name, list(np.ravel(p)), list(np.ravel(p2))))
    v.prove("wrong_dimension_refused_at_run_time", not accepted, detail=repr(accepted[:4]))
    # one NAMED constant used by two reactions that need different dimensions (first and second order) has no dimension that suits both:
    # refused when the system is built or when the value is handed in, never accepted for one of the two (rates would depend on the registry);
    # the same name at the same order is legal
    shared = ReactionSystem([Reaction({"A": 1}, {"B": 1}, "k"), Reaction({"A": 1, "B": 1}, {"C": 1}, "k")], "A B C")
    same_order = ReactionSystem([Reaction({"A": 1}, {"B": 1}, "k"), Reaction({"B": 1}, {"C": 1}, "k")], "A B C")
    c3 = {"A": 1 * u.molar, "B": 2 * u.molar, "C": 0 * u.molar}
    took = []
    for name, reg in regs.items():
        for kval in (3 / u.molar / u.s, 3 / u.s):
            try:
                o, _e = get_odesys(shared, unit_registry=reg, include_params=False)
                o.to_arrays(0 * u.s, c3, {"k": kval})
                took.append((name, str(kval)))
            except Exception:
                pass
    v.prove("one_name_for_two_dimensions_refused", not took, detail=repr(took[:3]))
    okk = []
    for name, reg in regs.items():
        try:
            o, _e = get_odesys(same_order, unit_registry=reg, include_params=False)
            x, y, p = o.to_arrays(0 * u.s, c3, {"k": 3 / u.minute})
            f = np.asarray(o.f_cb(np.ravel(x)[0], np.ravel(y), np.ravel(p)), dtype=float).ravel()
            unit = reg["amount"] / reg["length"] ** 3 / reg["time"]
            phys = [float(to_unitless(fi * unit, u.molar / u.s)) for fi in f]
            okk.append(np.allclose(phys, [-0.05, 0.05 - 0.1, 0.1], rtol=1e-10, atol=0))
        except Exception as ex:
            okk.append(repr(ex)[:80])
    v.prove("one_name_at_one_order_accepted", all(x is True or x == True for x in okk), detail=repr(okk))  # noqa: E712
    v.prove("compatible_unit_converted_at_run_time", not converted, detail=repr(converted[:2]))
    # (b)
    T = 310 * u.K
    eyr = {"a1": 2e10 / u.K / u.s, "b1": 7000 * u.K, "a2": 1e10 * 60 / u.K / u.minute, "b2": 6000 * u.K, "a3": 3e7 / u.K / u.ms, "b3": 5500 * u.K}
    hand = lambda a_per_K_s, b_K: a_per_K_s * 310 * math.exp(-b_K / 310)          # standard concentration 1 M: k in M**(1-order)/s
    ks = (hand(2e10, 7000), hand(1e10, 6000), hand(3e10, 5500))
    cA, cB, cC = 2e-3, 3e-3, 0.5
    r1, r2, r3 = ks[0] * cA, ks[1] * cA * cB, ks[2] * cC ** 2 * cA
    ref = [-r1 - r2 - r3, r1 - r2, r2 - 2 * r3, r3]
    c0 = {"A": 2 * u.mM, "B": 3e3 * u.uM, "C": 0.5 * u.molar, "D": 0 * u.mol / u.m3}
    bad = []
    for mode in ("keys_only.substituted", "keys_only.run_time", "explicit"):
        rx = (lambda i: MassAction(Eyring([eyr["a%d" % i], eyr["b%d" % i]]))) if mode == "explicit" else (lambda i: MassAction(Eyring.fk("a%d" % i, "b%d" % i)))
        sys_e = ReactionSystem([Reaction({"A": 1}, {"B": 1}, rx(1)), Reaction({"A": 1, "B": 1}, {"C": 1}, rx(2)), Reaction({"C": 2, "A": 1}, {"D": 1}, rx(3))], "A B C D")
        for name, reg in regs.items():
            try:
                if mode == "keys_only.substituted":
                    odesys, extra = get_odesys(sys_e, unit_registry=reg, substitutions=eyr)
                    params = {"temperature": T}
                elif mode == "keys_only.run_time":
                    odesys, extra = get_odesys(sys_e, unit_registry=reg, include_params=False)
                    params = dict(eyr, temperature=T)
                else:
                    odesys, extra = get_odesys(sys_e, unit_registry=reg)
                    params = {"temperature": T}
                x, y, p = odesys.to_arrays(0 * u.s, c0, params)
                f = np.asarray(odesys.f_cb(np.ravel(x)[0], np.ravel(y), np.ravel(p)), dtype=float).ravel()
                unit = reg["amount"] / reg["length"] ** 3 / reg["time"]
                phys = [float(to_unitless(fi * unit, u.molar / u.s)) for fi in f]
                if not np.allclose(phys, ref, rtol=1e-9, atol=0):
                    bad.append((mode, name, phys, ref))
            except Exception as ex:
                bad.append((mode, name, repr(ex)[:160]))
    v.prove("default_standard_concentration_in_registry_units", not bad, detail=repr(bad[:2]))
