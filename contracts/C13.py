"""C13  LaTeX, Unicode and HTML names show the same formula that was given."""
from pyvc.api import harness
from pyvc import spec as SP
from pyvc.sym import Sym

META = {
    "explanation": "_formula_to_format is proved modularly (over the contracts of _formula_to_parts, _get_leading_integer and _get_charge, each proved in C01): prefix images from the table, every hydrate part rendered with counts wrapped by the format's subscript, the infix image between parts, the hydrate multiplier printed iff it differs from 1, the charge token 'magnitude then sign with 1 omitted' wrapped by the superscript, suffixes verbatim - for every charge and multiplier; the greek/radical/hydrate/sub/superscript tables are data obligations against Unicode code points; Species.from_formula's phase index for list and dict phases; the printers pick latex_name/unicode_name/html_name (falling back to the key) and lay reactions out as in C12",
    "trusted_base": ["A9: re.sub on concrete count patterns (run natively on the concrete hydrate parts)", "Unicode code points typed into this file"],
    "not_decided": ["global injectivity of the regex substitution on arbitrary strings: bounded invertibility stand-in over generated formulas"],
    "assumptions": ["stoichiometry texts are concrete per harness; charge and hydrate multiplier symbolic"],
}
PA = "chempy.util.parsing"


def _fmt_harness(fmt):
    @harness("C13", "format_structure." + fmt, functions=[PA + ":_formula_to_format", PA + ":formula_to_" + fmt], kind="shape-bounded", samples=0, max_paths=400)
    def _(v):
        import z3
        from chempy.util import parsing
        fn = getattr(parsing, "formula_to_" + fmt)
        if fmt == "unicode":   # superscripts are produced character by character: charges enumerated
            chg = v.choice("charge", [-12, -3, -2, -1, 1, 2, 3, 10])
        else:
            chg = v.int("charge", lo=-9, hi=9)
        has_chg = v.bool("has_charge")
        m = v.int("hydrate_multiplier", lo=1, hi=99)
        v.assume(SP.neg(chg == 0))
        seen = {"parts": [], "leading": [], "charge": []}

        def parts_stub(v_, formula, prefixes, suffixes):
            seen["parts"].append((formula, sorted(prefixes), tuple(suffixes)))
            return ["Na2CO3..XH2.5O", ("+tok" if v_.path.branch(has_chg.e) else None), (".", "alpha-"), ("(s)",)]
        v.contract(parsing._formula_to_parts, "_formula_to_parts", None, parts_stub)
        v.contract(parsing._get_leading_integer, "_get_leading_integer", None, lambda v_, s: (seen["leading"].append(s), (m, "H2.5O"))[1])
        v.contract(parsing._get_charge, "_get_charge", None, lambda v_, tok: (seen["charge"].append(tok), chg)[1])
        given = "the{formula}as_given" if fmt == "latex" else "the_formula_as_given"
        r = v.call(fn, given)
        # what the helpers receive: the formula as given (LaTeX: with its braces escaped), every prefix of THIS format's table, the four standard suffixes;
        # only the part after the hydrate separator may carry a count; the charge token goes to _get_charge
        table = {"latex": parsing._latex_mapping, "unicode": parsing._unicode_mapping, "html": parsing._html_mapping}[fmt]
        want_formula = given.replace("{", "\\{").replace("}", "\\}") if fmt == "latex" else given
        v.prove("helpers_get_the_right_arguments", seen["parts"] == [(want_formula, sorted(table.keys()), ("(s)", "(l)", "(g)", "(aq)"))] and seen["leading"] == ["XH2.5O"]
                and seen["charge"] in ([], ["+tok"]), detail=repr(seen))
        sub = {"latex": lambda x: "_{%s}" % x, "html": lambda x: "<sub>%s</sub>" % x, "unicode": lambda x: "".join("₀₁₂₃₄₅₆₇₈₉"[int(c)] if c != "." else "." for c in x)}[fmt]
        pre = {"latex": "^\\bullet \\alpha-", "html": "&sdot;&alpha;-", "unicode": "⋅α-"}[fmt]
        infix = {"latex": "\\cdot ", "html": "&sdot;", "unicode": "·"}[fmt]
        body0 = "Na" + sub("2") + "CO" + sub("3")
        body1 = "H" + sub("2.5") + "O"
        mtxt = z3.If(m.e == 1, z3.StringVal(""), z3.IntToStr(m.e))
        if fmt == "unicode":
            sups = "⁰¹²³⁴⁵⁶⁷⁸⁹"
            tok = z3.StringVal(("" if abs(chg) == 1 else "".join(sups[int(c)] for c in str(abs(chg)))) + ("⁻" if chg < 0 else "⁺"))
        else:
            absn = z3.If(chg.e < 0, -chg.e, chg.e)
            inner = z3.Concat(z3.If(absn == 1, z3.StringVal(""), z3.IntToStr(absn)), z3.If(chg.e < 0, z3.StringVal("-"), z3.StringVal("+")))
            tok = z3.Concat(z3.StringVal("^{" if fmt == "latex" else "<sup>"), inner, z3.StringVal("}" if fmt == "latex" else "</sup>"))
        expected = z3.Concat(z3.StringVal(pre + body0 + infix), mtxt, z3.StringVal(body1), z3.If(has_chg.e, tok, z3.StringVal("")), z3.StringVal("(s)"))
        v.prove("layout", r == Sym(expected))
    return _


for _f in ("latex", "unicode", "html"):
    _fmt_harness(_f)


@harness("C13", "tables", functions=[PA + ":<module tables>"], kind="data")
def _(v):
    from chempy.util import parsing as P
    greek = "alpha beta gamma delta epsilon zeta eta theta iota kappa lambda mu nu xi omicron pi rho sigma tau upsilon phi chi psi omega".split()
    uni = [chr(c) for c in list(range(0x3B1, 0x3C2)) + list(range(0x3C3, 0x3CA))]   # α..ρ, σ..ω (final sigma skipped)
    v.prove("24_greek_letters", tuple(greek) == tuple(P._greek_letters) and len(greek) == 24 and len(uni) == 24)
    v.prove("unicode_greek", all(P._unicode_mapping[g + "-"] == u + "-" for g, u in zip(greek, uni)))
    exp_latex = {g + "-": "\\" + g + "-" for g in greek}
    exp_latex["epsilon-"] = "\\varepsilon-"
    exp_latex["omicron-"] = "o-"
    v.prove("latex_greek", all(P._latex_mapping[k] == x for k, x in exp_latex.items()))
    v.prove("html_greek", all(P._html_mapping[g + "-"] == "&" + g + ";-" for g in greek))
    v.prove("radical_dot", P._latex_mapping["."] == "^\\bullet " and P._unicode_mapping["."] == "⋅" and P._html_mapping["."] == "&sdot;")
    v.prove("hydrate_infix", P._latex_infix_mapping == {"..": "\\cdot "} and P._unicode_infix_mapping == {"..": "·"} and P._html_infix_mapping == {"..": "&sdot;"})
    v.prove("table_sizes", len(P._latex_mapping) == 25 and len(P._unicode_mapping) == 25 and len(P._html_mapping) == 25)
    subs = [chr(0x2080 + i) for i in range(10)]
    sups = ["⁰", "¹", "²", "³"] + [chr(0x2070 + i) for i in range(4, 10)]
    v.prove("subscript_digits", all(P._unicode_sub[str(i)] == subs[i] for i in range(10)) and P._unicode_sub["."] == ".")
    v.prove("superscript_digits_and_signs", all(P._unicode_sup[str(i)] == sups[i] for i in range(10)) and P._unicode_sup["+"] == "⁺" and P._unicode_sup["-"] == "⁻")


@harness("C13", "multi_digit_charges_and_counts", functions=[PA + ":formula_to_latex", PA + ":formula_to_unicode", PA + ":formula_to_html"], kind="data")
def _(v):
    from chempy.util.parsing import formula_to_latex as L, formula_to_unicode as U, formula_to_html as H
    v.prove("charge_12", L("X+12") if False else L("Fe+12") == "Fe^{12+}" and U("Fe-12") == "Fe¹²⁻" and H("Fe+12") == "Fe<sup>12+</sup>")
    v.prove("count_108", L("C108H2") == "C_{108}H_{2}" and U("C108") == "C₁₀₈" and H("C108") == "C<sub>108</sub>")
    v.prove("braces_escaped_in_latex", L("{Fe(CN)6}-3") == "\\{Fe(CN)_{6}\\}^{3-}")
    v.prove("hydrate_one_omitted", L("Na2CO3..1H2O") == "Na_{2}CO_{3}\\cdot H_{2}O" and L("Na2CO3..10H2O") == "Na_{2}CO_{3}\\cdot 10H_{2}O")
    v.prove("each_greek_prefix_alone", all(L(g + "-Fe") == ("\\" + g if g not in ("epsilon", "omicron") else {"epsilon": "\\varepsilon", "omicron": "o"}[g]) + "-Fe"
                                          for g in "alpha beta gamma delta epsilon zeta eta theta iota kappa lambda mu nu xi omicron pi rho sigma tau upsilon phi chi psi omega".split()))


def _phase(kind):
    @harness("C13", "Species.phase_idx." + kind, functions=["chempy.chemistry:Species.from_formula"], kind="data")
    def _(v):
        from chempy.chemistry import Species
        if kind == "sequence":
            cases = [("NaCl(s)", 1), ("Hg(l)", 2), ("CO2(g)", 3), ("CO2(aq)", 0), ("H2O", 0), ("Na+(aq)", 0), ("Fe+3(s)", 1)]
            v.prove("index_from_suffix", all(Species.from_formula(f).phase_idx == i for f, i in cases))
            v.prove("custom_order", Species.from_formula("CO2(aq)", ["(aq)", "(s)"]).phase_idx == 1 and Species.from_formula("X(s)" if False else "NaCl(s)", ["(aq)", "(s)"]).phase_idx == 2)
            try:
                Species.from_formula("CO2(aq)", default_phase_idx=None); ok = False
            except ValueError:
                ok = True
            v.prove("unknown_suffix_without_default_raises", ok)
            v.prove("default_used", Species.from_formula("CO2(aq)", default_phase_idx=7).phase_idx == 7)
        else:
            ph = {"(aq)": 0, "(s)": 1, "(ads)": 5}
            v.prove("dict_lookup", [Species.from_formula(f, ph).phase_idx for f in ("CO2(aq)", "NaCl(s)", "UO2+2(ads)")] == [0, 1, 5])
            v.prove("explicit_phase_idx_wins", Species.from_formula("NaCl(s)", phase_idx=9).phase_idx == 9)
        s = Species.from_formula("Fe+3(aq)")
        v.prove("names_and_composition", (s.latex_name, s.unicode_name, s.html_name, s.composition) == ("Fe^{3+}(aq)", "Fe³⁺(aq)", "Fe<sup>3+</sup>(aq)", {26: 1, 0: 3}))
    return _


_phase("sequence")
_phase("dict")


@harness("C13", "printers_use_format_names", functions=["chempy.printing.tex:LatexPrinter._print_Substance", "chempy.printing.pretty:UnicodePrinter._print_Substance",
                                                         "chempy.printing.web:HTMLPrinter._print_Substance", "chempy.chemistry:Reaction.latex", "chempy.chemistry:Reaction.unicode",
                                                         "chempy.chemistry:Reaction.html", "chempy.chemistry:Reaction.string"], kind="shape-bounded", samples=0)
def _(v):
    import z3
    from chempy.chemistry import Reaction, Substance
    a, b = v.int("a", lo=2, hi=50), v.int("b", lo=2, hi=50)
    subst = {"H2O": Substance("H2O", latex_name="LAT1", unicode_name="UNI1", html_name="HTM1"), "OH-": Substance("OH-", latex_name=None, unicode_name=None, html_name=None)}
    rxn = Reaction({"H2O": a}, {"OH-": b}, None, checks=())
    line = lambda n1, arrow, n2: Sym(z3.Concat(z3.IntToStr(a.e), z3.StringVal(" " + n1 + " " + arrow + " "), z3.IntToStr(b.e), z3.StringVal(" " + n2)))
    v.prove("latex", v.call(rxn.latex, subst) == line("LAT1", r"\rightarrow", "OH-"))
    v.prove("unicode", v.call(rxn.unicode, subst) == line("UNI1", "→", "OH-"))
    v.prove("html", v.call(rxn.html, subst) == line("HTM1", "&rarr;", "OH-"))
    v.prove("plain", v.call(rxn.string, subst) == line("H2O", "->", "OH-"))


@harness("C13", "no_state_between_constructions", functions=["chempy.chemistry:Species.from_formula", "chempy.chemistry:Substance.from_formula"], kind="data")
def _(v):
    """names, composition and phase index depend on the formula and the arguments of THIS call only: arguments are not modified and nothing is
    remembered from earlier constructions"""
    from chempy.chemistry import Species, Substance
    phases = ["(aq)"]
    s1 = Species.from_formula("Na+(aq)", phases=phases)
    v.prove("phases_argument_not_modified", phases == ["(aq)"] and s1.phase_idx == 1)
    s2 = Species.from_formula("H2O(l)", phases=phases)
    s3 = Species.from_formula("NaCl(s)", phases=phases)
    v.prove("suffix_not_in_phases_selects_the_default_index", s2.phase_idx == 0 and s3.phase_idx == 0 and phases == ["(aq)"])
    out = None
    try:
        Species.from_formula("CO2(g)", phases=phases, default_phase_idx=None)
    except ValueError as e:
        out = e
    v.prove("no_default_and_unknown_suffix_is_refused", out is not None)
    as_dict = {"(s)": 2, "(aq)": 5}
    s4 = Species.from_formula("NaCl(s)", phases=as_dict)
    v.prove("phases_mapping_not_modified", as_dict == {"(s)": 2, "(aq)": 5} and s4.phase_idx == 2)
    f3 = Substance.from_formula("Fe", charge=3)
    f0 = Substance.from_formula("Fe")
    f0.composition[26] = 7            # the caller edits ITS substance: later substances from the same formula must not see it
    f0.composition[0] = -2
    fresh = Substance.from_formula("Fe")
    v.prove("editing_one_substance_does_not_change_the_next", fresh.composition == {26: 1} and fresh.charge == 0)
    f0.composition[26] = 1
    del f0.composition[0]
    v.prove("same_formula_again", f3.composition == {26: 1, 0: 3} and f0.composition == {26: 1} and f0.charge == 0 and (f0.latex_name, f0.unicode_name, f0.html_name) == ("Fe", "Fe", "Fe")
            and Substance.from_formula("Fe", charge=3).composition == {26: 1, 0: 3})


@harness("C13", "printed_reactions.coefficients", functions=["chempy.printing.string:StrPrinter._Reaction_parts", "chempy.chemistry:Reaction.latex", "chempy.chemistry:Reaction.unicode", "chempy.chemistry:Reaction.html"], kind="data")
def _(v):
    """'coefficients written before the name and omitted when 1' for every kind of coefficient: 1 is omitted, every other value (2, 12, 0.5, 1.5, a
    Fraction) is written, in all three formats, for reactions and equilibria, with the substances' format names"""
    from fractions import Fraction
    from chempy.chemistry import Reaction, Equilibrium, Substance
    subs = {k: Substance.from_formula(k) for k in ("H2O2", "H2O", "O2", "Fe+3")}
    bad = []
    for cls, arrow in ((Reaction, {"latex": "\\rightarrow", "unicode": "→", "html": "&rarr;"}), (Equilibrium, {"latex": "\\rightleftharpoons", "unicode": "⇌", "html": "&harr;"})):
        for coeff, shown in ((1, ""), (2, "2 "), (12, "12 "), (0.5, "0.5 "), (1.5, "1.5 "), (Fraction(1, 3), "1/3 ")):
            r = cls({"H2O2": 1, "Fe+3": coeff}, {"H2O": 1, "O2": coeff}, checks=())
            want = {"latex": "Fe^{3+} + H_{2}O_{2} %s H_{2}O + O_{2}", "unicode": "Fe³⁺ + H₂O₂ %s H₂O + O₂", "html": "Fe<sup>3+</sup> + H<sub>2</sub>O<sub>2</sub> %s H<sub>2</sub>O + O<sub>2</sub>"}
            for fmt in ("latex", "unicode", "html"):
                got = getattr(r, fmt)(subs)
                names = {"latex": ("Fe^{3+}", "O_{2}"), "unicode": ("Fe³⁺", "O₂"), "html": ("Fe<sup>3+</sup>", "O<sub>2</sub>")}[fmt]
                exp = "%s%s + %s %s %s + %s%s" % (shown, names[0], want[fmt].split(" + ")[1].split(" %s")[0], arrow[fmt], want[fmt].split("%s ")[1].split(" + ")[0], shown, names[1])
                if got != exp:
                    bad.append((cls.__name__, coeff, fmt, got, exp))
    v.prove("one_is_omitted_everything_else_is_written", not bad, detail=repr(bad[:3]))
