import sys, warnings
sys.path.insert(0, sys.argv[1] if len(sys.argv)>1 else '/repo')
warnings.simplefilter('ignore')
import chempy
assert chempy.__file__.startswith(sys.path[0]), chempy.__file__
from chempy import balance_stoichiometry, Reaction, Equilibrium, ReactionSystem, Substance
from chempy.units import default_units as u
def t(name, f):
    try:
        r = f()
        print(name, 'OK' if r else 'DEFECT', r if r is not True else '')
    except Exception as e:
        print(name, 'DEFECT raised', type(e).__name__, e)
def c02():
    try:
        r,p = balance_stoichiometry({'C','CO'},{'CO2'})
    except ValueError:
        return True
    return all(v>0 for v in list(r.values())+list(p.values()))
t('C02', c02)
def c03():
    rs = ReactionSystem([Reaction({'A':1},{'B':1},2.0)], 'A B C')
    r = rs.rates({'A':1.0,'B':2.0,'C':3.0})
    return r.get('C', None) == 0
t('C03', c03)
def c03b():
    from chempy.kinetics.ode import get_odesys
    rs = ReactionSystem([Reaction({'A':1},{'B':1},2.0)], 'A B C')
    get_odesys(rs); return True
t('C03b', c03b)
def c09():
    from chempy.units import unit_registry_from_human_readable as f, unit_registry_to_human_readable as g, SI_base_registry
    reg = dict(SI_base_registry); reg['length']=u.um
    r2 = f(g(reg)); return all(r2[k]==reg[k] for k in reg)
t('C09', c09)
def c10():
    from chempy.units import UncertainQuantity
    try:
        Reaction({'A':1,'B':1},{'C':1}, UncertainQuantity(3, 1/u.s, 0.1))
    except ValueError: return True
    return False
t('C10', c10)
def c11():
    e1=Equilibrium({'A':1},{'B':1},2); e2=Equilibrium({'B':1},{'C':1},3)
    m=Equilibrium.eliminate([e1,e2],'B'); 
    r=m[0]*e1+m[1]*e2
    return 'B' not in r.reac and 'B' not in r.prod and all(x!=0 for x in m)
t('C11', c11)
def c12():
    r=Reaction.from_string('(NH4)2SO4 -> 2 NH4+ + SO4-2', checks=())
    return r.reac=={'(NH4)2SO4':1}
t('C12', c12)
def c12b():
    r=Reaction.from_string('(CH3)3N(aq) + H2O -> (CH3)3NH+ + OH-', checks=())
    return r.reac=={'(CH3)3N(aq)':1,'H2O':1} and r.prod=={'(CH3)3NH+':1,'OH-':1} and not r.inact_reac
t('C12b', c12b)
def c13():
    from chempy.util.parsing import formula_to_latex, formula_to_unicode
    return formula_to_latex('beta-Hg+2')==r'\beta-Hg^{2+}' and formula_to_unicode('theta-Fe')=='θ-Fe'
t('C13', c13)
def c17a():
    from chempy.kinetics.integrated import pseudo_rev
    return abs(pseudo_rev(0,2.0,3.0,0.5,1.0,0.7)-0.5)<1e-14
t('C17a', c17a)
def c17b():
    from chempy.kinetics.integrated import binary_irrev_cstr
    import math
    binary_irrev_cstr(0.7, 1.5, 0.1, .2, 2/7, 1/9, 4/3, backend=math); binary_irrev_cstr(0.7, 1.5, 0.1, .2, 2/7, 1/9, 4/3, backend='sympy'); return True
t('C17b', c17b)
def c17c():
    from chempy.kinetics.integrated import binary_irrev_cstr
    import math
    a,b=binary_irrev_cstr(0.7, 1.5, 1/3, .2, 2/7, 1/9, 4/3)
    return not (math.isnan(a) or math.isnan(b))
t('C17c', c17c)
def c19a():
    from chempy.properties.water_viscosity_korson_1969 import water_viscosity
    v=water_viscosity(300*u.K, units=u); v0=water_viscosity(300)
    from chempy.units import to_unitless
    return abs(to_unitless(v, u.centipoise)-v0)<1e-12
t('C19a', c19a)
def c19b():
    from chempy.electrochemistry.nernst import nernst_potential
    from chempy.units import default_constants as c, to_unitless
    a=nernst_potential(145*u.mM, 0.015*u.M, 1, 310*u.K, c, u)
    b=nernst_potential(145, 15, 1, 310)
    return abs(to_unitless(a,u.volt)-b)<1e-6
t('C19b', c19b)
def c19c():
    from chempy.einstein_smoluchowski import electrical_mobility_from_D
    from chempy.units import to_unitless
    r=electrical_mobility_from_D(3e-9*u.m**2/u.s, 1, 300*u.K, None, u)
    to_unitless(r, u.m**2/u.volt/u.s); return True
t('C19c', c19c)
