"""Shared data and exact-arithmetic helpers for the bounded stand-ins C07 and C08.

Nothing in here calls the chempy code paths that C07/C08 check: the species table is written
by hand (atomic number -> count, key 0 = charge, the convention of chempy compositions), the
stoichiometric / composition matrices, mass-action quotients, ranks and element totals are
computed here with fractions.Fraction (or plain floats) from that table.  chempy is only used
to *build* the system under test (Species.from_formula, Equilibrium, EqSystem).
"""
from __future__ import annotations

import hashlib
import random
from fractions import Fraction

# --------------------------------------------------------------------------- species table
# name -> composition {atomic number: count, 0: charge (only when non-zero)}
SPECIES = {
    "H2O": {1: 2, 8: 1},
    "H+": {1: 1, 0: 1},
    "OH-": {1: 1, 8: 1, 0: -1},
    "H3O+": {1: 3, 8: 1, 0: 1},
    "NH4+": {7: 1, 1: 4, 0: 1},
    "NH3": {7: 1, 1: 3},
    "CO2": {6: 1, 8: 2},
    "H2CO3": {1: 2, 6: 1, 8: 3},
    "HCO3-": {1: 1, 6: 1, 8: 3, 0: -1},
    "CO3-2": {6: 1, 8: 3, 0: -2},
    "H3PO4": {1: 3, 15: 1, 8: 4},
    "H2PO4-": {1: 2, 15: 1, 8: 4, 0: -1},
    "HPO4-2": {1: 1, 15: 1, 8: 4, 0: -2},
    "PO4-3": {15: 1, 8: 4, 0: -3},
    "Fe+3": {26: 1, 0: 3},
    "SCN-": {16: 1, 6: 1, 7: 1, 0: -1},
    "FeSCN+2": {26: 1, 16: 1, 6: 1, 7: 1, 0: 2},
    "Fe(SCN)2+": {26: 1, 16: 2, 6: 2, 7: 2, 0: 1},
    "FeOH+2": {26: 1, 8: 1, 1: 1, 0: 2},
    "Cu+2": {29: 1, 0: 2},
    "CuNH3+2": {29: 1, 7: 1, 1: 3, 0: 2},
    "Cu(NH3)2+2": {29: 1, 7: 2, 1: 6, 0: 2},
    "Cu(NH3)4+2": {29: 1, 7: 4, 1: 12, 0: 2},
    "Ag+": {47: 1, 0: 1},
    "Ag(NH3)2+": {47: 1, 7: 2, 1: 6, 0: 1},
    "CrO4-2": {24: 1, 8: 4, 0: -2},
    "HCrO4-": {1: 1, 24: 1, 8: 4, 0: -1},
    "Cr2O7-2": {24: 2, 8: 7, 0: -2},
    "HSO4-": {1: 1, 16: 1, 8: 4, 0: -1},
    "SO4-2": {16: 1, 8: 4, 0: -2},
    "CH3COOH": {6: 2, 1: 4, 8: 2},
    "CH3COO-": {6: 2, 1: 3, 8: 2, 0: -1},
    "HF": {1: 1, 9: 1},
    "F-": {9: 1, 0: -1},
    # spectators / salt ions
    "Na+": {11: 1, 0: 1},
    "K+": {19: 1, 0: 1},
    "Cl-": {17: 1, 0: -1},
    "NO3-": {7: 1, 8: 3, 0: -1},
    "Ba+2": {56: 1, 0: 2},
    "Ca+2": {20: 1, 0: 2},
    # solids (phase_idx = 1 in chempy because of the "(s)" suffix)
    "NaCl(s)": {11: 1, 17: 1},
    "AgCl(s)": {47: 1, 17: 1},
    "BaSO4(s)": {56: 1, 16: 1, 8: 4},
    "CaF2(s)": {20: 1, 9: 2},
    "Ag2CrO4(s)": {47: 2, 24: 1, 8: 4},
}
SOLIDS = tuple(n for n in SPECIES if n.endswith("(s)"))
SPECTATORS = ("Na+", "K+", "Cl-", "NO3-")

# --------------------------------------------------------------------------- equilibria pool
# (tag, reactants, products, log10 K with water written as a 55.5 M species)
import math as _m

_W = _m.log10(55.5)
POOL = [
    ("water", {"H2O": 1}, {"H+": 1, "OH-": 1}, -14.0 - _W),
    # same net equilibrium, water deliberately on BOTH sides (net stoichiometry must be used)
    ("water2", {"H2O": 2}, {"H2O": 1, "H+": 1, "OH-": 1}, -14.0 - _W),
    ("ammonium", {"NH4+": 1}, {"H+": 1, "NH3": 1}, -9.26),
    ("co2hyd", {"CO2": 1, "H2O": 1}, {"H2CO3": 1}, -2.77 - _W),
    ("carbonic1", {"H2CO3": 1}, {"H+": 1, "HCO3-": 1}, -3.6),
    ("carbonic2", {"HCO3-": 1}, {"H+": 1, "CO3-2": 1}, -10.33),
    ("phosphoric1", {"H3PO4": 1}, {"H+": 1, "H2PO4-": 1}, -2.15),
    ("phosphoric2", {"H2PO4-": 1}, {"H+": 1, "HPO4-2": 1}, -7.2),
    ("phosphoric3", {"HPO4-2": 1}, {"H+": 1, "PO4-3": 1}, -12.35),
    ("acetic", {"CH3COOH": 1}, {"H+": 1, "CH3COO-": 1}, -4.76),
    ("hf", {"HF": 1}, {"H+": 1, "F-": 1}, -3.17),
    ("bisulfate", {"HSO4-": 1}, {"H+": 1, "SO4-2": 1}, -1.99),
    ("fescn1", {"Fe+3": 1, "SCN-": 1}, {"FeSCN+2": 1}, 2.95),
    ("fescn2", {"FeSCN+2": 1, "SCN-": 1}, {"Fe(SCN)2+": 1}, 1.4),
    ("fehydrolysis", {"Fe+3": 1, "H2O": 1}, {"FeOH+2": 1, "H+": 1}, -2.19 - _W),
    ("cunh3_1", {"Cu+2": 1, "NH3": 1}, {"CuNH3+2": 1}, 4.04),
    ("cunh3_2", {"CuNH3+2": 1, "NH3": 1}, {"Cu(NH3)2+2": 1}, 3.43),
    ("cunh3_4", {"Cu+2": 1, "NH3": 4}, {"Cu(NH3)4+2": 1}, 12.6),
    ("agnh3", {"Ag+": 1, "NH3": 2}, {"Ag(NH3)2+": 1}, 7.2),
    ("hydronium", {"H+": 1, "H2O": 1}, {"H3O+": 1}, 0.5 - _W),
    ("chromate", {"HCrO4-": 1}, {"H+": 1, "CrO4-2": 1}, -6.5),
    ("dichromate", {"HCrO4-": 2}, {"Cr2O7-2": 1, "H2O": 1}, 1.5 + _W),
]
POOL_BY_TAG = {p[0]: p for p in POOL}

# single-salt precipitation systems: solid = ions ; log10 Ksp (moderately soluble so that both
# branches, solid present / absent, are reached by O(1e-3 .. 1) concentrations)
SALTS = [
    ("NaCl(s)", {"Na+": 1, "Cl-": 1}, 0.6),
    ("AgCl(s)", {"Ag+": 1, "Cl-": 1}, -3.0),
    ("BaSO4(s)", {"Ba+2": 1, "SO4-2": 1}, -2.5),
    ("CaF2(s)", {"Ca+2": 1, "F-": 2}, -4.0),
    ("Ag2CrO4(s)", {"Ag+": 2, "CrO4-2": 1}, -5.0),
]


# --------------------------------------------------------------------------- small utilities
def case_rng(*parts):
    """Deterministic RNG from a tuple of printable parts (independent of PYTHONHASHSEED)."""
    h = hashlib.sha256(":".join(str(p) for p in parts).encode()).hexdigest()
    return random.Random(int(h[:16], 16))


def net_stoich(reac, prod, names):
    return [prod.get(n, 0) - reac.get(n, 0) for n in names]


def comp_keys(names):
    ks = set()
    for n in names:
        ks.update(SPECIES[n])
    return sorted(ks)


def comp_matrix(names):
    """Rows: composition keys (sorted; 0 = charge only if some species is charged); columns: species."""
    ks = comp_keys(names)
    return [[SPECIES[n].get(k, 0) for n in names] for k in ks], ks


def rank(rows):
    """Rank over the rationals (fraction-exact Gaussian elimination)."""
    m = [[Fraction(x) for x in r] for r in rows]
    rk = 0
    ncol = len(m[0]) if m else 0
    for col in range(ncol):
        piv = None
        for r in range(rk, len(m)):
            if m[r][col] != 0:
                piv = r
                break
        if piv is None:
            continue
        m[rk], m[piv] = m[piv], m[rk]
        pv = m[rk][col]
        m[rk] = [x / pv for x in m[rk]]
        for r in range(len(m)):
            if r != rk and m[r][col] != 0:
                f = m[r][col]
                m[r] = [a - f * b for a, b in zip(m[r], m[rk])]
        rk += 1
        if rk == len(m):
            break
    return rk


def quotient(concs, nu):
    """prod c_j ** nu_j (exact for Fractions, float otherwise)."""
    q = 1
    for c, n in zip(concs, nu):
        if n:
            q = q * c ** n
    return q


def totals(B, concs):
    return [sum(b * c for b, c in zip(row, concs)) for row in B]


def upper_bounds(names, init):
    """Per species: min over its elements (charge excluded) of (total amount of element)/(count)."""
    tot = {}
    for n, c in zip(names, init):
        for k, v in SPECIES[n].items():
            if k:
                tot[k] = tot.get(k, 0) + v * c
    return [min(tot[k] / v for k, v in SPECIES[n].items() if k) for n in names]


def build_eqsys(names, rxns, params):
    """The system under test.  rxns: [(reac, prod)], params: equilibrium constants."""
    from chempy import Equilibrium, Species
    from chempy.equilibria import EqSystem
    subs = [Species.from_formula(n) for n in names]
    eqs = [Equilibrium(dict(r), dict(p), k) for (r, p), k in zip(rxns, params)]
    return EqSystem(eqs, subs)


def frac_to_json(x):
    x = Fraction(x)
    return "%d/%d" % (x.numerator, x.denominator)


def frac_from_json(s):
    return Fraction(s)
