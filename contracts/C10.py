"""C10  Kinetic results do not depend on the units rate constants or registries use."""
from pyvc.api import harness
from pyvc import spec as SP
from pyvc.sym import Sym

META = {
    "explanation": "under the unit abstraction 5.1: Reaction.check_consistent_units accepts a unit-carrying constant iff its dimension is concentration^(1-order)/time for orders 0..3 and any time/concentration units (generic scales), and rejects each one-off dimension; Equilibrium.check_consistent_units never accepts a constant of another dimension than concentration^(products-reactants); the args_dimensionality of MassAction/Arrhenius/Eyring/EyringHS/Radiolytic/RampedTemp/SinTemp equal the dimension algebra of their formulas for EVERY reaction order (symbolic order); Expr.dedimensionalisation returns per argument the registry unit and the magnitude with phys(arg) = magnitude * phys(unit), recursively for nested expressions, defaults converted likewise; hence the dedimensionalised mass-action rate times the registry's rate unit equals the physical rate for any registry (orders 0-3)",
    "trusted_base": ["assumed contract 5.1 (pyvc/qmodel.py)", "contracts assumed at call sites for default_unit_in_registry / unitless_in_registry (they walk quantities internals; bounded stand-in): unit = product of registry units to the argument's SI exponents"],
    "not_decided": ["get_odesys's to_arrays/post-processing callbacks end to end and the alternative builder's validation (pyodesys in the loop): bounded metamorphic stand-in over three registries; in the contract tier only hand-computed data cases (t != 0, temperature units, output rescaling, Radiolytic keys, validate)",
                    "WHICH constants of the right dimension Equilibrium.check_consistent_units accepts besides molar**exponent itself (the property fixes only 'accepted => right dimension'; the pinned tree refuses mM and, comparing float scales, even mol/dm3)"],
    "assumptions": [],
}
CH = "chempy.chemistry"
DIMS = ("length", "mass", "time", "current", "temperature", "luminous_intensity", "amount")
CONC = (-3, 0, 0, 0, 0, 0, 1)
TIME = (0, 0, 1, 0, 0, 0, 0)


def _env(v):
    from pyvc.qmodel import Units, std_table
    t = std_table()
    u = Units(t)
    v.override_global("chempy.chemistry", "default_units", u)
    return t, u


def _reac(order):
    return {0: {}, 1: {"A": 1}, 2: {"A": 1, "B": 1}, 3: {"A": 2, "B": 1}}[order]


def _rate_dim(order, off=None):
    d = [CONC[i] * (1 - order) - TIME[i] for i in range(7)]
    if off is not None:
        d[off[0]] += off[1]
    return tuple(d)


def _rcu(order):
    @harness("C10", "Reaction.check_consistent_units.order%d" % order, functions=[CH + ":Reaction.check_consistent_units", "chempy.units:is_quantity", "chempy.units:to_unitless"],
             kind="shape-bounded", div_mode="assume", samples=0)
    def _(v):
        from chempy.chemistry import Reaction
        t, u = _env(v)
        m = v.real("k", lo=1e-9, hi=1e9)
        off = v.choice("off", [None, (0, 1), (0, -3), (2, 1), (2, -1), (6, 1), (6, -1), (1, 1), (4, 1), (3, -1)])
        ku = t.generic("ku", _rate_dim(order, off))       # a unit of (possibly wrong) dimension and arbitrary scale
        rxn = Reaction(_reac(order), {"P": 1}, m * ku, checks=())
        ok = v.call(rxn.check_consistent_units)
        # the verdict by its truth value (a numpy bool or 1/0 is the same verdict), not by identity with True / False
        v.prove("accepted_iff_dimension_is_conc_pow_1_minus_order_per_time", SP.iff(ok, off is None))
        out = v.run(rxn.check_consistent_units, throw=True)
        v.prove("throw_mode", out.returned if off is None else out.raised(Exception))
        plain = Reaction(_reac(order), {"P": 1}, m, checks=())
        v.prove("plain_numbers_are_not_checked", bool(v.call(plain.check_consistent_units)) is True)
    return _


for _o in (0, 1, 2, 3):
    _rcu(_o)


@harness("C10", "Reaction.constructor_runs_unit_check", functions=[CH + ":Reaction.__init__"], kind="data")
def _(v):
    from chempy.chemistry import Reaction
    from chempy.units import default_units as u, UncertainQuantity
    v.prove("default_checks_include_units", "consistent_units" in Reaction.default_checks)
    cases = [(1 / u.s, True), (1 / u.minute, True), (1 / u.molar / u.s, False), (u.molar / u.s, False), (1 / u.m, False)]
    res = []
    for unit, expect in cases:
        try:
            Reaction({"A": 1}, {"B": 1}, 3.0 * unit); got = True
        except Exception:
            got = False
        res.append(got == expect)
    v.prove("first_order_examples_with_real_quantities", all(res), str(res))
    try:
        Reaction({"A": 1, "B": 1}, {"C": 1}, UncertainQuantity(3, 1 / u.s, 0.1)); got = True
    except Exception:
        got = False
    v.prove("uncertain_quantity_is_checked_too", got is False)


def _ecu(nreac, nprod):
    @harness("C10", "Equilibrium.check_consistent_units.r%dp%d" % (nreac, nprod), functions=[CH + ":Equilibrium.check_consistent_units", "chempy.units:unit_of"], kind="shape-bounded", div_mode="assume", samples=0)
    def _(v):
        from chempy.chemistry import Equilibrium
        from pyvc.qmodel import dim_of, Quantity
        t, u = _env(v)
        m = v.real("K", lo=1e-9, hi=1e9)
        expo = nprod - nreac
        off = v.choice("off", [None, (0, 3), (6, 1), (2, 1), (6, -1)])
        d = [CONC[i] * expo for i in range(7)]
        if off:
            d[off[0]] += off[1]
        ku = t.generic("ku", tuple(d))
        eq = Equilibrium({"A": nreac}, {"B": nprod}, m * ku, checks=())
        ok = v.call(eq.check_consistent_units)
        # (i) of the property's equilibrium clause, for a unit of ANY scale (ku is generic): accepted => the dimension is concentration**expo.
        # The obligation keeps its old NAME (the baseline refers to it) but no longer its old condition "accepted <=> the scale is that of
        # molar**expo": which right-dimension constants are accepted is not fixed by the property (chempy today refuses every scale but molar's,
        # and -- comparing float scales -- even some exact spellings of 1 M such as mol/dm3: second review, finding 3); a chempy that starts
        # accepting mol/dm3, or mM, still satisfies C10.  (ii) "molar**expo itself IS accepted" is molar_units_accepted below: it keeps (i)
        # from being earned by refusing every quantity.
        v.prove("right_dimension_accepted_iff_molar_scale", SP.implies(ok, off is None))
        if off is not None:
            v.prove("wrong_dimension_never_accepted", ok is False or ok == False)   # noqa
            # throw=True must refuse by raising; WHICH exception is not part of the property (Reaction's twin accepts any, too)
            v.prove("wrong_dimension_throws", v.run(eq.check_consistent_units, throw=True).raised(Exception))
        # for expo == 0 the constant must still be a QUANTITY (dimensionless), not a plain number: a plain number is accepted by the
        # "user is not using units" branch whatever the check does
        molar = Equilibrium({"A": nreac}, {"B": nprod}, m * u.molar ** expo if expo else Quantity(m, {}, t), checks=())
        v.prove("molar_units_accepted", bool(v.call(molar.check_consistent_units)) is True)
    return _


for _r, _p in ((1, 1), (1, 2), (2, 1), (1, 3)):
    _ecu(_r, _p)


@harness("C10", "Equilibrium.check_consistent_units.inactive_species_do_not_count", functions=[CH + ":Equilibrium.check_consistent_units"], kind="shape-bounded", div_mode="assume", samples=0)
def _(v):
    """the constant of  A + (S) = B + C  has the dimension of the ACTIVE stoichiometry: concentration^(2-1)"""
    from chempy.chemistry import Equilibrium
    t, u = _env(v)
    m = v.real("K", lo=1e-9, hi=1e9)
    for tag, ir, ip, expo in (("solvent_reactant", {"S": 1}, None, 1), ("solid_product", None, {"P(s)": 1}, 1), ("both", {"S": 2}, {"X": 1}, 1)):
        good = Equilibrium({"A": 1}, {"B": 1, "C": 1}, m * u.molar ** expo, inact_reac=ir, inact_prod=ip, checks=())
        v.prove(tag + ".active_dimension_accepted", bool(v.call(good.check_consistent_units)) is True)
        net_expo = expo + (sum(ip.values()) if ip else 0) - (sum(ir.values()) if ir else 0)
        if net_expo != expo:
            bad = Equilibrium({"A": 1}, {"B": 1, "C": 1}, m * u.molar ** net_expo, inact_reac=ir, inact_prod=ip, checks=())
            v.prove(tag + ".dimension_counting_inactive_species_rejected", bool(v.call(bad.check_consistent_units)) is False)


@harness("C10", "args_dimensionality", functions=["chempy.kinetics.rates:MassAction.args_dimensionality", "chempy.kinetics.rates:Arrhenius.args_dimensionality", "chempy.kinetics.rates:Eyring.args_dimensionality",
                                                   "chempy.kinetics.rates:EyringHS.args_dimensionality", "chempy.kinetics.rates:RampedTemp.args_dimensionality", "chempy.kinetics.rates:SinTemp.args_dimensionality"],
         samples=20)
def _(v):
    """for EVERY reaction order (symbolic): dimension of k is time^-1 amount^(1-order) length^(3(order-1))"""
    from chempy.kinetics import rates as R
    from chempy.chemistry import Reaction
    from pyvc.objs import make_obj
    n = v.int("order", lo=0, hi=50)
    rxn = make_obj(Reaction, reac={"A": n}, prod={"P": 1}, inact_reac={}, inact_prod={}, param=None)
    kdim = {"time": -1, "amount": 1 - n, "length": 3 * (n - 1)}
    BASE = ("length", "mass", "time", "current", "temperature", "luminous_intensity", "amount")

    def lin(*terms):
        # dimension of a product of powers: sum of factor * exponent-vector
        return {b: sum(f * d.get(b, 0) for f, d in terms) for b in BASE}

    def dim_eq(a, b):
        # equality of DIMENSIONS: a base dimension left out and one listed with exponent 0 are the same thing for every consumer
        # (unit_registry[dim] ** v); a key that is no base dimension is not (the consumer's registry lookup fails on it)
        return SP.conj([all(k in BASE for k in a)] + [a.get(k, 0) == b.get(k, 0) for k in BASE])

    def dims_eq(got, exp):
        return len(got) == len(exp) and SP.conj([dim_eq(g, e) for g, e in zip(got, exp)])
    Tdim = {"temperature": 1}
    (d,) = v.call(R.MassAction([1.0]).args_dimensionality, rxn)
    v.prove("MassAction", dim_eq(d, kdim))
    dA, dE = v.call(R.Arrhenius([1.0, 1.0]).args_dimensionality, rxn)
    v.prove("Arrhenius", SP.conj([dim_eq(dA, kdim), dim_eq(dE, Tdim)]))
    # Eyring: k = arg0 * T * exp(-arg1 / T) * conc0**(1 - order)  (the formula in Eyring.__call__, proved in C16): the dimensions declared for the
    # arguments must make the exponent dimensionless and k a rate constant of this order -- taken from the formula, not from the declaration
    d0, d1, d2 = v.call(R.Eyring([1.0, 1.0]).args_dimensionality, rxn)
    v.prove("Eyring.exponent_dimensionless", dim_eq(lin((1, d1), (-1, Tdim)), {}))
    v.prove("Eyring.standard_state_is_a_concentration", dim_eq(d2, {"amount": 1, "length": -3}))
    v.prove("Eyring.formula_has_the_dimension_of_a_rate_constant_of_this_order", dim_eq(lin((1, d0), (1, Tdim), (1 - n, d2)), kdim))
    h0, h1, h2 = v.call(R.EyringHS([1.0, 1.0]).args_dimensionality)
    energy = {"mass": 1, "length": 2, "time": -2}
    v.prove("EyringHS", dims_eq((h0, h1, h2), (dict(energy, amount=-1), dict(energy, amount=-1, temperature=-1), {"amount": 1, "length": -3})))
    # EyringHS: k = kB/h * T * exp(-(dH - T*dS)/(R*T)) * c0**(1 - order);  kB/h*T is 1/time, R = energy/(amount*temperature)
    Rdim = dict(energy, amount=-1, temperature=-1)
    v.prove("EyringHS.exponent_dimensionless", SP.conj([dim_eq(lin((1, h0), (-1, Rdim), (-1, Tdim)), {}), dim_eq(lin((1, h1), (-1, Rdim)), {})]))
    v.prove("EyringHS.formula_has_the_dimension_of_a_rate_constant_of_this_order", dim_eq(lin((1, {"time": -1}), (1 - n, h2)), kdim))
    # Arrhenius: k = A * exp(-Ea_over_R / T)
    v.prove("Arrhenius.exponent_dimensionless", dim_eq(lin((1, dE), (-1, Tdim)), {}))
    # T(t) = T0 + dTdt * t;  T(t) = Tbase + Tamp * sin(angvel * t + phase)
    v.prove("RampedTemp", dims_eq(v.call(R.RampedTemp([1.0, 1.0]).args_dimensionality), (Tdim, {"temperature": 1, "time": -1})))
    v.prove("SinTemp", dims_eq(v.call(R.SinTemp([1.0, 1.0, 1.0, 1.0]).args_dimensionality), (Tdim, Tdim, {"time": -1}, {})))


@harness("C10", "Radiolytic.args_dimensionality", functions=["chempy.kinetics.rates:mk_Radiolytic.<locals>._Radiolytic.args_dimensionality"], kind="data")
def _(v):
    nz = lambda d: {k: x for k, x in dict(d).items() if x}       # a base dimension left out and one listed with exponent 0 are the same dimension
    try:
        from chempy.kinetics.rates import Radiolytic
        d = list(Radiolytic([1.0]).args_dimensionality(None))
        ok, det = len(d) == 1 and nz(d[0]) == {"amount": 1, "mass": -1, "length": -2, "time": 2}, repr(d)
    except Exception as ex:
        ok, det = False, repr(ex)[:200]
    v.prove("amount_per_energy", ok, detail=det)
    try:
        from chempy.kinetics.rates import mk_Radiolytic
        d2 = list(mk_Radiolytic("a", "b")([1.0, 2.0]).args_dimensionality(None))
        ok, det = len(d2) == 2 and nz(d2[0]) == nz(d2[1]), repr(d2)
    except Exception as ex:
        ok, det = False, repr(ex)[:200]
    v.prove("one_per_doserate", ok, detail=det)


def _si(q):
    """(magnitude in SI base units, dimensionality in SI base units) of a real `quantities` object -- computed by the quantities package itself
    (third party, not under test), never by chempy.units"""
    s = (1 * q).simplified
    return float(s.magnitude), s.dimensionality


def _registry(v, t):
    reg = {}
    for i, name in enumerate(DIMS):
        reg[name] = t.generic("r_" + name, tuple(1 if j == i else 0 for j in range(7)))
    return reg


def _unit_in_registry(t, reg, q):
    from pyvc.qmodel import dim_of
    d = dim_of(q)
    out = 1
    for name, e in zip(DIMS, d):
        if e:
            out = out * reg[name] ** e
    return out


def _dedim(order):
    @harness("C10", "dedimensionalisation.order%d" % order, functions=["chempy.util._expr:Expr.dedimensionalisation"], kind="shape-bounded", div_mode="assume", samples=0)
    def _(v):
        from chempy.kinetics.rates import MassAction, Arrhenius
        from chempy import units as CU
        from pyvc.qmodel import si_value, dim_of, std_table, Quantity
        t = std_table()
        reg = _registry(v, t)
        v.contract(CU.default_unit_in_registry, "default_unit_in_registry", None, lambda v_, value, registry: _unit_in_registry(t, registry, value) if isinstance(value, Quantity) else 1)
        v.contract(CU.unitless_in_registry, "unitless_in_registry", None,
                   lambda v_, value, registry: v_.interp.call(CU.to_unitless, (value, _unit_in_registry(t, registry, value))) if isinstance(value, Quantity) else value)
        A, EaR = v.real("A", lo=1e-9, hi=1e9), v.real("Ea_over_R", lo=0, hi=1e4)
        ku = t.generic("ku", _rate_dim(order))
        Tu = t.generic("Tu", (0, 0, 0, 0, 1, 0, 0))
        # nested expression: MassAction(Arrhenius([A, Ea/R])) with arguments in arbitrary compatible units
        ma = MassAction([Arrhenius([A * ku, EaR * Tu])])
        units, inst = v.call(ma.dedimensionalisation, reg)
        (inner_units,) = units
        arr = inst.args[0]
        # 'the same kind of expression' = an instance of the class (a subclass included), not the identical type object
        v.prove("structure_kept", isinstance(inst, MassAction) and isinstance(arr, Arrhenius) and len(arr.args) == 2 and len(inner_units) == 2)
        v.prove("units_have_argument_dimensions", dim_of(inner_units[0]) == _rate_dim(order) and dim_of(inner_units[1]) == (0, 0, 0, 0, 1, 0, 0))
        v.prove_identity("rate_constant_physical_value_preserved", arr.args[0] * si_value(inner_units[0]), si_value(A * ku))
        v.prove_identity("activation_temperature_physical_value_preserved", arr.args[1] * si_value(inner_units[1]), si_value(EaR * Tu))
        # units are built from the registry only: same registry unit for the same dimension
        cu = t.generic("cu", CONC)
        plain = MassAction([A * ku], unique_keys=("kk",))
        u2, i2 = v.call(plain.dedimensionalisation, reg)
        v.prove("unique_keys_kept", tuple(i2.unique_keys) == ("kk",))       # the keys, whether kept in a tuple or a list
        v.prove_identity("flat_argument", i2.args[0] * si_value(u2[0]), si_value(A * ku))
        # registry independence of the mass-action rate (orders 0..3): dedim rate * registry rate unit == physical rate
        concs = {k: v.real("c" + k, lo=0, hi=10) for k in ("A", "B")}
        from chempy.chemistry import Reaction
        rxn = Reaction(_reac(order), {"P": 1}, None, checks=())
        conc_unit = reg["amount"] / reg["length"] ** 3
        rate_unit = conc_unit / reg["time"]
        dd = {k: v.interp.call(CU.to_unitless, (c * cu, conc_unit)) for k, c in concs.items()}
        r_reg = v.call(i2, dd, reaction=rxn)
        phys = si_value(A * ku)
        for k, nu in _reac(order).items():
            phys = phys * si_value(concs[k] * cu) ** nu
        v.prove_identity("rate_independent_of_registry", r_reg * si_value(rate_unit), phys)
    return _


for _o in (0, 1, 2, 3):
    _dedim(_o)


@harness("C10", "unit_aware_system_on_the_real_package", functions=["chempy.kinetics.ode:get_odesys", "chempy.kinetics.ode:get_odesys.<locals>._reg_unique", "chempy.util._expr:Expr.dedimensionalisation",
                                                                  "chempy.units:default_unit_in_registry", "chempy.units:unitless_in_registry"], kind="data")
def _(v):
    """end to end with real quantities: free named constants that also carry a (non registry-coherent) value, three reaction orders, four
    registries -- 'parameter units reported alongside are consistent with it': the number to_arrays hands to the integrator for each constant,
    times the unit reported for its key, is the constant that was given (same dimension, same physical value; WHICH unit is reported is not part
    of the property -- chempy reports the registry's coherent unit), and the physical rate from to_arrays + f_cb equals the rate computed by hand
    in M and s; a registry dict edited in place is read as it is at the time of the call"""
    import warnings
    import numpy as np
    from chempy.chemistry import Reaction
    from chempy.reactionsystem import ReactionSystem
    from chempy.kinetics.ode import get_odesys
    from chempy.kinetics.rates import MassAction
    from chempy.units import SI_base_registry, default_units as u, to_unitless
    warnings.simplefilter("ignore")
    k1, k2, k3 = 3.0 / u.mM / u.minute, 0.5 / u.hour, 7.0 * u.uM / u.s
    # (a factory: building the system runs chempy's constructors and their checks -- an exception there is a failed obligation, not a crash of the harness)
    mk_rsys = lambda: ReactionSystem([Reaction({"A": 2}, {"B": 1}, MassAction([k1], unique_keys=["k1"])), Reaction({"B": 1}, {"A": 2}, MassAction([k2], unique_keys=["k2"])),
                                      Reaction({}, {"C": 1}, MassAction([k3], unique_keys=["k3"]), checks=())], "A B C")
    c0 = {"A": 2 * u.mM, "B": 1 * u.uM, "C": 0 * u.M}
    _k1, _k2, _k3, _A, _B = 3e3 / 60, 0.5 / 3600, 7e-6, 2e-3, 1e-6
    ref = [-2 * _k1 * _A ** 2 + 2 * _k2 * _B, _k1 * _A ** 2 - _k2 * _B, _k3]
    regs = {"SI": dict(SI_base_registry), "dm_min_umol": dict(SI_base_registry, length=u.decimetre, time=u.minute, amount=u.micromole), "cm_h": dict(SI_base_registry, length=u.centimetre, time=u.hour),
            "scaled_base_units": dict(SI_base_registry, length=0.1 * u.metre, time=60 * u.second)}
    bad = []
    for name, reg in regs.items():
        try:
            odesys, extra = get_odesys(mk_rsys(), include_params=False, unit_registry=reg)
            conc, tm = reg["amount"] / reg["length"] ** 3, reg["time"]
            pu = dict(zip(odesys.param_names, extra["p_units"]))
            x, y, p = odesys.to_arrays(0 * u.s, c0, {"k1": k1, "k2": k2, "k3": k3})
            pv = dict(zip(odesys.param_names, np.ravel(p)))
            for key, given in (("k1", k1), ("k2", k2), ("k3", k3)):
                (us, ud), (gs, gd) = _si(pu[key]), _si(given)
                if ud != gd or abs(float(pv[key]) * us / gs - 1) > 1e-11:
                    bad.append((name, key, str(pu[key]), float(pv[key])))
            f = np.asarray(odesys.f_cb(np.ravel(x)[0], np.ravel(y), np.ravel(p)), dtype=float).ravel()
            phys = [float(to_unitless(fi * conc / tm, u.molar / u.s)) for fi in f]
            if not np.allclose(phys, ref, rtol=1e-10, atol=0):
                bad.append((name, "rate", phys, ref))
        except Exception as ex:
            bad.append((name, repr(ex)[:200]))
    v.prove("reported_parameter_units_and_physical_rates", not bad, detail=repr(bad[:4]))
    try:
        reg = dict(SI_base_registry)
        ma = MassAction([k1])
        (u1,), inst1 = ma.dedimensionalisation(reg)
        reg["length"], reg["time"] = u.decimetre, u.minute
        (u2,), inst2 = ma.dedimensionalisation(reg)
        a1, a2 = float(inst1.args[0]), float(inst2.args[0])
        # 3/(mM*min) = 3000 dm3/(mol*min) = 0.05 m3/(mol*s)
        ok = abs(a1 / 0.05 - 1) < 1e-9 and abs(a2 / 3000.0 - 1) < 1e-9
        det = "%r %r %s %s" % (a1, a2, u1, u2)
    except Exception as ex:
        ok, det = False, repr(ex)
    v.prove("registry_edited_in_place_is_read_again", ok, detail=det)


@harness("C10", "wrapped_constants", functions=["chempy.chemistry:Reaction.check_consistent_units", "chempy.util._expr:Expr.dedimensionalisation", "chempy.kinetics.ode:get_odesys"], kind="data")
def _(v):
    """'accepts a unit-carrying rate constant iff its dimension is concentration^(1-order)/time' also when the constant is wrapped in a rate
    expression or handed in through `substitutions`: a constant of the wrong dimension must be REFUSED somewhere on the way to the ODE system
    (a registry independent but physically meaningless number -- e.g. the SI magnitude of the wrong-dimension constant -- is not acceptance of
    the right thing; the obligation names still say 'or_harmless' because known_findings.json and the baseline refer to them), and on every one
    of the three routes a constant of the RIGHT dimension is accepted and gives the hand-computed rate in every registry (so that 'refused' cannot
    be earned by refusing every quantity, or by an unrelated exception)"""
    import warnings
    import numpy as np
    from chempy.chemistry import Reaction
    from chempy.reactionsystem import ReactionSystem
    from chempy.kinetics.ode import get_odesys
    from chempy.kinetics.rates import MassAction, Arrhenius
    from chempy.units import SI_base_registry, default_units as u, get_derived_unit, to_unitless
    warnings.simplefilter("ignore")
    c0 = {"A": 1 * u.molar, "B": 2 * u.molar, "C": 0 * u.molar}
    regs = (SI_base_registry, dict(SI_base_registry, length=u.cm), dict(SI_base_registry, length=u.dm))

    def rates(rxn, p, **kw):
        out = []
        rsys = ReactionSystem([rxn], "A B C")
        for reg in regs:
            o, e = get_odesys(rsys, unit_registry=reg, **kw)
            x, y, pp = o.to_arrays(1 * u.s, c0, p)
            f = np.asarray(o.f_cb(np.ravel(x)[0], np.ravel(y), np.ravel(pp)), dtype=float).ravel()
            out.append(float(to_unitless(f[0] * get_derived_unit(reg, "concentration") / reg["time"], u.molar / u.s)))
        return out

    def verdict(make):
        try:
            r = make()
        except Exception:
            return "refused", None
        return ("independent" if max(r) - min(r) <= 1e-9 * max(abs(x) for x in r) else "registry dependent"), r
    good = verdict(lambda: rates(Reaction({"A": 1, "B": 1}, {"C": 1}, MassAction([3 / u.molar / u.s])), {}))
    v.prove("right_dimension_wrapped_is_accepted_and_registry_independent", good[0] == "independent" and abs(good[1][0] + 6.0) < 1e-9, detail=repr(good))
    # positive controls of the two other routes: k = 3/(M s) (activation temperature 0 K: Arrhenius factor 1), [A] = 1 M, [B] = 2 M: d[A]/dt = -6 M/s
    for label, make in (("MassAction_of_Arrhenius", lambda: rates(Reaction({"A": 1, "B": 1}, {"C": 1}, MassAction(Arrhenius([3 / u.molar / u.s, 0 * u.K]))), {"temperature": 300 * u.K})),
                        ("substitution", lambda: rates(Reaction({"A": 1, "B": 1}, {"C": 1}, "k1"), {}, substitutions={"k1": 180 / u.molar / u.minute}))):
        res = verdict(make)
        v.prove("right_dimension_" + label + "_is_accepted_and_registry_independent", res[0] == "independent" and abs(res[1][0] + 6.0) < 1e-9, detail=repr(res))
    for label, make in (("MassAction", lambda: rates(Reaction({"A": 1, "B": 1}, {"C": 1}, MassAction([3 / u.s])), {})),
                        ("MassAction_of_Arrhenius", lambda: rates(Reaction({"A": 1, "B": 1}, {"C": 1}, MassAction(Arrhenius([3 / u.s, 0 * u.K]))), {"temperature": 300 * u.K})),
                        ("substitution", lambda: rates(Reaction({"A": 1, "B": 1}, {"C": 1}, "k1"), {}, substitutions={"k1": 3 / u.s}))):
        res = verdict(make)
        v.prove("wrong_dimension_" + label + "_refused_or_harmless", res[0] == "refused", detail=repr(res))


@harness("C10", "alternative_builder.dedimensionalisation_of_a_problem", functions=["chempy.kinetics.ode:_mk_dedim", "chempy.kinetics.ode:_mk_dedim.<locals>.dedim_tcp", "chempy.units:get_derived_unit", "chempy.units:to_unitless"],
         kind="shape-bounded", div_mode="assume", samples=0, max_paths=400)
def _(v):
    """what the alternative builder's unit-aware solve hands to the integrator: time, concentrations and parameters given in ANY compatible units
    become numbers in registry units with the same physical value, and the units reported for them are the registry's units of their dimension"""
    try:
        from chempy.kinetics.ode import _mk_dedim
    except ImportError:
        # a private helper (the repository's own tests import it by this name, so a rename is not expected): without it this modular proof aid
        # has nothing to stand on -- undecided, never a violation; the clause stays with the bounded stand-in of the alternative builder
        from pyvc.sym import Unsupported
        raise Unsupported("chempy.kinetics.ode._mk_dedim (private helper of the alternative builder's unit-aware solve) is gone or renamed: its dedimensionalisation is not decided by this harness")
    from chempy import units as CU
    from pyvc.qmodel import si_value, dim_of, std_table, Quantity
    t = std_table()
    reg = _registry(v, t)
    v.contract(CU.default_unit_in_registry, "default_unit_in_registry", None, lambda v_, value, registry: _unit_in_registry(t, registry, value) if isinstance(value, Quantity) else 1)
    tu, cu, ku = t.generic("tu", TIME), t.generic("cu", CONC), t.generic("ku", _rate_dim(2))
    tm, cA, cB, k = v.real("t", lo=0, hi=1e6), v.real("cA", lo=0, hi=1e3), v.real("cB", lo=0, hi=1e3), v.real("k", lo=1e-9, hi=1e9)
    ctx = v.call(_mk_dedim, reg)
    (_t, _c, _p), extra = v.call(ctx["dedim_tcp"], tm * tu, {"A": cA * cu, "B": cB * cu}, {"k": k * ku})
    ut, uc, up = extra["unit_time"], extra["unit_conc"], extra["param_units"]["k"]
    v.prove("units_are_the_registrys", dim_of(ut) == TIME and dim_of(uc) == CONC and dim_of(up) == _rate_dim(2))
    v.prove_identity("registry_time_unit", si_value(ut), si_value(reg["time"]))
    v.prove_identity("registry_concentration_unit", si_value(uc), si_value(reg["amount"] / reg["length"] ** 3))
    v.prove_identity("time_same_physical_value", _t * si_value(ut), si_value(tm * tu))
    v.prove_identity("concentration_A_same_physical_value", _c["A"] * si_value(uc), si_value(cA * cu))
    v.prove_identity("concentration_B_same_physical_value", _c["B"] * si_value(uc), si_value(cB * cu))
    v.prove_identity("parameter_same_physical_value", _p["k"] * si_value(up), si_value(k * ku))
    v.prove("keys_kept", set(_c) == {"A", "B"} and set(_p) == {"k"})


@harness("C10", "parameters_given_at_run_time", functions=["chempy.kinetics.ode:get_odesys", "chempy.kinetics.ode:get_odesys.<locals>.<lambda>", "chempy.util._expr:Expr.dedimensionalisation",
                                                         "chempy.kinetics.rates:Eyring", "chempy.units:to_unitless"], kind="data")
def _(v):
    """(a) a value handed in at run time for a free constant is checked against the unit reported for its key: wrong dimension (a first-order unit
    for a second-order step, a concentration, a bare number) is refused, a compatible unit is converted; (b) an argument DEFAULT that carries a unit
    (the standard concentration 1 M of an Eyring expression whose other arguments are given by key only) is expressed in the registry's
    concentration unit like any explicit argument: the physical rate is the hand-computed one in every registry, for orders 1, 2 and 3"""
    import math
    import warnings
    import numpy as np
    from chempy.chemistry import Reaction
    from chempy.reactionsystem import ReactionSystem
    from chempy.kinetics.ode import get_odesys
    from chempy.kinetics.rates import MassAction, Eyring
    from chempy.units import SI_base_registry, default_units as u, to_unitless
    warnings.simplefilter("ignore")
    regs = {"SI": dict(SI_base_registry), "dm_min_umol": dict(SI_base_registry, length=u.decimetre, time=u.minute, amount=u.micromole), "cm_h": dict(SI_base_registry, length=u.centimetre, time=u.hour),
            "scaled_base_units": dict(SI_base_registry, length=0.1 * u.metre, time=60 * u.second)}
    k1, k2 = 3.0 / u.mM / u.minute, 0.5 / u.hour
    # (factories: building a system runs chempy's constructors and their checks -- an exception there is a failed obligation, not a crash of the harness)
    mk_rsys = lambda: ReactionSystem([Reaction({"A": 2}, {"B": 1}, MassAction([k1], unique_keys=["k1"])), Reaction({"B": 1}, {"A": 2}, MassAction([k2], unique_keys=["k2"]))], "A B")
    c0 = {"A": 2 * u.mM, "B": 1 * u.uM}
    accepted, converted = [], []
    # hand conversion of k1 = 3/(mM min) and k2 = 0.5/h into each registry's units:
    #   SI (m, s, mol): mM = mol/m3 -> 3/60 m3/(mol s), 0.5/3600 1/s;      dm/min/umol: mM = 1000 umol/dm3 -> 3e-3 dm3/(umol min), 0.5/60 1/min
    #   cm/h (mol): mM = 1e-6 mol/cm3 -> 3e6 * 60 cm3/(mol h), 0.5 1/h;     0.1 m / 60 s (mol): mM = 1e-3 mol/(0.1 m)3 -> 3e3, 0.5/60
    hand_p = {"SI": (0.05, 0.5 / 3600), "dm_min_umol": (3e-3, 0.5 / 60), "cm_h": (1.8e8, 0.5), "scaled_base_units": (3e3, 0.5 / 60)}
    for name, reg in regs.items():
        try:
            odesys, extra = get_odesys(mk_rsys(), include_params=False, unit_registry=reg)
        except Exception as ex:
            accepted.append((name, "get_odesys", repr(ex)[:120])); converted.append((name, "get_odesys", repr(ex)[:120]))
            continue
        for label, wrong in (("first_order_unit_for_k1", {"k1": 4.0 / u.s, "k2": k2}), ("second_order_unit_for_k2", {"k1": k1, "k2": 4.0 / u.mM / u.s}), ("concentration_for_k2", {"k1": k1, "k2": 4.0 * u.mM}),
                             ("bare_number_for_k1", {"k1": 4.0, "k2": k2})):
            try:
                odesys.to_arrays(0 * u.s, c0, wrong)
                accepted.append((name, label))
            except Exception:
                pass
        try:
            x, y, p = odesys.to_arrays(0 * u.s, c0, {"k1": 50.0 / u.M / u.s, "k2": 0.5 / 60 / u.minute})
            x2, y2, p2 = odesys.to_arrays(0 * u.s, c0, {"k1": k1, "k2": k2})
            want = [dict(zip(("k1", "k2"), hand_p[name]))[k] for k in odesys.param_names]
            if not (np.allclose(np.asarray(p, dtype=float), want, rtol=1e-12, atol=0) and np.allclose(np.asarray(p2, dtype=float), want, rtol=1e-12, atol=0)):
                converted.append((name, list(np.ravel(p)), list(np.ravel(p2)), want))
        except Exception as ex:
            converted.append((name, repr(ex)[:120]))
    v.prove("wrong_dimension_refused_at_run_time", not accepted, detail=repr(accepted[:4]))
    # one NAMED constant used by two reactions that need different dimensions (first and second order) has no dimension that suits both:
    # refused when the system is built or when the value is handed in, never accepted for one of the two (rates would depend on the registry);
    # the same name at the same order is legal
    # (refusing the shared name already when the ReactionSystem is constructed is a refusal 'when the system is built', too)
    shared = lambda: ReactionSystem([Reaction({"A": 1}, {"B": 1}, "k"), Reaction({"A": 1, "B": 1}, {"C": 1}, "k")], "A B C")
    same_order = lambda: ReactionSystem([Reaction({"A": 1}, {"B": 1}, "k"), Reaction({"B": 1}, {"C": 1}, "k")], "A B C")
    c3 = {"A": 1 * u.molar, "B": 2 * u.molar, "C": 0 * u.molar}
    took = []
    for name, reg in regs.items():
        for kval in (3 / u.molar / u.s, 3 / u.s):
            try:
                o, _e = get_odesys(shared(), unit_registry=reg, include_params=False)
                o.to_arrays(0 * u.s, c3, {"k": kval})
                took.append((name, str(kval)))
            except Exception:
                pass
    v.prove("one_name_for_two_dimensions_refused", not took, detail=repr(took[:3]))
    okk = []
    for name, reg in regs.items():
        try:
            o, _e = get_odesys(same_order(), unit_registry=reg, include_params=False)
            x, y, p = o.to_arrays(0 * u.s, c3, {"k": 3 / u.minute})
            f = np.asarray(o.f_cb(np.ravel(x)[0], np.ravel(y), np.ravel(p)), dtype=float).ravel()
            unit = reg["amount"] / reg["length"] ** 3 / reg["time"]
            phys = [float(to_unitless(fi * unit, u.molar / u.s)) for fi in f]
            okk.append(np.allclose(phys, [-0.05, 0.05 - 0.1, 0.1], rtol=1e-10, atol=0))
        except Exception as ex:
            okk.append(repr(ex)[:80])
    v.prove("one_name_at_one_order_accepted", all(x is True or x == True for x in okk), detail=repr(okk))  # noqa: E712
    v.prove("compatible_unit_converted_at_run_time", not converted, detail=repr(converted[:2]))
    # (b)
    T = 310 * u.K
    eyr = {"a1": 2e10 / u.K / u.s, "b1": 7000 * u.K, "a2": 1e10 * 60 / u.K / u.minute, "b2": 6000 * u.K, "a3": 3e7 / u.K / u.ms, "b3": 5500 * u.K}
    hand = lambda a_per_K_s, b_K: a_per_K_s * 310 * math.exp(-b_K / 310)          # standard concentration 1 M: k in M**(1-order)/s
    ks = (hand(2e10, 7000), hand(1e10, 6000), hand(3e10, 5500))
    cA, cB, cC = 2e-3, 3e-3, 0.5
    r1, r2, r3 = ks[0] * cA, ks[1] * cA * cB, ks[2] * cC ** 2 * cA
    ref = [-r1 - r2 - r3, r1 - r2, r2 - 2 * r3, r3]
    c0 = {"A": 2 * u.mM, "B": 3e3 * u.uM, "C": 0.5 * u.molar, "D": 0 * u.mol / u.m3}
    bad = []
    for mode in ("keys_only.substituted", "keys_only.run_time", "explicit"):
        rx = (lambda i: MassAction(Eyring([eyr["a%d" % i], eyr["b%d" % i]]))) if mode == "explicit" else (lambda i: MassAction(Eyring.fk("a%d" % i, "b%d" % i)))
        sys_e = lambda: ReactionSystem([Reaction({"A": 1}, {"B": 1}, rx(1)), Reaction({"A": 1, "B": 1}, {"C": 1}, rx(2)), Reaction({"C": 2, "A": 1}, {"D": 1}, rx(3))], "A B C D")
        for name, reg in regs.items():
            try:
                if mode == "keys_only.substituted":
                    odesys, extra = get_odesys(sys_e(), unit_registry=reg, substitutions=eyr)
                    params = {"temperature": T}
                elif mode == "keys_only.run_time":
                    odesys, extra = get_odesys(sys_e(), unit_registry=reg, include_params=False)
                    params = dict(eyr, temperature=T)
                else:
                    odesys, extra = get_odesys(sys_e(), unit_registry=reg)
                    params = {"temperature": T}
                x, y, p = odesys.to_arrays(0 * u.s, c0, params)
                f = np.asarray(odesys.f_cb(np.ravel(x)[0], np.ravel(y), np.ravel(p)), dtype=float).ravel()
                unit = reg["amount"] / reg["length"] ** 3 / reg["time"]
                phys = [float(to_unitless(fi * unit, u.molar / u.s)) for fi in f]
                if not np.allclose(phys, ref, rtol=1e-9, atol=0):
                    bad.append((mode, name, phys, ref))
            except Exception as ex:
                bad.append((mode, name, repr(ex)[:160]))
    v.prove("default_standard_concentration_in_registry_units", not bad, detail=repr(bad[:2]))


@harness("C10", "unit_aware_system_at_later_times_and_other_temperature_units", functions=["chempy.kinetics.ode:get_odesys", "chempy.kinetics.ode:get_odesys.<locals>.<lambda>", "chempy.units:to_unitless",
                                                                                         "chempy.kinetics.rates:RampedTemp", "chempy.kinetics.rates:Arrhenius"], kind="data")
def _(v):
    """'the same in every base-unit registry and for every choice of units for constants, concentrations and TIME' at t != 0, with a temperature
    that is not given in K, in registries whose temperature / mass unit is not the SI one:  A + B -> C,  k = 2e10/(M s) * exp(-7000 K / T),
    [A] = 2 mM, [B] = 3 mM.  (a) T(t) = 300 K + 30 K/min * t substituted: at t = 2 min T = 360 K, d[C]/dt = 2e10 * exp(-7000/360) * 6e-6 M/s, and the
    time handed to the integrator is 2 min in the registry's time unit;  (b) T = 310 K handed in at run time as 0.31 (1000 K), 310 K and 310000 mK:
    d[C]/dt = 2e10 * exp(-7000/310) * 6e-6 M/s, and the number handed over times the unit reported for 'temperature' is 310 K"""
    import math
    import warnings
    import numpy as np
    import quantities as pq
    from chempy.chemistry import Reaction
    from chempy.reactionsystem import ReactionSystem
    from chempy.kinetics.ode import get_odesys
    from chempy.kinetics.rates import MassAction, Arrhenius, RampedTemp
    from chempy.units import SI_base_registry, default_units as u
    warnings.simplefilter("ignore")
    # name -> (registry, its time unit in s)
    regs = {"mK_gram_dm": (dict(SI_base_registry, temperature=pq.mK, mass=u.gram, length=u.decimetre), 1.0), "kK_min": (dict(SI_base_registry, temperature=1000 * u.K, time=u.minute), 60.0),
            "SI": (dict(SI_base_registry), 1.0)}
    c0 = {"A": 2 * u.mM, "B": 3e3 * u.uM, "C": 0 * u.molar}
    mk = lambda: ReactionSystem([Reaction({"A": 1, "B": 1}, {"C": 1}, MassAction(Arrhenius([2e10 / u.molar / u.s, 7000 * u.K])))], "A B C")

    def phys_rate(reg, odesys, x, y, p):
        f = np.asarray(odesys.f_cb(np.ravel(x)[-1], np.ravel(y), np.ravel(p)), dtype=float).ravel()
        scale, dim = _si(reg["amount"] / reg["length"] ** 3 / reg["time"])       # mol/m3/s per registry rate unit
        return [fi * scale / 1000.0 for fi in f]                                 # M/s
    bad_rate, bad_time, bad_T = [], [], []
    r360, r310 = 2e10 * math.exp(-7000.0 / 360) * 2e-3 * 3e-3, 2e10 * math.exp(-7000.0 / 310) * 2e-3 * 3e-3
    for name, (reg, time_s) in regs.items():
        try:
            odesys, extra = get_odesys(mk(), unit_registry=reg, substitutions={"temperature": RampedTemp([300 * u.K, 30 * u.K / u.minute])})
            for tend in (2 * u.minute, 120 * u.s, (1 / 30.) * u.hour):
                x, y, p = odesys.to_arrays(tend, c0, {})
                xs = [float(xi) for xi in np.ravel(x)]
                if not (len(xs) >= 1 and abs(xs[-1] * time_s / 120.0 - 1) < 1e-12 and (len(xs) == 1 or xs[0] == 0)):
                    bad_time.append((name, str(tend), xs))
                got = phys_rate(reg, odesys, x, y, p)
                if not np.allclose(got, [-r360, -r360, r360], rtol=1e-9, atol=0):
                    bad_rate.append((name, str(tend), got, r360))
        except Exception as ex:
            bad_rate.append((name, repr(ex)[:160])); bad_time.append((name, repr(ex)[:160]))
        try:
            odesys, extra = get_odesys(mk(), unit_registry=reg)
            (ts, td) = _si(dict(zip(odesys.param_names, extra["p_units"]))["temperature"])
            for T in (0.31 * (1000 * u.K), 310 * u.K, 310000 * pq.mK):
                x, y, p = odesys.to_arrays(2 * u.minute, c0, {"temperature": T})
                pT = float(dict(zip(odesys.param_names, np.ravel(p)))["temperature"])
                got = phys_rate(reg, odesys, x, y, p)
                if td != _si(u.K)[1] or abs(pT * ts / 310.0 - 1) > 1e-12 or not np.allclose(got, [-r310, -r310, r310], rtol=1e-9, atol=0):
                    bad_T.append((name, str(T), pT, ts, got, r310))
        except Exception as ex:
            bad_T.append((name, repr(ex)[:160]))
    v.prove("ramped_temperature_rate_at_two_minutes", not bad_rate, detail=repr(bad_rate[:2]))
    v.prove("time_handed_over_in_the_registrys_time_unit", not bad_time, detail=repr(bad_time[:2]))
    v.prove("temperature_in_any_unit_and_registry", not bad_T, detail=repr(bad_T[:2]))


@harness("C10", "Equilibrium.real_quantities", functions=[CH + ":Equilibrium.check_consistent_units", CH + ":Reaction.__init__", "chempy.units:unit_of"], kind="data")
def _(v):
    """'an equilibrium never accepts a constant whose dimension differs from concentration^(products-reactants)' on the real quantities package
    (which compares float scales; the symbolic harnesses use exact scales): wrong dimensions are refused by the check and by the constructor;
    molar**exponent itself -- a dimensionless QUANTITY for exponent 0 -- is accepted.
    NOT stated, because the property does not fix it: WHICH other constants of the right dimension are accepted (the pinned tree refuses mM,
    mol/m3, percent ... and even exact spellings of 1 M such as mol/dm3, second review finding 3; a chempy that accepts them, as Reaction does
    for rate constants, still satisfies C10).  What is stated for them is only that 'accepts' is ONE verdict: check_consistent_units(),
    check_consistent_units(throw=True) and the constructor with its default checks agree on each of them."""
    import quantities as pq
    from chempy.chemistry import Equilibrium
    from chempy.units import default_units as u
    # unit -> mol/m3 per unit (hand table)
    conc_units = (("molar", u.molar, 1e3), ("mM", u.mM, 1.0), ("uM", u.uM, 1e-3), ("mol/m3", u.mol / u.m3, 1.0), ("mol/cm3", u.mol / u.cm3, 1e6), ("mmol/dm3", pq.mmol / u.dm3, 1.0))
    stoich = {-2: ({"A": 3}, {"B": 1}), -1: ({"A": 2}, {"B": 1}), 0: ({"A": 1}, {"B": 1}), 1: ({"A": 1}, {"B": 1, "C": 1}), 2: ({"A": 1}, {"B": 3})}

    def check(expo, q, **kw):
        try:
            r, p = stoich[expo]
            return bool(Equilibrium(r, p, q, checks=()).check_consistent_units(**kw))
        except Exception as ex:
            return ex

    def verdicts(expo, q):
        """[check(), check(throw=True), constructor]: True = accepted, False = refused (throw mode / constructor: by raising), else what went wrong"""
        r, p = stoich[expo]
        out = [check(expo, q)]
        thrown = check(expo, q, throw=True)
        out.append(False if isinstance(thrown, Exception) else True if thrown is True else "throw=True returned %r" % (thrown,))
        try:
            Equilibrium(r, p, q); out.append(True)
        except Exception:
            out.append(False)
        return out
    wrong_scale, no_molar, wrong_dim = [], [], []
    for expo in stoich:
        # (name kept: accepted_only_at_the_scale_of_molar used to demand REFUSAL of every right-dimension constant whose scale is not molar's --
        # more than the property states, see the docstring)
        for name, unit, _scale in (conc_units + (("mol/dm3", u.mol / u.dm3, 1e3),) if expo else ()):
            got = verdicts(expo, 3.0 * unit ** expo)
            if got not in ([True, True, True], [False, False, False]):
                wrong_scale.append((expo, name, repr(got)[:120]))
        got = check(expo, 3.0 * u.molar ** expo if expo else 3.0 * u.dimensionless)
        if got is not True:
            no_molar.append((expo, repr(got)[:100]))
        # one wrong dimension each: a concentration too many / too few, per time, per mass instead of per volume, bare time
        for name, q in (("conc+1", 3.0 * u.molar ** (expo + 1)), ("conc-1", 3.0 * u.molar ** (expo - 1)), ("per_time", 3.0 * u.molar ** expo / u.s), ("molal", 3.0 * u.molal ** expo * u.molal),
                        ("time", 3.0 * u.s)):
            if check(expo, q) is not False or not isinstance(check(expo, q, throw=True), Exception):
                wrong_dim.append((expo, name))
    got = verdicts(0, 3.0 * pq.percent)
    if got not in ([True, True, True], [False, False, False]):
        wrong_scale.append((0, "percent", repr(got)[:120]))
    v.prove("accepted_only_at_the_scale_of_molar", not wrong_scale, detail=repr(wrong_scale[:4]))
    v.prove("molar_to_the_exponent_accepted", not no_molar, detail=repr(no_molar))
    v.prove("wrong_dimension_refused", not wrong_dim, detail=repr(wrong_dim[:6]))
    ctor = []
    for q, expect in ((3.0 / u.s, False), (3.0 * u.molar ** 2, False), (3.0 * u.molar, True)):
        try:
            Equilibrium({"A": 1}, {"B": 1, "C": 1}, q); got = True
        except Exception:
            got = False
        ctor.append(got == expect)
    v.prove("constructor_runs_the_check", all(ctor), detail=repr(ctor))


@harness("C10", "alternative_builder.validate", functions=["chempy.kinetics.ode:_validate", "chempy.kinetics.ode:_create_odesys", "chempy.units:to_unitless"], kind="data")
def _(v):
    """the alternative builder's acceptance test (its dedimensionalisation follows each parameter's OWN dimension, so the refusal of a wrong
    dimension rests on `validate` alone):  A + B -> A + C (k1),  C -> B (k2),  -> C (k0)  with [A] = 1 M, [B] = 2 mM, [C] = 5 uM, k1 = 3/(mM min),
    k2 = 0.5/h, k0 = 7 uM/s.  By hand in M and s: k1 [A][B] = 50 * 1 * 2e-3 = 0.1;  k2 [C] = 0.5/3600 * 5e-6;  d[A]/dt = 0 (the catalyst),
    d[B]/dt = -0.1 + k2 [C],  d[C]/dt = 0.1 - k2 [C] + 7e-6.  Every constant or concentration of a wrong dimension (or without unit) is refused;
    the caller's quantities are not changed by the call"""
    import warnings
    from chempy.chemistry import Reaction
    from chempy.reactionsystem import ReactionSystem
    from chempy.kinetics import ode as _ode
    from chempy.units import default_units as u
    warnings.simplefilter("ignore")
    good = lambda: dict(A=1 * u.molar, B=2 * u.mM, C=5 * u.uM, k1=3 / u.mM / u.minute, k2=0.5 / u.hour, k0=7 * u.uM / u.s)
    k2C = 0.5 / 3600 * 5e-6
    hand = {"A": 0.0, "B": -0.1 + k2C, "C": 0.1 - k2C + 7e-6}      # M/s
    try:
        create = getattr(_ode, "create_odesys", None) or getattr(_ode, "_create_odesys")
        rsys = ReactionSystem([Reaction({"A": 1, "B": 1}, {"A": 1, "C": 1}, "k1"), Reaction({"C": 1}, {"B": 1}, "k2"), Reaction({}, {"C": 1}, "k0", checks=())], "A B C")
        odesys, extra = create(rsys)
        validate = extra["validate"]
        setup = None
    except Exception as ex:
        setup = repr(ex)[:200]
    bad_rates, untouched = [], []
    if setup is None:
        try:
            cond = good()
            before = {k: _si(q) for k, q in cond.items()}
            rates = validate(dict(cond))["rates"]
            rate_dim = _si(u.molar / u.s)[1]
            for k, want in hand.items():
                mag, dim = _si(rates[k])                                   # mol/m3/s
                if dim != rate_dim or abs(mag / 1000.0 - want) > 1e-12 * max(abs(want), 1e-6):
                    bad_rates.append((k, str(rates[k]), want))
            untouched = [k for k, q in cond.items() if _si(q) != before[k]]
        except Exception as ex:
            bad_rates.append(repr(ex)[:200]); untouched.append(repr(ex)[:200])
    # a second system in which every rate is a SINGLE term,  A -> B (k):  a wrong dimension cannot be refused by the accident that two terms of a sum
    # do not add up, only by the check of each term against concentration/time.  k = 3/min, [A] = 2 mM: d[B]/dt = -d[A]/dt = 3/60 * 2e-3 = 1e-4 M/s
    good1 = lambda: dict(A=2 * u.mM, B=0 * u.molar, k=3 / u.minute)
    try:
        validate1 = create(ReactionSystem([Reaction({"A": 1}, {"B": 1}, "k")], "A B"))[1]["validate"]
        rates1 = validate1(good1())["rates"]
        for k, want in (("A", -1e-4), ("B", 1e-4)):
            mag, dim = _si(rates1[k])
            if dim != _si(u.molar / u.s)[1] or abs(mag / 1000.0 / want - 1) > 1e-12:
                bad_rates.append(("single term", k, str(rates1[k]), want))
    except Exception as ex:
        setup = setup or repr(ex)[:200]
    v.prove("rates_with_units_equal_the_hand_computation", setup is None and not bad_rates, detail=repr(setup or bad_rates))
    v.prove("callers_quantities_left_untouched", setup is None and not untouched, detail=repr(setup or untouched))
    accepted = []
    if setup is None:
        for key, val in (("k1", 3 / u.minute), ("k1", 3 / u.mM ** 2 / u.minute), ("k1", 3.0), ("k2", 0.5 / u.hour / u.molar), ("k2", 0.5 * u.hour), ("k0", 7 / u.s), ("k0", 7 * u.uM),
                         ("A", 1 * u.mol / u.kg), ("A", 1.0), ("B", 2 * u.mM / u.s), ("C", 5 * u.umol)):
            try:
                validate(dict(good(), **{key: val}))
                accepted.append((key, str(val)))
            except Exception:
                pass
        for key, val in (("k", 3 / u.molar / u.minute), ("k", 3 * u.molar / u.minute), ("k", 3 * u.minute), ("k", 3.0), ("A", 2 * u.mol / u.kg), ("A", 2 * u.mM / u.s), ("A", 2.0)):
            try:
                validate1(dict(good1(), **{key: val}))
                accepted.append(("single term", key, str(val)))
            except Exception:
                pass
    # ('refused' = any exception; the positive control is the first obligation: the same calls with the right dimensions return the rates)
    v.prove("wrong_dimension_refused", setup is None and not accepted, detail=repr(setup or accepted))


@harness("C10", "output_rescaling", functions=["chempy.kinetics.ode:get_odesys", "chempy.kinetics.ode:get_odesys.<locals>.post_processor", "chempy.units:rescale"], kind="data")
def _(v):
    """'output rescaling and parameter units reported alongside are consistent with it': what get_odesys installs to turn the integrator's numbers
    back into quantities (no integration needed: the closure is called directly).  Registry dm / min / umol, 2 A -> B with k1 = 3/(mM min) free:
    internal times [0, 30] are 0 and 30 min = 0.5 h; internal concentrations [[2000, 1], [500, 751]] umol/dm3 are [[2, 1e-3], [0.5, 0.751]] mM;
    the internal parameter 0.003 dm3/(umol min) is 3/(mM min).  With output_time_unit=h, output_conc_unit=mM the results are expressed in these
    units; without, in any unit -- in both cases with the same physical values"""
    import warnings
    import numpy as np
    from chempy.chemistry import Reaction
    from chempy.reactionsystem import ReactionSystem
    from chempy.kinetics.ode import get_odesys
    from chempy.kinetics.rates import MassAction
    from chempy.units import SI_base_registry, default_units as u
    warnings.simplefilter("ignore")
    reg = dict(SI_base_registry, length=u.decimetre, time=u.minute, amount=u.micromole)
    t_si, c_si, k_si = [0.0, 1800.0], [[2.0, 1e-3], [0.5, 0.751]], 3.0 / 60         # s, mol/m3 (= mM), m3/(mol s)
    res = {}
    for label, kw in (("requested", dict(output_conc_unit=u.mM, output_time_unit=u.hour)), ("default", {})):
        bad = []
        try:
            rsys = ReactionSystem([Reaction({"A": 2}, {"B": 1}, MassAction([3 / u.mM / u.minute], unique_keys=["k1"]))], "A B")
            odesys, extra = get_odesys(rsys, include_params=False, unit_registry=reg, **kw)
            xo, yo, po = odesys.post_processors[-1](np.array([0., 30.]), np.array([[2000., 1.], [500., 751.]]), np.array([0.003]))
            (xs, xd), (ys, yd) = _si(xo.units), _si(yo.units)
            if xd != _si(u.s)[1] or not np.allclose(np.asarray(xo.magnitude, dtype=float) * xs, t_si, rtol=1e-12, atol=0):
                bad.append(("time", str(xo)))
            if yd != _si(u.molar)[1] or not np.allclose(np.asarray(yo.magnitude, dtype=float) * ys, c_si, rtol=1e-12, atol=0):
                bad.append(("conc", str(yo)))
            if label == "requested" and not (np.allclose(np.asarray(xo.magnitude, dtype=float), [0, 0.5], rtol=1e-12, atol=0) and
                                             np.allclose(np.asarray(yo.magnitude, dtype=float), c_si, rtol=1e-12, atol=0)):
                bad.append(("not in the requested units", str(xo), str(yo)))
            pl = list(np.ravel(po))
            ps, pd = _si(pl[0]) if len(pl) == 1 and hasattr(pl[0], "units") else (None, None)
            par_ok = ps is not None and pd == _si(1 / u.molar / u.s)[1] and abs(ps / k_si - 1) < 1e-12
            par_det = repr(po)
        except Exception as ex:
            bad.append(repr(ex)[:200]); par_ok, par_det = False, repr(ex)[:200]
        res[label] = (bad, par_ok, par_det)
    v.prove("times_and_concentrations_in_the_requested_units", not res["requested"][0], detail=repr(res["requested"][0]))
    v.prove("times_and_concentrations_without_request", not res["default"][0], detail=repr(res["default"][0]))
    v.prove("parameters_reported_with_their_units", res["requested"][1] and res["default"][1], detail=res["requested"][2] + " / " + res["default"][2])


@harness("C10", "Radiolytic.end_to_end", functions=["chempy.kinetics.ode:_get_derived_unit", "chempy.kinetics.ode:get_odesys", "chempy.units:get_derived_unit",
                                                     "chempy.kinetics.rates:mk_Radiolytic"], kind="data")
def _(v):
    """parameters whose unit comes from their NAME (dose rates 'doserate_<suffix>', density) in a unit-aware system:  -> A by two radiation fields
    with yields 2e-7 mol/J and 3 umol/J, dose rates 10 Gy/s and 2 kGy/h, density 0.998 kg/dm3;  A -> B, 0.1/s, [A] = 1 M.  By hand: d[A]/dt =
    998 kg/m3 * (2e-7 * 10 + 3e-6 * 2000/3600) mol/(kg s) / 1000 - 0.1 = -0.0999963406667 M/s, d[B]/dt = 0.1 M/s, in every registry; the number
    handed over for each parameter times its reported unit is what was given"""
    import warnings
    import numpy as np
    from chempy.chemistry import Reaction
    from chempy.reactionsystem import ReactionSystem
    from chempy.kinetics.ode import get_odesys
    from chempy.kinetics.rates import mk_Radiolytic
    from chempy.units import SI_base_registry, default_units as u
    warnings.simplefilter("ignore")
    regs = {"SI": dict(SI_base_registry), "dm_min_umol": dict(SI_base_registry, length=u.decimetre, time=u.minute, amount=u.micromole),
            "cm_h_gram": dict(SI_base_registry, length=u.centimetre, time=u.hour, mass=u.gram)}
    given = {"density": 0.998 * u.kg / u.dm3, "doserate_alpha": 10 * u.gray / u.s, "doserate_beta": 2 * u.kilogray / u.hour}
    given_si = {"density": 998.0, "doserate_alpha": 10.0, "doserate_beta": 2000.0 / 3600}        # kg/m3, m2/s3
    ref = [998.0 * (2e-7 * 10 + 3e-6 * 2000 / 3600) / 1000 - 0.1, 0.1]
    bad_rate, bad_par = [], []
    for name, reg in regs.items():
        try:
            rsys = ReactionSystem([Reaction({}, {"A": 1}, mk_Radiolytic("alpha", "beta")([2e-7 * u.mol / u.joule, 3 * u.umol / u.joule]), checks=()), Reaction({"A": 1}, {"B": 1}, 0.1 / u.s)], "A B")
            odesys, extra = get_odesys(rsys, unit_registry=reg)
            x, y, p = odesys.to_arrays(0 * u.s, {"A": 1 * u.molar, "B": 0 * u.molar}, dict(given))
            f = np.asarray(odesys.f_cb(np.ravel(x)[0], np.ravel(y), np.ravel(p)), dtype=float).ravel()
            scale = _si(reg["amount"] / reg["length"] ** 3 / reg["time"])[0]
            got = [fi * scale / 1000.0 for fi in f]
            if not np.allclose(got, ref, rtol=1e-10, atol=0):
                bad_rate.append((name, got, ref))
            pu, pv = dict(zip(odesys.param_names, extra["p_units"])), dict(zip(odesys.param_names, np.ravel(p)))
            for key, q in given.items():
                (us, ud), (gs, gd) = _si(pu[key]), _si(q)
                if ud != gd or abs(float(pv[key]) * us / given_si[key] - 1) > 1e-11 or abs(gs / given_si[key] - 1) > 1e-12:
                    bad_par.append((name, key, str(pu[key]), float(pv[key])))
        except Exception as ex:
            bad_rate.append((name, repr(ex)[:160])); bad_par.append((name, repr(ex)[:160]))
    v.prove("physical_rate_with_suffixed_doserate_keys", not bad_rate, detail=repr(bad_rate[:2]))
    v.prove("parameter_units_consistent_with_the_numbers_handed_over", not bad_par, detail=repr(bad_par[:3]))


@harness("C10", "Reaction.acceptance_depends_on_the_dimension_only", functions=[CH + ":Reaction.check_consistent_units", CH + ":Reaction.__init__", CH + ":Equilibrium.check_consistent_units",
                                                                               "chempy.units:to_unitless"], kind="data")
def _(v):
    """'accepts a unit-carrying rate constant IF AND ONLY IF its dimension is concentration^(1-order)/time, WHATEVER CONCRETE UNITS EXPRESS IT' with
    real quantities over the whole grid of the quantifier (orders 0..3; s, min, h, ms; M, mM, uM, mol/m3, mol/cm3) and over the magnitudes a
    double can hold in the units given (1e-305 .. 1e305: the same constant written in another unit has another number in front): the verdict of the
    constructor, of check_consistent_units() and of check_consistent_units(throw=True) is a function of the dimension alone -- never of the
    magnitude, of the unit chosen or of what the number would be in M and s; one concentration too many / too few is refused at every magnitude.
    The equilibrium half ('never accepts another dimension') likewise at every magnitude"""
    import warnings
    from chempy.chemistry import Reaction, Equilibrium
    from chempy.units import default_units as u
    warnings.simplefilter("ignore")
    times = (("s", u.s), ("min", u.minute), ("h", u.hour), ("ms", u.ms))
    concs = (("M", u.molar), ("mM", u.mM), ("uM", u.uM), ("mol/m3", u.mol / u.m3), ("mol/cm3", u.mol / u.cm3))
    mags = (1e-305, 1e-150, 2.5, 1e150, 1e305)

    def verdicts(order, k):
        out = []
        try:
            Reaction(_reac(order), {"P": 1}, k); out.append(True)
        except Exception:
            out.append(False)
        try:
            rxn = Reaction(_reac(order), {"P": 1}, k, checks=())
        except Exception as ex:
            return out + [repr(ex)[:60]]
        try:
            out.append(rxn.check_consistent_units())
        except Exception as ex:
            out.append(repr(ex)[:60])
        try:
            rxn.check_consistent_units(throw=True); out.append(True)
        except Exception:
            out.append(False)
        return out
    refused, accepted = [], []
    for order in (0, 1, 2, 3):
        for tn, tu in times:
            for cn, cu in concs:
                for m in mags:
                    for off in (0, 1, -1):
                        got = verdicts(order, m * cu ** (1 - order + off) / tu)
                        if off == 0 and not all(g is True or g == True for g in got):       # noqa: E712
                            refused.append((order, "%g %s^%d/%s" % (m, cn, 1 - order, tn), got))
                        if off != 0 and not all(g is False or g == False for g in got):     # noqa: E712
                            accepted.append((order, "%g %s^%d/%s" % (m, cn, 1 - order + off, tn), got))
    v.prove("right_dimension_accepted_in_every_unit_at_every_magnitude", not refused, detail="%d refused, e.g. %r" % (len(refused), refused[:3]))
    v.prove("wrong_dimension_refused_in_every_unit_at_every_magnitude", not accepted, detail="%d accepted, e.g. %r" % (len(accepted), accepted[:3]))
    # the same physical constant, 1e-310 M/s = 1e-304 uM/s = 3.6e-301 uM/h (and 1e309/(M2 s) = 1e300/(mM2 ms) which has no double in M, s): one verdict
    same = [verdicts(0, 1e-310 * u.molar / u.s), verdicts(0, 1e-304 * u.uM / u.s), verdicts(0, 3.6e-301 * u.uM / u.hour), verdicts(3, 1e300 / u.mM ** 2 / u.ms)]
    v.prove("one_constant_written_in_several_units_has_one_verdict", all(g is True or g == True for s in same for g in s), detail=repr(same))       # noqa: E712
    eq_acc = []
    for expo, (r, p) in ((-1, ({"A": 2}, {"B": 1})), (0, ({"A": 1}, {"B": 1})), (1, ({"A": 1}, {"B": 1, "C": 1}))):
        for cn, cu in concs:
            for m in mags:
                for off in (1, -1):
                    for kw in ({}, {"throw": True}):
                        try:
                            if Equilibrium(r, p, m * cu ** (expo + off), checks=()).check_consistent_units(**kw) or kw:
                                eq_acc.append((expo, "%g %s^%d" % (m, cn, expo + off), kw))
                        except Exception:
                            pass                                             # refused
    v.prove("equilibrium_wrong_dimension_refused_at_every_magnitude", not eq_acc, detail=repr(eq_acc[:4]))


@harness("C10", "several_runs_at_once_in_mixed_units", functions=["chempy.kinetics.ode:get_odesys", "chempy.kinetics.ode:get_odesys.<locals>.<lambda>", "chempy.units:to_unitless",
                                                                 "chempy.units:unitless_in_registry"], kind="data")
def _(v):
    """'for every choice of units for constants, concentrations and time' when SEVERAL initial states / parameter sets are handed over at once
    (a dict in which some entries are arrays: one row per run) and every species / constant comes in its OWN unit:  A -> B (k1),  2 B -> C (k2).
    Each row handed to the integrator, times the registry's concentration unit (the unit reported for the constant), is what was given for that
    run, and the physical rate of each run is the hand computation in M and s:  d[A]/dt = -k1 [A],  d[B]/dt = k1 [A] - 2 k2 [B]^2,  d[C]/dt =
    k2 [B]^2  with 3/min = 0.05/s, 7.2/(mM h) = 2/(M s).  The conversion underneath (chempy.units.to_unitless of a list / tuple / object array of
    quantities in different units) converts every element from ITS unit"""
    import warnings
    import numpy as np
    from chempy.chemistry import Reaction
    from chempy.reactionsystem import ReactionSystem
    from chempy.kinetics.ode import get_odesys
    from chempy.kinetics.rates import MassAction
    from chempy.units import SI_base_registry, default_units as u, to_unitless
    warnings.simplefilter("ignore")
    regs = {"SI": dict(SI_base_registry), "dm_min_umol": dict(SI_base_registry, length=u.decimetre, time=u.minute, amount=u.micromole), "cm_h": dict(SI_base_registry, length=u.centimetre, time=u.hour)}
    k1, k2 = 3.0 / u.minute, 7.2 / u.mM / u.hour
    # label -> (initial state, parameters, per run by hand: ([A], [B], [C]) in M, (k1 in 1/s, k2 in 1/(M s)))
    cases = {
        "one_species_varied": ({"A": [1.0, 2.0, 3.0] * u.molar, "B": 250.0 * u.mM, "C": 0.0 * u.mol / u.m3}, {"k1": k1, "k2": k2},
                               [((1.0, 0.25, 0.0), (0.05, 2.0)), ((2.0, 0.25, 0.0), (0.05, 2.0)), ((3.0, 0.25, 0.0), (0.05, 2.0))]),
        "first_species_fixed": ({"A": 4 * u.mM, "B": [0.25, 0.5] * u.mol / u.m3, "C": 0.0 * u.molar}, {"k1": 0.05 / u.s, "k2": [7.2, 14.4] / u.mM / u.hour},
                                [((4e-3, 0.25e-3, 0.0), (0.05, 2.0)), ((4e-3, 0.5e-3, 0.0), (0.05, 4.0))]),
        "all_varied": ({"A": [4, 5] * u.mM, "B": [250.0, 500.0] * u.uM, "C": [0.0, 1e-6] * u.mol / u.cm3}, {"k1": [3.0, 6.0] / u.minute, "k2": 2.0 / u.molar / u.s},
                       [((4e-3, 250e-6, 0.0), (0.05, 2.0)), ((5e-3, 500e-6, 1e-3), (0.1, 2.0))]),
        "constants_varied_only": ({"A": 1 * u.molar, "B": 250.0 * u.mM, "C": 0.0 * u.mol / u.m3}, {"k1": [180.0, 360.0] / u.hour, "k2": [2.0, 4.0] / u.molar / u.s},
                                  [((1.0, 0.25, 0.0), (0.05, 2.0)), ((1.0, 0.25, 0.0), (0.1, 4.0))]),
    }
    bad_y, bad_p, bad_f = [], [], []
    for name, reg in regs.items():
        try:
            rsys = ReactionSystem([Reaction({"A": 1}, {"B": 1}, MassAction([k1], unique_keys=["k1"])), Reaction({"B": 2}, {"C": 1}, MassAction([k2], unique_keys=["k2"]))], "A B C")
            odesys, extra = get_odesys(rsys, include_params=False, unit_registry=reg)
            conc_si = _si(reg["amount"] / reg["length"] ** 3)[0]                       # mol/m3 per registry concentration unit
            rate_si = _si(reg["amount"] / reg["length"] ** 3 / reg["time"])[0]
            pu = {k: _si(q)[0] for k, q in zip(odesys.param_names, extra["p_units"])}  # SI: 1/s, m3/(mol s)
            ik1, ik2 = list(odesys.param_names).index("k1"), list(odesys.param_names).index("k2")
        except Exception as ex:
            for b in (bad_y, bad_p, bad_f):
                b.append((name, repr(ex)[:160]))
            continue
        for label, (c0, params, hand) in cases.items():
            try:
                x, y, p = odesys.to_arrays(1 * u.s, c0, params)
                y, p = np.asarray(y, dtype=float), np.asarray(p, dtype=float)
                if y.shape != (len(hand), 3) or p.shape != (len(hand), 2):
                    bad_y.append((name, label, "shapes", y.shape, p.shape))
                    continue
                for i, ((a, b, c), (h1, h2)) in enumerate(hand):
                    if not np.allclose(y[i] * conc_si / 1000.0, [a, b, c], rtol=1e-11, atol=0):
                        bad_y.append((name, label, i, list(y[i] * conc_si / 1000.0), (a, b, c)))
                    got_k = [p[i][ik1] * pu["k1"], p[i][ik2] * pu["k2"] * 1000.0]         # 1/s, 1/(M s)
                    if not np.allclose(got_k, [h1, h2], rtol=1e-11, atol=0):
                        bad_p.append((name, label, i, got_k, (h1, h2)))
                    f = np.asarray(odesys.f_cb(float(np.ravel(x)[0]), y[i], p[i]), dtype=float).ravel() * rate_si / 1000.0     # M/s
                    ref = [-h1 * a, h1 * a - 2 * h2 * b ** 2, h2 * b ** 2]
                    if not np.allclose(f, ref, rtol=1e-10, atol=0):
                        bad_f.append((name, label, i, list(f), ref))
            except Exception as ex:
                for b in (bad_y, bad_p, bad_f):
                    b.append((name, label, repr(ex)[:160]))
    v.prove("each_species_of_each_run_read_in_its_own_unit", not bad_y, detail="%d, e.g. %r" % (len(bad_y), bad_y[:2]))
    v.prove("each_constant_of_each_run_read_in_its_own_unit", not bad_p, detail="%d, e.g. %r" % (len(bad_p), bad_p[:2]))
    v.prove("physical_rate_of_each_run_equals_the_hand_computation", not bad_f, detail="%d, e.g. %r" % (len(bad_f), bad_f[:2]))
    # the conversion underneath: 1 M, 250 mM, 2 mol/cm3 (= 2000 M), 3 uM -- in M: 1, 0.25, 2000, 3e-6
    try:
        qs = [1 * u.molar, 250 * u.mM, 2 * u.mol / u.cm3, 3 * u.uM]
        want = np.array([1.0, 0.25, 2000.0, 3e-6])
        arr = np.empty(4, dtype=object)
        for i, q in enumerate(qs):
            arr[i] = q
        forms = {"list": list(qs), "tuple": tuple(qs), "object_array": arr, "object_array_2d": arr.reshape(2, 2), "list_of_lists": [qs[:2], qs[2:]]}
        wrong = []
        for label, val in forms.items():
            for unit_name, unit, per_M in (("M", u.molar, 1.0), ("mol/m3", u.mol / u.m3, 1e3), ("uM", u.uM, 1e6)):
                got = np.asarray(to_unitless(val, unit), dtype=float)
                if got.shape != np.shape(val) or not np.allclose(got.ravel(), want * per_M, rtol=1e-12, atol=0):
                    wrong.append((label, unit_name, got.tolist()))
        # a wrong dimension anywhere in the block is refused, not read in a neighbour's unit
        for label, val in (("list", [1 * u.molar, 2 * u.s]), ("object_array", np.array([1 * u.molar, 2 * u.mM, 3 * u.s], dtype=object))):
            try:
                wrong.append((label, "wrong dimension taken", np.asarray(to_unitless(val, u.molar)).tolist()))
            except Exception:
                pass
        det = repr(wrong[:3])
    except Exception as ex:
        wrong, det = [repr(ex)], repr(ex)[:200]
    v.prove("block_of_quantities_converted_element_by_element", not wrong, detail=det)
