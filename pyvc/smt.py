"""Extra back ends: nlsat on atomised real terms, cvc5 (strings) via SMT-LIB export."""
from __future__ import annotations

import os
import subprocess
import tempfile
import time

import z3

REAL_FUNS = ("exp", "sqrt", "tanh", "log", "cos", "sin", "atanh", "log10", "exp10", "pow")


def _collect_apps(e, out, seen):
    k = e.get_id()
    if k in seen:
        return
    seen.add(k)
    for c in e.children():
        _collect_apps(c, out, seen)
    if z3.is_app(e) and e.decl().kind() == z3.Z3_OP_UNINTERPRETED and e.num_args() > 0 and e.decl().name() in REAL_FUNS:
        out.append(e)


def atomise(formulas):
    """replace applications of the real functions by fresh reals + the facts of 5.3 that hold for them"""
    apps, seen = [], set()
    for f in formulas:
        _collect_apps(f, apps, seen)
    subs = []
    facts = []
    by_arg = {}
    for i, a in enumerate(apps):
        v = z3.Real("atom!%d!%s" % (i, a.decl().name()))
        subs.append((a, v))
    # substitute innermost first: apps were collected bottom-up
    def sub(e):
        return z3.substitute(e, *subs) if subs else e
    for a, v in subs:
        name = a.decl().name()
        arg = sub(a.arg(0))
        if name == "exp":
            facts += [v > 0, z3.Implies(arg <= 0, v <= 1), z3.Implies(arg >= 0, v >= 1), z3.Implies(arg == 0, v == 1),
                      z3.Implies(arg < 0, v < 1), z3.Implies(arg > 0, v > 1)]
        elif name == "sqrt":
            facts += [z3.Implies(arg >= 0, z3.And(v >= 0, v * v == arg))]
        elif name == "tanh":
            facts += [v > -1, v < 1, z3.Implies(arg >= 0, v >= 0), z3.Implies(arg <= 0, v <= 0), z3.Implies(arg > 0, v > 0)]
        elif name == "exp10":
            facts += [v > 0, z3.Implies(arg <= 0, v <= 1), z3.Implies(arg >= 0, v >= 1)]
        elif name == "log":
            facts += [z3.Implies(arg >= 1, v >= 0), z3.Implies(z3.And(arg > 0, arg <= 1), v <= 0)]
        elif name == "pow":
            facts += [z3.Implies(arg > 0, v > 0)]
        elif name == "cos" or name == "sin":
            facts += [v >= -1, v <= 1]
    # monotonicity between exp atoms with comparable arguments is left out on purpose (kept small)
    return [sub(f) for f in formulas], facts


def nl_check(hyps, goal, timeout_ms=30000):
    """is  hyps => goal  valid over the reals?  returns ('unsat'|'sat'|'unknown', model or reason)"""
    fs, facts = atomise(list(hyps) + [z3.Not(goal)])
    s = z3.Tactic("qfnra-nlsat").solver() if not _has_quant(fs + facts) else z3.Solver()
    s.set("timeout", timeout_ms)
    for f in fs + facts:
        s.add(f)
    r = s.check()
    if r == z3.unsat:
        return "unsat", None
    if r == z3.sat:
        return "sat", s.model()
    return "unknown", s.reason_unknown()


def _has_quant(fs):
    seen = set()

    def rec(e):
        if e.get_id() in seen:
            return False
        seen.add(e.get_id())
        if z3.is_quantifier(e):
            return True
        return any(rec(c) for c in e.children())
    return any(rec(f) for f in fs)


CVC5 = "/usr/bin/cvc5"


def cvc5_check(smt2_text, timeout_s=20, extra=("--strings-exp",)):
    """run the system cvc5 on an SMT-LIB script; returns 'unsat' | 'sat' | 'unknown'"""
    if not os.path.exists(CVC5):
        return "unknown", "cvc5 not installed"
    with tempfile.NamedTemporaryFile("w", suffix=".smt2", delete=False) as fh:
        fh.write(smt2_text)
        fn = fh.name
    try:
        r = subprocess.run([CVC5, "--lang=smt2", "--tlimit=%d" % (timeout_s * 1000)] + list(extra) + [fn],
                           capture_output=True, text=True, timeout=timeout_s + 5)
        out = r.stdout.strip().splitlines()
        res = out[0].strip() if out else "unknown"
        if res not in ("sat", "unsat"):
            return "unknown", (r.stdout + r.stderr)[:300]
        return res, ""
    except subprocess.TimeoutExpired:
        return "unknown", "timeout"
    finally:
        os.unlink(fn)
